#!/usr/bin/env python3
"""Regenerates MANIFEST.json from the table below (single source of truth)."""
import json, os

ALL = ["C%02d" % i for i in range(1, 21)]

CHECKS = {
 "C04": dict(
   category="model_checking",
   text="TLC checks the model of the shipped evaluator (value stack, waiting operators reduced before a looser-or-equal "
        "one is pushed; until the repair 545f582 the 3-value/2-operator machine with a named deviation) against the "
        "precedence-climbing reference on every enumerated token string (8-bit words, 3.5x10^5 strings in quick), then "
        "every TLC-generated expression (operator orderings, parentheses, unary chains, literal "
        "spellings, expressions without a value) is assembled by the real code as `.dc64 <expr>` and "
        "the recorded bytes/rejections are classified by TLC against reference and machine.",
   design_ref="DESIGN.md 4 C04",
   note="Trusted: Word.tla (checked against TLC integers at 8/16/24 bits), the token->text renderer, "
        "the in-process two-pass seam (tokens_open_buffer + AsmContext::assemble). >> is arithmetic; "
        "shift counts outside 0..63 unconstrained; floats not modelled.",
   technique="TLA+ reference evaluator + implementation-shaped machine model-checked by TLC; "
             "TLC-generated cases replayed into the real assembler; TLC trace acceptor decides"),
 "C05": dict(
   category="model_checking",
   text="AsmData!Denote gives the image, symbol table and accept/reject outcome of data/location directive "
        "programs; TLC enumerates every program of one and two statements over a 141-statement alphabet "
        "(all width boundaries, escapes, .org/.align/.resb/.data_fill extremes, $ and label references) and "
        "draws longer programs; each is assembled in-process by the real code on carriers with 1/2/4/8 bytes "
        "per address and both byte orders, and TLC accepts the recorded image, symbols and low/high "
        "addresses against Denote.",
   design_ref="DESIGN.md 4 C05",
   note="Trusted: renderer nv/asmtext.py, image reader in harness/m_asm.cpp. Addresses below 2^31; "
        ".binfile is a statement of the model (bin: a file named by its content under .build/binfiles); overlays "
        "(GenAsmData!OverlayProgs) and a marker byte behind the last statement of the translation pairs were added in the fourth session.",
   technique="TLA+ denotational spec of the directives; TLC BFS + simulation generate programs; "
             "replayed into the real two-pass assembler; TLC trace acceptor compares image/symbols"),
 "C10": dict(
   category="model_checking",
   text="Cond.tla holds the reference (RefCond precedence climbing; RefRun: exactly the selected branches, "
        "malformed/unterminated = error) and the shipped control flow with its defects behind switches. "
        "TLC checks on every statement sequence up to 7 (903k programs) that the repaired machine equals "
        "the reference and the shipped one differs only through named deviations; then every structure "
        "up to the bound and one program per enumerated condition (all 7 operators, !, defined(), defines, "
        "symbols, parentheses, malformed) is assembled by the real code and TLC classifies each observation.",
   design_ref="DESIGN.md 4 C10",
   note="Trusted: renderer in nv/props/c10.py, image reader. A second .else in one block and !!x are not "
        "enumerated (the property does not settle them). Conditions only use labels defined earlier.",
   technique="TLA+ reference + implementation-shaped machine model-checked by TLC; TLC-enumerated programs "
             "replayed into the real assembler; TLC trace acceptor with three-way verdict"),
 "C02": dict(
   category="model_checking",
   text="TwoPass.tla models the two-pass protocol (location counter, symbol table with scopes and lock, the "
        "pass-1 'operand unknown' flag kept at the instruction's address) with one action per statement and "
        "pass. TLC proves LabelStable for every program of up to 6 statements without scopes (1.3M states) and "
        "exhibits the scope-shadowing drift as a witness. TLC-generated programs (BFS + simulation) are then "
        "assembled by the real code on 8 carriers with a variable-length instruction; every label is followed "
        "by `.dc32 $, L, marker`, so the image records the pass-2 location and the pass-1 value of each label; "
        "TLC classifies each run against the machine's prediction.",
   design_ref="DESIGN.md 4 C02",
   note="Hook-free observation; trusted: renderer/probe decoder in nv/props/c02.py. Programs with overlapping "
        ".org are not generated. Size rules per carrier are used only to attribute the known scope finding.",
   technique="TLA+ two-pass machine model-checked by TLC (LabelStable); TLC-generated programs replayed "
             "into the real assembler with self-describing label probes; TLC trace acceptor"),
 "C12": dict(
   category="model_checking",
   text="Proc.tla is the process-level machine (phases, diagnostics, exit status, output file incl. a stale one "
        "from an earlier run); TLC checks Atomic/NeverSilent on it. TLC enumerates base program x 37 single-point "
        "corruption kinds x position x wrapping (plain, .if 1, .else part, macro body, .repeat, .scope) x output "
        "type x stale file planted; each case runs the real naken_asm executable and TLC accepts the observed "
        "(status, diagnostics, file state) iff it is a final state of Proc. Further families: per-CPU programs with "
        "terminators, the output path as a symbolic link, and numeric operands of the corpus forms at far-out values "
        "(a run is erroneous exactly when it printed a diagnostic or its status is not 0).",
   design_ref="DESIGN.md 4 C12",
   note="Only source-level corruption. Diagnostics = stdout lines matching a fixed pattern. File completeness by "
        "terminator/magic (full decoding is C03). Combinations that can yield a valid program are excluded.",
   technique="TLA+ process state machine checked by TLC; TLC-enumerated corruption cases run on the real "
             "executable; TLC trace acceptor decides each run"),
 "C03": dict(
   category="model_checking",
   text="ObjFormats.tla transcribes the published formats (Intel HEX, S-record, WDC, UF2, raw binary, ELF32/64 "
        "sections and .symtab) as decoders with their validity rules (lengths, checksums, magic words, block "
        "numbering). TLC enumerates layouts of 1-3 disjoint segments at the 16/24/31/32-bit and 64 KiB boundaries "
        "with lengths around the record/block sizes; the real code assembles each, writes 6 formats through "
        "file_write() and loads them back through file_read(); the files are split into fields by pure lexers and "
        "TLC decodes them and compares with the image, exported symbols and entry point of the same run.",
   design_ref="DESIGN.md 4 C03",
   note="Trusted: lexers in nv/tokenize.py, the image recorder of harness/m_file.cpp (elides zero runs on the loader "
        "side). bin/elf/uf2 may hold zero fill within [low, high] rounded to the granule; the Pico block the uf2 writer "
        "prepends is not program content; WDC is skipped above 24-bit addresses; macho/amiga are not content-checked.",
   technique="TLA+ transcription of the file format specifications; TLC-enumerated layouts replayed through the "
             "real writers/loaders; TLC decodes the tokenized files and decides"),
 "C13": dict(
   category="model_checking",
   text="The specifications (AsmData!Denote, TwoPass) have no variable for options, output names or history; Determ.tla "
        "states the consequence on groups of real runs of one source. Sources are TLC-drawn data programs and two-pass "
        "programs on several carriers, fixed programs and the repository's samples. Per source: in-process histories "
        "(A;A, B;A, failing C;A) and a pass-1-leftover detector (every byte pass 1 wrote is re-marked between the passes; a "
        "byte still carrying the mark after pass 2 is in the image only because of pass 1), and the real executable with 6 "
        "reporting-option sets x 6 output types x 2 output names; TLC requires every run to give the reference image and "
        "decodes every written file (ObjFormats) against it; same-type outputs must be byte-identical (S0 header masked).",
   design_ref="DESIGN.md 4 C13",
   note="Trusted: the harness re-marking (changes only the per-byte marker, not data), lexers/decoders of C03. naken_util's "
        "interactive asm is unusable in this snapshot (see C19), so the in-process history uses fresh AsmContext objects as "
        "assemble_code() does.",
   technique="TLA+ determinism statement over run groups + ObjFormats decoders; real runs (library seam and "
             "executable) accepted by TLC"),
 "C14": dict(
   category="model_checking",
   text="Msp430Cpu.tla transcribes one instruction step of the MSP430 core from SLAU144 (operand fetch with all "
        "addressing modes, constant generators, auto-increment, byte/word write-back, C Z N V for the 12 two-operand "
        "and 7 one-operand instructions, 8 jumps). TLC enumerates prepared states (instruction x modes x size x "
        "registers x operand values at carry/overflow/BCD boundaries x carry in: 96k quick, 0.9M thorough); the real "
        "SimulateMsp430 executes one step from each and TLC recomputes the step and compares registers, flags and "
        "changed memory.",
   design_ref="DESIGN.md 4 C14",
   note="Trusted: my transcription of SLAU144 (V after DADD, DADD on non-BCD digits, the upper stack byte of PUSH.B are "
        "unconstrained), harness/m_sim.cpp. Encodings outside the core set are not judged here. Second sentence of the "
        "property: Msp430Cpu!RunFrom iterates Step until the ret that leaves the routine or a store to the break_io address, "
        "adding the cycle counts of SLAU144 tables 3-15/3-16; GenMsp430Run builds 15,876 routines (counted loop with a "
        "two-instruction body out of 14, optional call of one of two subroutines, optional store to the break_io address "
        "in or behind the loop) as words, without the assembler; the real naken_util -msp430 -set_pc -[break_io] -run runs "
        "each (quick: 500) and TLC compares the final register dump, the cycle count and the exit status.",
   technique="TLA+ ISA step function as oracle; TLC-enumerated states replayed into the simulator; TLC trace acceptor"),
 "C15": dict(
   category="exploration",
   text="SimStep.tla states that a simulator step is a total deterministic function of the prepared state. For each of "
        "the 17 simulator entries of cpu_list[], leading 16-bit patterns (1,756 quick / 65,536 thorough) with three register "
        "presets and three PC values are executed twice each in the AddressSanitizer + bounds build; TLC accepts a case "
        "iff both runs returned executed/illegal and agree; runs that die (signal, sanitizer report, exit(), timeout) are "
        "reported directly.",
   design_ref="DESIGN.md 4 C15",
   note="Memory-safety oracle is the sanitizer build, not the specification. State observed through dump_registers(), "
        "get_reg() and changed memory bytes. The PC-vs-disassembler-length clause is not checked in this revision.",
   technique="TLA+ determinism/totality statement; spec-enumerated opcode cases replayed into sanitizer-built "
             "simulators; TLC trace acceptor"),
 "C01": dict(
   category="model_checking",
   text="Codec.tla specifies an encode-first case as phases (Encode, Walk, ReEncode): the decoder walk must tile the "
        "emitted bytes exactly (start at 0, contiguous, positive lengths, end at the end) and every decoded text the "
        "assembler accepts must re-encode to the slice it was decoded from. Cases: every instruction text of "
        "tests/comparison/*.txt (read at run time, 45 CPUs) plus every distinct accepted rendering harvested from a "
        "seed-independent decode sweep (all CPUs), at one or two load addresses; executed in-process through the real "
        "assembler and the real per-CPU decoders; TLC accepts each recorded case.",
   design_ref="DESIGN.md 4 C01",
   note="For CPUs other than MSP430 the oracle is self-consistency (an error made identically in encoder and decoder is "
        "invisible). The third sentence of the property is built for MSP430: Msp430Enc.tla transcribes the encodings of "
        "SLAU144 (formats I/II, jumps, addressing modes, constant generators, 24 emulated instructions) and GenMsp430Enc "
        "enumerates 5,752 assembly-level instructions (every opcode x source mode x destination mode x byte/word, values at "
        "the constant-generator corners) at two addresses; the bytes the real assembler emits must be one of the manual's "
        "encodings. Rv32iEnc.tla transcribes the R/I/S/B/U/J formats and the 40 RV32I base instructions from the RISC-V "
        "manual (words as 16-bit halves); GenRv32iEnc enumerates 7,317 instructions (registers x0/x1/x15/x16/x31, immediates "
        "at the ends of each field) and the assembled word must be the manual's. Operands that do not fit a field are left "
        "to C06. arm is out of scope (codec_scope.json): 453 untriaged disagreement classes on the unchanged tree.",
   technique="TLA+ phase specification of the round trip + TLA+ transcriptions of the MSP430 (SLAU144) and RV32I encodings; corpus, "
             "harvested forms and TLC-enumerated MSP430/RV32I instructions replayed through assembler and decoders; TLC trace "
             "acceptors (tiling, re-encode, architecture encoding)"),
 "C06": dict(
   category="model_checking",
   text="Codec!Injective: within one (cpu, form, operand position, address) group two accepted operand values with equal "
        "bytes must be the signed/unsigned spellings of one k-bit field value (after reduction to a C int). TLC emits the "
        "probe set (89 values: 2^k-1, 2^k, 2^k+1, -2^k, -2^k-1, -2^k+1 for 14 field widths); every corpus instruction text "
        "with a numeric operand is assembled once per probe value through the real assembler; TLC decides each group.",
   design_ref="DESIGN.md 4 C06",
   note="Numeric operands are located by a regular expression (register names are not numbers). 6809, n64_rsp, 68000, 68hc08, "
        "pic18 are out of scope (codec_scope.json, >44 untriaged classes each). PC-relative forms are probed with absolute "
        "targets only.",
   technique="TLA+ injectivity rule on Word.tla values; TLC-generated probe values substituted into corpus forms; "
             "real assembler; TLC acceptor"),
 "C07": dict(
   category="model_checking",
   text="Codec.tla decode-first case: Decode, Encode (accepted = both passes succeed and bytes are placed at the address), "
        "DecodeAgain; C07Fix requires token-wise equal texts (numbers as integers, signed/unsigned readings of 8/16/24-bit "
        "fields equal). For every CPU the leading 16-bit patterns (3,000 seeded of the thorough enumeration in quick; all "
        "65,536 in thorough, exhaustive) with pattern-derived operand bytes are decoded by the real decoder, re-assembled "
        "and decoded again; TLC accepts each case.",
   design_ref="DESIGN.md 4 C07",
   note="Lexer nv/codec.py:normalise is trusted. arm, unsp, 68000, msp430x are out of scope (codec_scope.json). Per-CPU "
        "decoded/accepted/stable counts and CPUs with <5% acceptance are in the evidence (coverage.weak).",
   technique="TLA+ round-trip specification; exhaustive leading-word enumeration replayed through decoder and "
             "assembler; TLC trace acceptor"),
 "C08": dict(
   category="model_checking",
   text="Codec!C08Single: the single-instruction decoder returns a length between one addressable unit and the CPU's "
        "longest instruction, a NUL-terminated text inside the 128-byte buffer with an untouched guard zone behind it, and "
        "the same text/length when every byte after the instruction is inverted. Same enumeration as C07 (all 68 CPUs, "
        "exhaustive over the leading 16 bits in the thorough tier); TLC accepts each recorded decode.",
   design_ref="DESIGN.md 4 C08",
   note="Range half: Tiling.tla states the walk (every address line starts the next instruction exactly where the previous "
        "one ended, or is a continuation line inside it; the walk reaches the end of the range) and MCTiling checks the loop "
        "against it for every decoder-length function over a small range; the real naken_util -<cpu> -bin [-address A] "
        "-disasm | -disasm_range a-b runs on 4 (thorough 24) byte files per CPU (zeros, ones, pattern bytes; start 0, 0x100, "
        "0xfff0 across a page boundary; whole image and sub-ranges ending inside an instruction), its address column is "
        "lexed and TLC accepts it against the lengths the real single-instruction decoder returns at every unit. "
        "ps2_ee_vu0/vu1 are not walked (pairs vs halves). MaxLenOf: documented maxima, 16 where unknown, unbounded for "
        "java/dotnet/webasm.",
   technique="TLA+ totality/locality predicates and a TLA+ tiling specification of the range walk (model-checked); "
             "exhaustive leading-word enumeration through the real decoders and range walks of the real naken_util; "
             "TLC trace acceptors"),
 "C09": dict(
   category="model_checking",
   text="MacroExpand!Expand performs .define/equ/.macro/.repeat substitution by hand on abstract programs; the meaning of P "
        "is AsmData!Denote(Expand(P)). GenMacro (TLC) emits a prelude of definitions (chained defines, equ, macros with "
        "0/1/2/9 parameters, a macro invoking a macro, a macro containing .repeat, string arguments with commas) followed "
        "by every body of 1-2 statements (BFS) and drawn bodies of up to 10; the real assembler assembles P on three "
        "carriers; TLC accepts the recorded image and symbols iff they equal Denote(Expand(P)). .include is checked "
        "through the executable: moving the tail of a program into an included file must give the identical output file. "
        "Wrap family: instruction lines of every CPU's corpus inside a macro and as a macro argument against TLC's expansion, "
        "both assembled by the real code; macros of 60/100 parameters; raw strings with a tab or the byte 255.",
   design_ref="DESIGN.md 4 C09",
   note="Character level: CharSource.tla models the tokenizer's character source (file, stack of expansion texts, unget "
        "buffer, per-level marks into it) as tokens_get_char / macros_get_char implement it; MCCharSource checks for every "
        "sequence of up to 7 (9) Get/Unget/Push operations that it refines the reference stream (Get = head, Unget puts a "
        "character in front, Push puts the text in front); GenCharSource draws operation scripts that the real "
        "tokens_get_char / tokens_unget_char / macros_push_define execute (harness mode chars) and TraceCharSource compares "
        "the delivered characters with the reference. Every program is also rendered in seven layouts (comments, CRLF, no "
        "final newline, tabs, blank lines) and macro parameters are named by four schemes (names are bound names). "
        "Define/equ values are single literals or names (no multi-token textual splicing); no labels inside macro bodies or "
        "repeat blocks.",
   technique="TLA+ hand-expansion function composed with the directive semantics; TLC-generated programs replayed "
             "into the real assembler; TLC trace acceptor"),
 "C11": dict(
   category="model_checking",
   text="SymResolve!RefRun is the reference: blocks are determined first, a use sees its own block's definition of the name "
        "wherever it stands, else the global one; duplicates in one scope, undefined names, nested scopes and exporting "
        "a non-global are errors. TLC enumerates every program of up to 4 (thorough 5) statements over labels, uses, "
        ".scope/.ends, .func/.endf, .set, .export (30,940 / 402,233 programs); each is assembled by the real code and written "
        "as ELF; TLC accepts the .dc32 words of the image and the exported symbols of the .symtab. A seeded subset is "
        "rendered with 200-character names behind 400 filler labels so that several 32 KiB symbol pools are in use.",
   design_ref="DESIGN.md 4 C11",
   note=".set mixed with labels of one name, .set used before its first assignment, .set inside a scope and blocks left open "
        "at the end of the file are unconstrained (the property does not settle them).",
   technique="TLA+ scoping reference; exhaustive small-program enumeration by TLC replayed into the real "
             "assembler/ELF writer; TLC trace acceptor"),
 "C16": dict(
   category="exploration",
   text="Limits.tla models every fixed-size buffer as a resource with a capacity (TLC: never overrun, over the limit = "
        "error) and states the process protocol (terminates, status 0/1, diagnostic when 1). TLC enumerates 30 bounded "
        "resources (token, number, string, macro name/body/parameters/arguments, equ/define text, include name/path, operand "
        "lists, macro/conditional/include/parenthesis/unary nesting, define recursion and chains, self-inclusion, repeat/resb/"
        "data_fill counts, line and comment length) x lengths around each capacity; plus 44 extreme-address programs, the C12 "
        "corruption space, seeded token mutations of the repository samples and seeded byte strings. Every input runs the "
        "AddressSanitizer + bounds build of the real naken_asm under a timeout; TLC accepts each run.",
   design_ref="DESIGN.md 4 C16",
   note="The memory-error oracle is the sanitizer build, not the specification (stated in DESIGN.md 1). Timeouts 20-30 s. Six "
        "option sets rotate over the cases (plain, -l, -type elf, -l -type srec, -optimize, -dump_symbols -dump_macros); "
        "nesting resources are also tried at 8,192 and 300,000 levels.",
   technique="TLA+ resource/capacity model + process protocol; spec-enumerated boundary inputs replayed into the "
             "sanitizer-built executable; TLC trace acceptor"),
 "C17": dict(
   category="exploration",
   text="FileModel.tla enumerates structured corruptions of well-formed object files produced by the real naken_asm (every "
        "ELF header, section-header and symbol field, UF2 block field and WDC field at boundary values; truncation at 24 "
        "lengths for 9 formats; 12 line-level mutations of hex/srec/ti-txt; byte flips for macho/amiga/elf/uf2) and "
        "UtilSession.tla every interactive command x argument class (thorough: + 20,000 command pairs). Each case runs the "
        "sanitizer build of the real naken_util (-disasm or a scripted session ending in quit) under a 15 s timeout; TLC "
        "accepts each run (terminates normally, no signal, no sanitizer report).",
   design_ref="DESIGN.md 4 C17",
   note="Every fourth file case and every fifth session runs under one of 20 other CPU selections (the rest under msp430); "
        "scripts always end with quit (EOF behaviour of the readline build is described in DESIGN.md).",
   technique="TLA+ file/field and session enumeration; cases applied to real files and replayed into the "
             "sanitizer-built naken_util; TLC trace acceptor"),
 "C18": dict(
   category="model_checking",
   text="Listing.tla models the listing as a function of the program layout: where each statement's bytes go (org, label, "
        "instruction, data, resb, macro call, .repeat of instructions/data/both, .include with and without .list), the "
        "per-instruction entries list_output must produce, the data-section walk of main() transcribed loop iteration by "
        "loop iteration, and the clauses ListedBytesTrue, EveryByteListed, EntriesTileCode, RowsAreData, TextIsDisasm, "
        "SymbolsTrue, LowHighTrue. MCListing (TLC, bytes per address 1/2/4) checks on every program of up to 3 (thorough 4) "
        "statements that the walk, step by step, dumps exactly the data bytes at their true addresses and that the "
        "reference listing satisfies every clause. GenListing (TLC) enumerates statement sequences; each chosen shape is "
        "rendered for 64 CPUs with instructions of that CPU (comparison corpus, or decoder output the assembler takes "
        "back), assembled by the real naken_asm -l -type hex; nv/lst.py splits the .lst into fields, the real decoder is "
        "run on the bytes at every listed address, and TraceListing (TLC) decodes the hex file with ObjFormats, lays the "
        "program out with the model and evaluates every clause; canaries (one listing field changed) must be rejected.",
   design_ref="DESIGN.md 4 C18",
   note="Instructions come from a pool whose decoder length equals the assembled length (decoder/encoder disagreements "
        "are C01/C06/C07/C08 findings); ps2_ee_vu0/vu1, tms1000, tms1100 have no pool; addresses stay below 2^24; the "
        "[import] lines of linked objects are not covered.",
   technique="TLA+ model of the listing (layout, per-instruction entries, data-section walk) model-checked with TLC; "
             "TLC-enumerated program shapes assembled by the real naken_asm -l; TLC trace acceptor over listing fields "
             "and the decoded hex output"),
 "C19": dict(
   category="model_checking",
   text="Util.tla models naken_util's memory commands: a byte memory, CPU address units (1/2/4 bytes per address), byte "
        "order, the three number spellings (0x.., ..h, decimal), range syntax a-b and the row layout of the dump. GenUtil "
        "(TLC) enumerates sessions of write/write16/write32 and print/print16/print32 commands; each is rendered with "
        "varying spellings and fed to the real naken_util (after it loads a small hex file with the real loader) for "
        "msp430, 68000, avr8, propeller; the dumps are split into rows by a lexer and TraceUtil (TLC) replays the session "
        "on the model and compares every dump row (address label and bytes) with the model memory; canaries (one dump "
        "byte flipped) must be rejected.",
   design_ref="DESIGN.md 4 C19",
   note="Also 'agrees with what the simulator then fetches': Util!LoadBytes/ImmAt describe one load-immediate instruction "
        "per CPU (msp430, 6502, z80, avr8) from the architecture manuals; TLC enumerates sessions that write it with write*, "
        "optionally overwrite its immediate with a second write of another width, then set pc / step / registers, and "
        "Util!FetchOk requires the register to hold the immediate that is in the model's memory (the program counter set "
        "with `set pc` or with -set_pc on the command line; the instruction written with write* or assembled with "
        "interactive asm). Util!AsmBlock models interactive asm (asm <org> / asm, data items of every width, .org and "
        ".resb gaps inside a block, the next block continuing behind the last one, nothing else changed); symbol names in "
        "ranges (Util!ResolveCmd) run against an ELF file that the real naken_asm wrote and the real loader read. disasm "
        "ranges and -address are exercised by C08's range half; a write* address given as a symbol and the open range "
        "`a-` are not modelled.",
   technique="TLA+ model of naken_util memory commands; TLC-enumerated sessions replayed into the real naken_util; "
             "TLC trace acceptor over the printed dumps"),
 "C20": dict(
   category="model_checking",
   text="Link.tla gives the reference semantics (the functions reachable from the program's references through call "
        "relocations, each placed once behind the program at its symbol's address with its own bytes, every call word "
        "patched to the callee's address, nothing else placed, an undefined name an error). MCLink runs the two passes of "
        "naken_asm as a state machine - token-level discovery into the needed-symbol list, AsmContext::link iterating it "
        "while link_function_mips scans and extends it, pass 2 placing and patching - and TLC checks Sound and ErrorIff "
        "on every scenario of the universe (functions f, g, h with up to 1 (thorough 2) calls to any of them or to an "
        "undefined name, three file arrangements, programs of up to 2 references: 57,036 / 1,967,448 scenarios). GenLink "
        "prints the scenarios; for a sample the check writes real ELF32 REL objects and ar archives (nv/elfobj.py), runs "
        "the real naken_asm -l -type hex on program + files for mips, mips32, pic32, ps2_ee in 10 variants (extra "
        "sections, static calls via section symbol + addend, big-endian objects, a non-object file, unaligned program "
        "end, a function named like a mnemonic, a jal without relocation, a program label with the name of an imported "
        "function before or behind the call), and TraceLink (TLC) decodes the hex file, reads "
        "the symbol table and evaluates PlacedRight, PlacedOnce, OnlyNeeded, OnlyNeededSymbols, ErrorExpected.",
   design_ref="DESIGN.md 4 C20",
   note="Duplicate definitions of one name across files are not generated; objects are well formed (malformed import "
        "files are not covered). For a program label that shadows an imported function and for big-endian objects a clean "
        "error (status 1, no output) is accepted as well as a correct link.",
   technique="TLA+ reference semantics of linking plus a two-pass machine of the implementation, model-checked with TLC; "
             "TLC-enumerated scenarios turned into real ELF32/ar files and run through the real naken_asm; TLC trace acceptor"),
}

NOT_YET = "machinery for this property is not built yet in this revision (planned in DESIGN.md section 8)"


def main():
    here = os.path.dirname(os.path.abspath(__file__))
    checks = []
    for pid in ALL:
        if pid not in CHECKS:
            continue
        c = CHECKS[pid]
        checks.append(dict(
            property_id=pid,
            quick_cmd="./check %s --tier quick" % pid,
            thorough_cmd="./check %s --tier thorough" % pid,
            evidence_file="/verif/evidence/%s.json" % pid,
            replay_cmd_template="./check %s --replay {path}" % pid,
            engine="nvcheck",
            level_claimed=dict(category=c["category"], text=c["text"], design_ref=c["design_ref"]),
            level_note=c["note"],
            technique=c["technique"]))
    na = [dict(property_id=p, reason=CHECKS_NA.get(p, NOT_YET)) for p in ALL if p not in CHECKS]
    m = dict(
        version=1,
        setup_cmd="./setup.sh",
        hooks=dict(
            guard="NAKEN_ASM_VERIF",
            enable="checks copy /repo's working tree to /verif/.build/<hash>/<variant>/ and run the repository's own "
                   "make with CFLAGS='-Wall -DREADLINE -O2 -DNAKEN_ASM_VERIF' (variant asan adds -fsanitize=address,bounds,...)",
            baseline_off_cmd="cd /repo && ./configure && make clean && make && make tests",
            source_commits=HOOK_COMMITS,
            add_only=True),
        engines=[dict(name="nvcheck", path="/verif/check",
                      serves_properties=sorted(CHECKS),
                      kind_free_text="python3 orchestrator: builds /repo's tree, runs TLC (model checking, case generation, "
                                     "trace acceptance) on the TLA+ modules in spec/, replays cases through harness/conform (C++, "
                                     "linked against build/naken_asm.a) or the real executables")],
        checks=checks,
        not_applicable=na,
        notes="Specifications in /verif/spec (TLA+), decided by TLC. known_findings.jsonl lists recorded and repaired defects.")
    with open(os.path.join(here, "MANIFEST.json"), "w") as fh:
        json.dump(m, fh, indent=1)
        fh.write("\n")


CHECKS_NA = {}
HOOK_COMMITS = []

if __name__ == "__main__":
    main()
