"""Pure lexer for naken_asm .lst files: splits the text into instruction entries, data-dump rows,
symbol-table lines and the address summary.  No expected values, no arithmetic beyond reading
hexadecimal fields; which bytes a group of hex digits stands for is decided by the caller
(the CPU's byte order comes from cpu_list[], not from the listing)."""
import re

ADDR = re.compile(r"^0x([0-9a-f]+):( {0,4})(.*)$")
GROUP = re.compile(r"^(0x)?([0-9a-f]+)$")
CONT = re.compile(r"^ {6,}(?:0x)?([0-9a-f]{4}|[0-9a-f]{8})\s*$")
GLUED = re.compile(r"(?<=[0-9:?\s-])(?=0x[0-9a-f]{4,8}: {1,4}[0-9a-f]{2})")
CYCLES = re.compile(r"\s+cycles[:=].*$")
ROW = re.compile(r"^([0-9a-f]{4,}):((?: [0-9a-f]{2})+)")
SYM = re.compile(r"^\s*(\S+) ([0-9a-f]{8}) (\d+)( EXPORTED)?\s*$")
LOW = re.compile(r"^\s*Low Address: 0x([0-9a-f]+) \((\d+)\)")
HIGH = re.compile(r"^\s*High Address: 0x([0-9a-f]+) \((\d+)\)")


def split_entry(rest, stop):
    """rest: the text after 'ADDR:' and up to two blanks.  Returns (groups, text): the leading run of
    equally wide hex groups separated by single blanks; a double blank, a token of another shape or a
    word of the CPU's mnemonic list (`stop`) ends the run."""
    groups = []
    pos = 0
    shape = None
    while pos < len(rest):
        m = re.match(r"\S+", rest[pos:])
        if not m:
            break
        tok = m.group(0)
        g = GROUP.match(tok)
        if not g or len(g.group(2)) % 2 or len(g.group(2)) > 8:
            break
        sh = (bool(g.group(1)), len(g.group(2)))
        if shape is None:
            shape = sh
        elif sh != shape:
            break
        if groups and tok in stop:
            break
        groups.append(g.group(2))
        pos += len(tok)
        sp = re.match(r" +", rest[pos:])
        if not sp:
            break
        pos += len(sp.group(0))
        if len(sp.group(0)) > 1:
            break
    return groups, rest[pos:].strip()


OCT_ADDR = re.compile(r"^0([0-7]{4,}):( {0,8})(.*)$")
P11_ADDR = re.compile(r"^0([0-9a-f]{4,}):( {0,4})(.*)$")
OCT_GROUP = re.compile(r"^[0-7]{4,5}$")
TRAIL_NUM = re.compile(r"\s{2,}\d+$")


def split_octal(rest):
    """leading run of octal words (agc, pdp8 listings); each is given back as a 4-digit hex group"""
    groups = []
    pos = 0
    while True:
        m = re.match(r"(\S+)( *)", rest[pos:])
        if not m or not OCT_GROUP.match(m.group(1)):
            break
        groups.append("%04x" % int(m.group(1), 8))
        pos += len(m.group(0))
        if len(m.group(2)) != 1:
            break
    return groups, rest[pos:].strip()


def parse(text, stop=(), style="hex"):
    """-> dict(entries=[dict(a=addr, text=..., lines=[(addr, [hex groups])])], rows=[(addr, [bytes])], syms=[(name, value, scope)],
               low=int|None, high=int|None, counts={...})"""
    head, sep, tail = text.partition("\ndata sections:")
    entries = []
    last_was_entry = False
    for raw in head.split("\n"):
      # some formatters end an entry without a newline when one list_output call prints several
      for line in GLUED.split(raw):
        m = (OCT_ADDR if style == "octal" else P11_ADDR if style == "pdp11" else ADDR).match(line)
        if not m:
            # further opcode words of the previous entry, printed without an address
            c = CONT.match(line)
            if c and entries and last_was_entry:
                entries[-1]["lines"][-1][1].append(c.group(1))
            else:
                last_was_entry = False
            continue
        if style == "octal":
            groups, txt = split_octal(m.group(3))
            txt = TRAIL_NUM.sub("", txt)
        else:
            groups, txt = split_entry(m.group(3), stop)
        if not groups:
            last_was_entry = False
            continue
        txt = CYCLES.sub("", txt).strip()
        a = int(m.group(1), 8 if style == "octal" else 16)
        if txt == "" and entries and last_was_entry:
            # further opcode words of the previous entry, printed with their own address
            entries[-1]["lines"].append((a, groups))
            continue
        last_was_entry = True
        entries.append(dict(a=a, text=txt, lines=[(a, groups)]))
    rows, syms = [], []
    low = high = None
    counts = {}
    insyms = False
    for line in tail.split("\n"):
        m = ROW.match(line)
        if m and not insyms:
            rows.append((int(m.group(1), 16), [int(b, 16) for b in m.group(2).split()]))
            continue
        if "LABEL ADDRESS" in line:
            insyms = True
            continue
        if insyms:
            if "Total symbols" in line:
                counts["symbols"] = int(line.split(":")[1])
                insyms = False
                continue
            m = SYM.match(line)
            if m:
                syms.append((m.group(1), int(m.group(2), 16), int(m.group(3))))
            continue
        m = LOW.match(line)
        if m:
            low = (int(m.group(1), 16), int(m.group(2)))
        m = HIGH.match(line)
        if m:
            high = (int(m.group(1), 16), int(m.group(2)))
        for k in ("Instructions", "Code Bytes", "Data Bytes"):
            mm = re.match(r"^\s*%s: (\d+)" % k, line)
            if mm:
                counts[k] = int(mm.group(1))
    return dict(entries=entries, rows=rows, syms=syms, low=low, high=high, counts=counts, has_dump=bool(sep))
