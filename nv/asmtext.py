"""Dumb renderers: abstract statements (as printed by the TLA+ generators) to
naken_asm source text.  No knowledge of expected results lives here."""

import os

DIG = "0123456789abcdef"
STR_ESC = {10: "\\n", 13: "\\r", 9: "\\t", 34: '\\"', 92: "\\\\", 0: "\\0"}


def word_int(v):
    return int.from_bytes(bytes(v), "little")


def render_word(v):
    """8-byte little-endian word -> literal text: small negatives as -n, else decimal
    below 2^63 and hex above."""
    u = word_int(v)
    if u >= (1 << 63):
        n = (1 << 64) - u
        if n <= (1 << 40):
            return "-%d" % n
        return "0x%x" % u
    return str(u)


def render_str(b):
    out = []
    for ch in b:
        if ch in STR_ESC:
            out.append(STR_ESC[ch])
        else:
            out.append(chr(ch))
    return '"' + "".join(out) + '"'


def render_item(it):
    k = it["k"]
    if k == "num":
        return render_word(it["v"])
    if k == "str":
        if it.get("raw"):
            return '"' + bytes(it["b"]).decode("latin-1") + '"'
        return render_str(it["b"])
    if k == "sym":
        return it["n"]
    if k == "here":
        return "$"
    raise ValueError(k)


DATA_NAMES = {1: [".db", ".dc8"], 2: [".dw", ".dc16"], 4: [".dc32", ".dl", ".dd"], 8: [".dc64", ".dq"]}


def bin_file(data):
    """a file holding exactly these bytes (named by its content, written once)"""
    from . import common as C
    d = os.path.join(C.VERIF, ".build", "binfiles")
    path = os.path.join(d, "b_%s.bin" % (data.hex() or "empty"))
    if not os.path.exists(path):
        os.makedirs(d, exist_ok=True)
        tmp = "%s.%d" % (path, os.getpid())
        with open(tmp, "wb") as fh:
            fh.write(data)
        os.replace(tmp, path)
    return path


def render_stmt(s, variant=0):
    k = s["k"]
    if k == "org":
        return ".org %d" % s["a"] if variant % 2 == 0 else ".org 0x%x" % s["a"]
    if k == "data":
        if s["z"]:
            name = ".asciiz"
        else:
            names = DATA_NAMES[s["w"]]
            if s["w"] == 1 and all(i["k"] == "str" for i in s["items"]) and variant % 3 == 1:
                name = ".ascii"
            else:
                name = names[variant % len(names)]
        return "%s %s" % (name, ", ".join(render_item(i) for i in s["items"]))
    if k == "res":
        return "%s %d" % (".resb" if s["sz"] == 1 else ".resw", s["n"])
    if k == "align":
        return "%s %d" % (".align" if s["bits"] else ".align_bytes", s["n"])
    if k == "fill":
        return ".data_fill %s, %d" % (render_word(s["v"]), s["n"])
    if k == "bin":
        return '.binfile "%s"' % bin_file(bytes(s["b"]))
    if k == "seg":
        return ".bss" if s["bss"] else ".code"
    if k == "endian":
        return ".big_endian" if s["big"] else ".little_endian"
    if k == "label":
        return "%s:" % s["n"]
    raise ValueError(k)


def render_prog(prog, cpu, variant=0):
    lines = [".%s" % cpu] if cpu else []
    for i, s in enumerate(prog):
        lines.append(render_stmt(s, variant + i))
    return "\n".join(lines) + "\n"


def label_names(prog):
    out = []
    for s in prog:
        if s["k"] == "label" and s["n"] not in out:
            out.append(s["n"])
    return out


def layout(src, variant):
    """the same program in another layout: comments, line ends, blanks.  None of this changes what the
    statements denote; it changes what the character source (unget, end of macro text, end of file) sees."""
    v = (variant // 8) % 7
    lines = src.rstrip("\n").split("\n")
    if v == 1:
        lines = [l + "   ; c" for l in lines]
    elif v == 2:
        return "\r\n".join(lines) + "\r\n"
    elif v == 3:
        return "\n".join(lines)                       # no line end after the last statement
    elif v == 4:
        # (lines with a quoted string keep their blanks: a blank inside a string is content)
        lines = [l if '"' in l or "'" in l else ("\t" + l.strip() if l.startswith(" ") else l).replace(", ", " ,\t") for l in lines]
    elif v == 5:
        lines = [l + " // c" for l in lines]
    elif v == 6:
        out = []
        for l in lines:
            out += [l, ""]                            # a blank line after every statement
        lines = out
    return "\n".join(lines) + "\n"
