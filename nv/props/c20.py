"""C20: linked object code is placed once, its calls bound to the final addresses.

Link.tla is the model (reachability from the program's references, placement, patched call
words); MCLink (TLC) runs the two passes of naken_asm as a state machine over every scenario
of a small universe and checks them against it.  GenLink (TLC) prints those scenarios; the
check builds real ELF32 relocatable objects and ar archives for each (nv/elfobj.py), runs the
real naken_asm on a program plus the files, and TraceLink (TLC) decodes the hex output, reads
the symbol table of the listing and evaluates the clauses of the property."""
import json
import os
import random
import struct
import subprocess
from concurrent.futures import ThreadPoolExecutor

from .. import common as C
from .. import elfobj
from .. import lst
from .. import tokenize as T

PROP = "C20"
BASE = 0x1000
# program origins: low, just below 64 MiB (bit 26 of the callee addresses set), 128 MiB, 256 MiB and 1 GiB (bits 28, 30: the jal
# field must not spill into the opcode)
BASES = [0x1000, 0x03fffff0, 0x08000000, 0x10000000, 0x40000000]
FID = {"f": 1, "g": 2, "h": 3, "k": 4, "add": 5}
# relrev: the entries of .rel.text in decreasing offset order (ELF does not order them); symrev: functions listed in
# .symtab in the reverse of their order in .text; stripped: calls to static functions (section symbol + addend) whose
# symbols were removed from .symtab (strip -x)
VARIANTS = ["plain", "sections", "local", "big", "badfile", "unaligned", "mnemonic", "absjal", "shadow_fwd", "shadow_bwd", "relrev", "symrev", "stripped"]
ABSJAL = 0x0c000100          # jal 0x400: a call to a fixed address, no relocation
CPUS = ["mips", "ps2_ee", "pic32", "mips32"]


STRIPPED = {}


def build_files(sc, variant, d, cid):
    """-> list of file paths (in command-line order)"""
    end = "big" if variant == "big" else "little"
    pk = (">" if end == "big" else "<") + "I"
    paths = []
    for fi, f in enumerate(sc["files"]):
        objs = []
        for mi, member in enumerate(f["members"]):
            text = b""
            funcs, relocs, local_relocs, local_funcs = [], [], [], []
            offs = {}
            o = 0
            for fn in member:
                offs[fn["name"]] = o
                o += 4 * fn["size"]
            for fn in member:
                calls = {c["at"]: c["to"] for c in fn["calls"]}
                funcs.append((fn["name"], offs[fn["name"]], 4 * fn["size"]))
                for w in range(fn["size"]):
                    if w in calls:
                        word = 0x0c000000
                        off = offs[fn["name"]] + 4 * w
                        relocs.append((off, calls[w]))
                        if variant in ("local", "stripped") and calls[w] in offs and calls[w] != fn["name"]:
                            if variant == "stripped":
                                STRIPPED.setdefault(cid, set()).add(fn["name"])
                            # a call to a static function of the same object: section symbol + addend
                            word |= offs[calls[w]] >> 2
                            local_relocs.append(off)
                            local_funcs.append(calls[w])
                    elif w == fn["size"] - 1 and fn.get("tail"):
                        word = fn["tail"]
                    else:
                        word = 0x24020000 + FID[fn["name"]] * 16 + w
                    text += struct.pack(pk, word)
            if variant == "relrev":
                relocs = relocs[::-1]
            if variant == "symrev":
                funcs = funcs[::-1]
            objs.append(("m%d_%d.o" % (fi, mi), elfobj.build_obj(dict(
                text=text, funcs=funcs, relocs=relocs, endian=end, local_relocs=local_relocs,
                local_funcs=[n for n in set(local_funcs)], strip_locals=(variant == "stripped"),
                extra_sections=2 if variant == "sections" else 0)), [x[0] for x in funcs]))
        if f["kind"] == "o":
            p = os.path.join(d, "%s_%d.o" % (cid, fi))
            open(p, "wb").write(objs[0][1])
        else:
            p = os.path.join(d, "%s_%d.a" % (cid, fi))
            open(p, "wb").write(elfobj.build_ar(objs))
        paths.append(p)
    if variant == "badfile":
        p = os.path.join(d, "%s_junk.o" % cid)
        open(p, "wb").write(b"not an object file\n" * 4)
        paths.append(p)
    return paths


def render(sc, variant, cpu, BASE=BASE):
    lines = [".%s" % cpu, ".big_endian" if variant == "big" else ".little_endian", ".org 0x%x" % BASE]
    n = 0
    own = []
    if variant == "shadow_bwd" and sc["refs"]:
        # the program has its own routine with the name of an imported function, defined before the call
        own = [sc["refs"][0]]
        lines += ["%s:" % own[0], "  jr $ra", "  nop"]
        n += 8
    lines.append("main:")
    if variant == "mnemonic":
        lines.append("  add $t0, $t1, $t2")
        n += 4
    for r in sc["refs"]:
        lines += ["  jal %s" % r, "  nop"]
        n += 8
    lines += ["  jr $ra", "  nop"]
    n += 8
    if variant == "shadow_fwd" and sc["refs"]:
        own = [sc["refs"][0]]
        lines += ["%s:" % own[0], "  jr $ra", "  nop"]
        n += 8
    if variant == "unaligned":
        lines.append("  .db 1")
        n += 1
    return "\n".join(lines) + "\n", BASE + n, own


def run_one(a):
    exe, d, cid, src, paths = a
    f = os.path.join(d, cid + ".asm")
    open(f, "w").write(src)
    out = os.path.join(d, cid + ".hex")
    try:
        p = subprocess.run([exe, "-l", "-type", "hex", "-o", out, f] + paths, stdout=subprocess.PIPE,
                           stderr=subprocess.STDOUT, timeout=20, cwd=d)
        rc, txt = p.returncode, p.stdout.decode(errors="replace")
    except subprocess.TimeoutExpired:
        return cid, -9, "timeout", None, None
    hexb = lst_t = None
    if os.path.exists(out):
        hexb = open(out, "rb").read()
    lp = os.path.join(d, cid + ".lst")
    if os.path.exists(lp):
        lst_t = open(lp, errors="replace").read()
    return cid, rc, txt[-600:], hexb, lst_t


def run(tier, seed):
    chk = C.Check(PROP, tier, seed, "model_checking")
    vdir = C.ensure_build("rel")
    rd = chk.rundir
    rnd = random.Random(seed)

    r = C.tlc("MCLink", "mc_Link_%s.cfg" % tier, os.path.join(rd, "mc"), workers=C.NCPU, heap="12g", timeout=2400)
    chk.add_tlc(r)
    if not r.ok:
        chk.report("model:%s" % r.violated, "the two-pass link machine violates %s" % r.violated, dict(out=r.out[-3000:]))

    g = C.tlc("GenLink", "gen_Link.cfg", os.path.join(rd, "gen"), workers=4, heap="6g")
    chk.add_tlc(g)
    scen = C.parse_payload(g.lines, "CASE ")
    if len(scen) < 50000:
        raise C.InfraError("only %d scenarios" % len(scen))
    interesting = [s for s in scen if s["refs"] and s["files"]]
    n = 400 if tier == "quick" else 6000
    pick = rnd.sample(interesting, n) + rnd.sample([s for s in scen if not (s["refs"] and s["files"])], 20)
    wd = os.path.join(rd, "w")
    os.makedirs(wd)
    jobs, meta = [], {}
    bases = {}
    for i, sc in enumerate(pick):
        variant = VARIANTS[i % len(VARIANTS)]
        cpu = CPUS[(i // len(VARIANTS)) % len(CPUS)]
        sc = json.loads(json.dumps(sc))
        if variant == "mnemonic":
            if not sc["files"]:
                variant = "plain"
            else:
                # a library function whose name is an instruction the program uses, and that nothing calls
                sc["files"][0]["members"][0].append(dict(name="add", size=2, tail=0, calls=[]))
        if variant == "absjal":
            for f_ in sc["files"]:
                for m_ in f_["members"]:
                    for fn_ in m_:
                        fn_["tail"] = ABSJAL
        cid = "k%d" % i
        base = BASES[(i // 3) % len(BASES)]
        src, end, own = render(sc, variant, cpu, base)
        paths = build_files(sc, variant, wd, cid)
        meta[cid] = (sc, variant, cpu, src, end, paths, own)
        bases[cid] = base
        jobs.append((os.path.join(vdir, "naken_asm"), wd, cid, src, paths))
    with ThreadPoolExecutor(C.NCPU) as ex:
        results = list(ex.map(run_one, jobs))

    events = []
    outs = {}
    for cid, rc, txt, hexb, lst_t in results:
        sc, variant, cpu, src, end, paths, own = meta[cid]
        outs[cid] = txt
        if rc == -9 or rc < 0:
            chk.report("link:%s:died" % variant, "naken_asm died (%s) on\n%s" % (rc, src), dict(source=src, scenario=sc, rc=rc, out=txt))
            continue
        syms, claims = [], []
        if lst_t is not None:
            L = lst.parse(lst_t)
            syms = [dict(n=n, v=v) for n, v, s in L["syms"]]
            for en in L["entries"]:
                for a, groups in en["lines"]:
                    bs = []
                    for g in groups:
                        b = bytes.fromhex(g)
                        bs += list(b) if variant == "big" else list(b[::-1])
                    claims.append(dict(a=a, b=bs))
        events.append(dict(id=cid, files=sc["files"], refs=sc["refs"], base=bases[cid], end=end, big=(variant == "big"),
                           badfile=(variant == "badfile"), strip=sorted(STRIPPED.get(cid, [])), own=own, rc=rc, out=hexb is not None,
                           file=T.LEXERS["hex"](hexb) if hexb is not None else [], syms=syms, claims=claims))

    # canaries
    canaries = {}
    good = [e for e in events if e["rc"] == 0 and e["out"] and len(e["syms"]) >= 2 and not e["badfile"] and not e["own"]]
    for i, e in enumerate(rnd.sample(good, min(12, len(good)))):
        c = json.loads(json.dumps(e))
        c["id"] = "canary." + e["id"]
        if i % 4 == 3 and c["claims"] and c["claims"][-1]["a"] >= c["end"]:
            c["claims"][-1]["b"][0] ^= 1
        elif i % 3 == 0:
            c["syms"][-1]["v"] += 4
        elif i % 3 == 1:
            recs = [x for x in c["file"] if x.get("typ") == 0]
            recs[-1]["data"][-1] ^= 1
            recs[-1]["cks"] ^= 1 if recs[-1]["cks"] & 1 == 0 else 0
            # keep the record well formed: recompute its checksum
            r_ = recs[-1]
            r_["cks"] = (-(r_["len"] + r_["ah"] + r_["al"] + r_["typ"] + sum(r_["data"]))) & 0xff
        else:
            c["rc"] = 1
            c["out"] = False
        canaries[c["id"]] = 1
        events.append(c)

    verdicts, runs = C.tlc_accept("TraceLink", "trace_Link.cfg", events, rd, "c20", heap="4g")
    for r_ in runs:
        chk.add_tlc(r_)
    got = {v["id"]: v["why"] for v in verdicts}
    missed = [c for c in canaries if c not in got]
    if missed:
        raise C.InfraError("canaries accepted: %s" % missed[:3])
    nskip = 0
    for eid, why in sorted(got.items()):
        if eid in canaries:
            continue
        sc, variant, cpu, src, end, paths, own = meta[eid]
        for w in why:
            if w.startswith("skip:"):
                nskip += 1
                continue
            key = "link:%s:%s" % (variant, w)
            chk.report(key, "%s (%s, .%s) on\n%s\nscenario %s\n%s" % (w, variant, cpu, src, json.dumps(sc), outs.get(eid, "")[-300:]),
                       dict(source=src, scenario=sc, variant=variant, cpu=cpu, why=w, out=outs.get(eid, "")))
    nreal = len(events) - len(canaries)
    if nskip > nreal * 0.1:
        raise C.InfraError("%d of %d outputs unreadable" % (nskip, nreal))
    chk.cov.update(dict(
        evaluations=nreal, traces_validated_against_impl=nreal - nskip,
        distinct_nontrivial=len([1 for cid in meta if len(meta[cid][0]["refs"]) >= 1 and sum(len(f["members"]) for f in meta[cid][0]["files"]) >= 1]),
        rule="TLC enumerates files (one archive member, one member per function, a .o plus an archive) x functions f, g, h "
             "with up to one call each (any target, one undefined) x programs with up to two references; non-trivial = "
             "at least one file and one reference",
        scenarios=len(scen), programs=len(jobs), variants=sorted(set(VARIANTS)), cpus=CPUS,
        linked_ok=len([e for e in events if e["rc"] == 0 and e["out"]]) - len([c for c in canaries]),
        errors=len([e for e in events if e["rc"] != 0]),
        canaries=dict(injected=len(canaries), rejected=len(canaries)), exhaustive=False))
    chk.samples = [meta[c][3] + " + " + " ".join(os.path.basename(p) for p in meta[c][5]) for c in rnd.sample(sorted(meta), 2)]
    chk.assumptions = ["nv/elfobj.py writes ELF32 REL objects and System V ar archives the way MIPS gcc/binutils lay them out",
                       "each function's non-call words are addiu $v0, $0, imm (no word that looks like jal)",
                       "one definition per name (duplicate definitions across files are not generated)"]
    return chk.finish()
