"""C10: conditional assembly includes exactly the branch its condition selects.

MCCond (TLC): the shipped control flow with its defects behind switches is
compared with the reference on every statement sequence up to a bound; the
repaired machine equals the reference.  GenCond/GenCondExpr enumerate structures
and conditions; the real assembler runs them; TraceCond classifies every
observation (reference / shipped machine / named deviation)."""
import json
import random

from .. import common as C

PROP = "C10"


def rtok(t):
    k = t["t"]
    if k == "num":
        return str(t["v"]) if t["v"] >= 0 else str(t["v"] + (1 << 32))
    if k == "str":
        return '"a"'
    if k == "name":
        return t["n"]
    if k == "defined":
        return "defined(%s)" % t["n"]
    if k == "not":
        return "!"
    if k == "op":
        return t["o"]
    return "(" if k == "lp" else ")"


def rcond(c):
    out = ""
    for t in c:
        s = rtok(t)
        out += s if (s == "!" or out.endswith("!") or out.endswith("(") and False) else (" " + s)
    return out.strip()


def rstmt(s):
    k = s["k"]
    if k == "mark":
        return ".db %d" % s["b"]
    if k == "if":
        return ".if " + rcond(s["c"])
    if k == "ifdef":
        return ".ifdef " + s["n"]
    if k == "ifndef":
        return ".ifndef " + s["n"]
    if k == "else":
        return ".else"
    if k == "endif":
        return ".endif"
    if k == "define":
        return (".define %s 0x%x" if s["n"] in ("DH", "DW", "DM") else ".define %s %d") % (s["n"], s["v"] & 0xffffffff)
    if k == "label":
        return "%s:" % s["n"]
    if k == "note":
        return "/* not a statement:\n%s\n   end of the comment */" % {"else": ".else", "endif": ".endif", "ifdef": ".ifdef DX"}[s["d"]]
    raise ValueError(k)


def render(prog):
    return ".msp430\n" + "".join(rstmt(s) + "\n" for s in prog)


def names(prog):
    return sorted({s["n"] for s in prog if s["k"] == "label"})


def observe(rec, nm):
    if rec.get("died"):
        return {"k": "hang" if rec.get("timeout") else "crash", "why": rec.get("san") or "signal %s" % rec.get("sig")}
    if rec["r1"] != 0 or rec["r2"] != 0:
        return {"k": "rej", "out": [], "syms": []}
    img = rec["img"]
    if len(img) > 1 or (img and img[0][0] != 0):
        return {"k": "shape", "img": img}
    out = list(bytes.fromhex(img[0][1])) if img else []
    syms = [{"n": n, "a": rec["sym2"][n]} for n in nm if rec["sym2"].get(n) is not None]
    return {"k": "ok", "out": out, "syms": syms}


def run(tier, seed):
    chk = C.Check(PROP, tier, seed, "model_checking")
    vdir = C.ensure_build("rel")
    rd = chk.rundir
    rnd = random.Random(seed)

    mc = C.tlc("MCCond", "mc_Cond.cfg" if tier == "thorough" else "mc_Cond_quick.cfg", rd, workers=C.NCPU, heap="8g")
    chk.add_tlc(mc)
    if not mc.ok:
        raise C.InfraError("MCCond: %s violated: shipped/repaired machine and reference disagree outside "
                           "the named deviations\n%s" % (mc.violated, mc.out[-2500:]))

    g1 = C.tlc("GenCond", "gen_Cond_struct_%s.cfg" % tier, rd, workers=8, heap="8g")
    g2 = C.tlc("GenCondExpr", "gen_Cond_expr_%s.cfg" % tier, rd, workers=8, heap="8g")
    chk.add_tlc(g1)
    chk.add_tlc(g2)
    structs = C.parse_payload(g1.lines, "CASE ")
    conds = C.parse_payload(g2.lines, "CASE ")
    if len(structs) < 10000 or len(conds) < 10000:
        raise C.InfraError("generators produced %d/%d cases" % (len(structs), len(conds)))
    total_generated = len(structs) + len(conds)
    if tier == "quick":
        short = [p for p in structs if len(p) <= 4]
        longer = [p for p in structs if len(p) > 4]
        structs = short + rnd.sample(longer, min(25000, len(longer)))
        conds = rnd.sample(conds, min(25000, len(conds)))
    progs = structs + conds

    cases = []
    for i, p in enumerate(progs):
        cases.append((str(i), "syms=%s imgmax=256" % ";".join(names(p)), render(p)))
    obs = C.conform_parallel(vdir, "asm", cases, rd, "c10")
    byid = {int(o["case"]): o for o in obs}
    if len(byid) != len(cases):
        raise C.InfraError("conform returned %d of %d" % (len(byid), len(cases)))

    events = []
    for i, p in enumerate(progs):
        ob = observe(byid[i], names(p))
        if ob["k"] in ("crash", "hang", "shape"):
            chk.report("src:" + cases[i][2], "%s: %s" % (ob["k"], cases[i][2]), dict(source=cases[i][2], observed=ob))
            continue
        events.append({"id": i, "prog": p, "obs": ob})

    oks = [e for e in events if e["obs"]["k"] == "ok" and e["obs"]["out"]]
    canaries = {}
    for e in rnd.sample(oks, min(30, len(oks))):
        c = json.loads(json.dumps(e))
        c["id"] = 10000000 + e["id"]
        kind = rnd.randrange(3)
        if kind == 0:
            c["obs"]["out"][rnd.randrange(len(c["obs"]["out"]))] ^= 0x80
        elif kind == 1:
            c["obs"]["out"] = c["obs"]["out"][:-1]
        else:
            c["obs"] = {"k": "rej", "out": [], "syms": []}
        canaries[c["id"]] = e["id"]
        events.append(c)

    verdicts, runs = C.tlc_accept("TraceCond", "trace_Cond.cfg", events, rd, "c10", heap="3g")
    for r in runs:
        chk.add_tlc(r)
    bad = {v["id"]: v for v in verdicts}
    missed = [c for c in canaries if c not in bad or bad[c]["vd"] == "ok"]
    # a canary may coincide with what the shipped machine does (vd "dev"); it must never be "ok"
    if missed:
        raise C.InfraError("canaries accepted: %s" % missed[:3])

    stale = 0
    for cid, v in sorted(bad.items()):
        if cid in canaries:
            continue
        src = cases[cid][2]
        ob = observe(byid[cid], names(progs[cid]))
        payload = dict(source=src, observed=ob, reference=v.get("ref"), machine=v.get("imp"), deviations=v.get("dev"))
        if v["vd"] == "stale":
            stale += 1
            continue
        if v["vd"] == "dev" and v["dev"]:
            devs = sorted(v["dev"])
            unknown = [d for d in devs if chk.known("Cond." + d) is None]
            if not unknown:
                for d in devs:
                    chk.report("Cond." + d, "", payload)
                continue
            chk.report("Cond." + unknown[0], "code follows the shipped control flow through %s; observed %s, reference %s\n%s"
                       % ("+".join(devs), json.dumps(ob), json.dumps(v.get("ref")), src), payload)
        else:
            chk.report("src:" + src, "observed %s, reference %s, shipped machine %s\n%s" % (
                json.dumps(ob), json.dumps(v.get("ref")), json.dumps(v.get("imp")), src), payload)
    if stale:
        C.log("NOTE [%s] %d cases: code agrees with the reference where the shipped-machine model deviates" % (PROP, stale))

    chk.cov.update(dict(
        evaluations=len(progs),
        generated=total_generated,
        distinct_nontrivial=len({cases[i][2] for i, p in enumerate(progs) if sum(1 for s in p if s["k"] in ("if", "ifdef", "ifndef")) >= 1}),
        rule="TLC enumerates every conditional-structure sequence up to the length bound (12-statement alphabet, "
             "marks numbered by position) and one wrapped program per enumerated condition; quick tier runs all "
             "structures of length <= 4 and a seeded sample of the rest; non-trivial = contains at least one "
             "conditional opener; distinct by rendered source",
        traces_validated_against_impl=len(events) - len(canaries),
        canaries=dict(injected=len(canaries), rejected=len(canaries)),
        stale_model_deviation=stale,
        exhaustive=(tier == "thorough")))
    chk.samples = [cases[i][2] for i in rnd.sample(range(len(cases)), 5)]
    chk.assumptions = ["renderer in nv/props/c10.py and the image reader are trusted",
                       "a second .else within one block is not enumerated (the property does not settle it)",
                       "conditions only reference labels defined before the conditional"]
    return chk.finish()
