"""C06: operand values are encoded exactly or rejected, never silently truncated."""
import json
import random
import re

from .. import common as C
from .. import codec as K

PROP = "C06"


def rv_text(i, at):
    op, rd, rs1, rs2, imm = i["op"], i["rd"], i["rs1"], i["rs2"], i["imm"]
    if op in ("add", "sub", "sll", "slt", "sltu", "xor", "srl", "sra", "or", "and", "addw", "subw", "sllw", "srlw", "sraw"):
        return "%s x%d, x%d, x%d" % (op, rd, rs1, rs2)
    if op in ("addi", "slti", "sltiu", "xori", "ori", "andi", "slli", "srli", "srai", "jalr", "addiw", "slliw", "srliw", "sraiw"):
        return "%s x%d, x%d, %d" % (op, rd, rs1, imm)
    if op in ("lb", "lh", "lw", "lbu", "lhu", "lwu", "ld"):
        return "%s x%d, %d(x%d)" % (op, rd, imm, rs1)
    if op in ("sb", "sh", "sw", "sd"):
        return "%s x%d, %d(x%d)" % (op, rs2, imm, rs1)
    if op in ("beq", "bne", "blt", "bge", "bltu", "bgeu"):
        return "%s x%d, x%d, 0x%x" % (op, rs1, rs2, at + imm)
    if op in ("lui", "auipc"):
        return "%s x%d, %d" % (op, rd, imm)
    if op == "jal":
        return "jal x%d, 0x%x" % (rd, at + imm)
    return op


def field_fit(chk, vdir, tier, rnd):
    """second sentence of C06 where the architecture's field widths are in the specification (Rv32iEnc.tla: RV32I, and the
    RV64I word forms under .riscv64): an operand its field cannot hold is rejected, one it can hold is encoded as the manual says"""
    import os
    AT = 0x200000
    total = 0
    for cpu, cfg, tag in (("riscv", "gen_Rv32iEnc.cfg", "fit32"), ("riscv64", "gen_Rv64iEnc.cfg", "fit64")):
        g = C.tlc("GenRv32iEnc", cfg, os.path.join(chk.rundir, tag), workers=4, heap="4g")
        chk.add_tlc(g)
        insts = C.parse_payload(g.lines, "CASE ")
        if len(insts) < 600:
            raise C.InfraError("only %d %s instructions" % (len(insts), cpu))
        if tier == "quick" and len(insts) > 2500:
            insts = rnd.sample(insts, 2500)
        cases = [(tag, "kind=asm cpu=%s addr=%d" % (cpu, AT), "\n".join(rv_text(i, AT) for i in insts))]
        r = {o["case"]: o for o in C.conform_parallel(vdir, "codec", cases, chk.rundir, tag, 60, nproc=1)}.get(tag)
        if not r or "res" not in r or len(r["res"]) != len(insts):
            raise C.InfraError("%s field cases not executed: %s" % (cpu, str(r)[:300]))
        events = [dict(id="%s.%d" % (tag, n), i=i, acc=bool(ok), b=list(bytes.fromhex(b))) for n, (i, (ok, b)) in enumerate(zip(insts, r["res"]))]
        canaries = set()
        for e in rnd.sample([e for e in events if not e["acc"]], min(6, len([e for e in events if not e["acc"]]))):
            c = json.loads(json.dumps(e))
            c["id"] = "canary." + e["id"]
            c["acc"] = True
            canaries.add(c["id"])
            events.append(c)
        verdicts, runs = C.tlc_accept("TraceRv32iEnc", "trace_Rv32iFit.cfg", events, chk.rundir, tag, heap="3g", nchunks=4)
        for r_ in runs:
            chk.add_tlc(r_)
        bad = {v["id"]: v["why"] for v in verdicts}
        if [c for c in canaries if c not in bad]:
            raise C.InfraError("field-fit canaries accepted")
        byid = {e["id"]: e for e in events}
        for vid, why in sorted(bad.items()):
            if vid in canaries:
                continue
            e = byid[vid]
            chk.report("C06:%s:field:%s:%s" % (cpu, why, e["i"]["op"]),
                       "%s: .%s '%s' at 0x%x -> %s" % (why, cpu, rv_text(e["i"], AT), AT, bytes(e["b"]).hex() if e["acc"] else "rejected"),
                       dict(cpu=cpu, instruction=e["i"], text=rv_text(e["i"], AT), accepted=e["acc"], bytes=bytes(e["b"]).hex(), why=why))
        total += len(events) - len(canaries)
    return total


def run(tier, seed):
    chk = C.Check(PROP, tier, seed, "model_checking")
    rnd = random.Random(seed)
    vdir = C.ensure_build("rel")
    cpus = K.cpu_list(vdir)
    by_name = {c["name"]: c for c in cpus}
    g = C.tlc("GenProbe", "gen_Probe.cfg", chk.rundir, workers=2)
    chk.add_tlc(g)
    words = C.parse_payload(g.lines, "CASE ")
    if len(words) < 60:
        raise C.InfraError("probe set too small")
    vals = []
    for w in words:
        u = int.from_bytes(bytes(w), "little")
        vals.append((w, u - (1 << 64) if u >= (1 << 63) else u))
    vals.sort(key=lambda x: x[1])

    skip = K.out_of_scope(PROP)
    forms = [f for f in K.corpus(set(by_name)) if f[0] not in skip]
    extra = [f for f in K.template_extra(set(by_name)) if f[0] not in skip]
    forms += extra
    percpu = {}
    for cpu, text in forms:
        if K.NUM.search(text) or re.match(r"^[A-Za-z_]\w*:\s*\S", text):
            percpu.setdefault(cpu, []).append(text)
    cases, meta, relvals, relbase = [], {}, {}, {}
    n = 0
    for cpu, texts in sorted(percpu.items()):
        texts = sorted(set(texts))
        ts = texts        # both tiers probe every corpus form (the whole run takes about half a minute)
        for text in ts:
            if ":" in text.split()[0]:
                # `main: jmp main`: a PC-relative (or page-relative) operand.  The label is replaced by absolute targets
                # A + 4 * v for the probe values v (multiples of 4: alignment is not what is probed), assembled at A
                m = re.match(r"^([A-Za-z_]\w*):\s*(.+)$", text)
                if not m or not re.search(r"(?<![\w.$])%s(?![\w])" % re.escape(m.group(1)), m.group(2)):
                    continue
                # two load addresses: 0x8000 (inside every address space) and 64 MiB (room for displacements down to -2^26)
                for base in (0x8000, 0x4000000):
                    tv = [(w, v) for w, v in vals if 0 <= base + 4 * v < (1 << 31)]
                    variants = [re.sub(r"(?<![\w.$])%s(?![\w])" % re.escape(m.group(1)), str(base + 4 * v), m.group(2)) for _, v in tv]
                    cid = "r%d" % n
                    n += 1
                    meta[cid] = (cpu, text, -1)
                    relbase[cid] = base
                    relvals[cid] = [(list((base + 4 * v).to_bytes(8, "little")), base + 4 * v) for _, v in tv]
                    cases.append((cid, "kind=asm cpu=%s addr=%d" % (cpu, base), "\n".join(variants)))
                continue
            for pos, variants in K.probe_texts(text, [v for _, v in vals]):
                cid = "g%d" % n
                n += 1
                meta[cid] = (cpu, text, pos)
                cases.append((cid, "kind=asm cpu=%s addr=%d" % (cpu, 0x100 - 0x100 % by_name[cpu]["bpa"]), "\n".join(variants)))
    obs = C.conform_parallel(vdir, "codec", cases, chk.rundir, "probe", 20, nproc=C.NCPU)
    byid = {o["case"]: o for o in obs}
    events = []
    for c in cases:
        o = byid.get(c[0])
        cpu, text, pos = meta[c[0]]
        if o is None or o.get("died"):
            chk.report("C06:%s:died:%s" % (cpu, K.shape(text)), "assembler died probing .%s '%s': %s" % (cpu, text, o), dict(case=c[:2], observed=o))
            continue
        vl = relvals.get(c[0], vals)
        probes = [{"v": vl[i][0], "acc": r[0], "b": list(bytes.fromhex(r[1]))} for i, r in enumerate(o["res"])]
        events.append({"id": c[0], "kind": "probe", "cpu": cpu, "probes": probes})

    canaries = set()
    good = [e for e in events if sum(1 for p in e["probes"] if p["acc"]) >= 4]
    for e in rnd.sample(good, min(12, len(good))):
        c = json.loads(json.dumps(e))
        c["id"] = "canary." + e["id"]
        acc = [p for p in c["probes"] if p["acc"] and 2 < int.from_bytes(bytes(p["v"]), "little") < 1 << 62]
        if len(acc) < 2:
            continue
        acc[1]["b"] = acc[0]["b"]
        canaries.add(c["id"])
        events.append(c)
    verdicts, runs = C.tlc_accept("TraceCodec", "trace_Codec.cfg", events, chk.rundir, "probe", heap="3g", nchunks=C.NCPU)
    for r in runs:
        chk.add_tlc(r)
    bad = {v["id"]: v for v in verdicts if v["p"] == "C06"}
    missed = [c for c in canaries if c not in bad]
    if missed:
        raise C.InfraError("canaries accepted: %s" % missed[:3])
    for vid, v in sorted(bad.items()):
        if vid in canaries:
            continue
        cpu, text, pos = meta[vid]
        i, j = v["pairs"][0]
        if vid in relvals:
            vl = relvals[vid]
            chk.report("C06:%s:%s@target" % (cpu, K.shape(text)),
                       ".%s '%s' assembled at 0x%x: targets 0x%x and 0x%x are both accepted and give the same bytes %s" % (
                           cpu, text, relbase[vid], vl[i - 1][1], vl[j - 1][1], byid[vid]["res"][i - 1][1]),
                       dict(cpu=cpu, form=text, operand="target", v1=vl[i - 1][1], v2=vl[j - 1][1], bytes=byid[vid]["res"][i - 1][1]))
            continue
        chk.report("C06:%s:%s@%d" % (cpu, K.shape(text), pos),
                   ".%s '%s' operand %d: values %d and %d are both accepted and give the same bytes %s" % (
                       cpu, text, pos, vals[i - 1][1], vals[j - 1][1], byid[vid]["res"][i - 1][1]),
                   dict(cpu=cpu, form=text, operand=pos, v1=vals[i - 1][1], v2=vals[j - 1][1], bytes=byid[vid]["res"][i - 1][1]))
    nfit = field_fit(chk, vdir, tier, rnd)
    chk.cov.update(dict(
        field_fit_instructions=nfit, template_forms=len(extra),
        evaluations=sum(len(c[2].split("\n")) for c in cases) + nfit,
        distinct_nontrivial=len(cases),
        rule="every instruction text of tests/comparison/*.txt and of tests/comparison/template/*.txt (the forms the repository names but leaves out of its tests) that has a numeric operand: each numeric "
             "operand position probed with the values of Codec!ProbeSet (2^k-1, 2^k, 2^k+1, -2^k, -2^k-1, -2^k+1 for k = 1..17, 20, 21, 23, 24, 26, 31, 32); non-trivial/distinct = (cpu, form, operand position) groups",
        traces_validated_against_impl=len(events) - len(canaries), probe_values=len(vals), not_covered=sorted(skip),
        canaries=dict(injected=len(canaries), rejected=len(canaries)), exhaustive=False))
    chk.samples = [dict(cpu=meta[c[0]][0], form=meta[c[0]][1], operand=meta[c[0]][2]) for c in rnd.sample(cases, 5)]
    chk.assumptions = ["numeric tokens are located by a regular expression; register names such as r5, x4, $5 are not numbers"]
    return chk.finish()
