"""C05: data/location directives place exactly the specified bytes.

GenAsmData (TLC) enumerates all programs of one and two directives and draws
longer ones; the real assembler runs each on carriers with 1/2/4/8 bytes per
address and both byte orders; TraceAsmData (TLC) compares the recorded image,
symbol table and low/high addresses with AsmData!Denote."""
import json
import random

from .. import common as C
from .. import memmodel as M
from .. import asmtext as A

PROP = "C05"
# "" = no CPU directive at all: the assembler's default (MSP430: one byte per address, little endian)
CARRIERS = [("msp430", 1, False), ("68000", 1, True), ("avr8", 2, False), ("lc3", 2, True),
            ("propeller", 4, False), ("ebpf", 8, False), ("", 1, False)]


def observe(rec, names):
    if rec.get("died"):
        return {"k": "hang" if rec.get("timeout") else "crash", "why": rec.get("san") or "signal %s" % rec.get("sig")}
    if rec["r1"] != 0 or rec["r2"] != 0:
        return {"k": "rej", "img": [], "syms": [], "low": 0, "high": 0}
    if rec.get("trunc"):
        return {"k": "trunc"}
    img = [{"a": a, "d": list(bytes.fromhex(h))} for a, h in rec["img"]]
    if any(r["a"] >= (1 << 31) for r in img):
        return {"k": "wide"}
    syms = [{"n": n, "a": rec["sym2"][n]} for n in names if rec["sym2"].get(n) is not None]
    low, high = rec["low"], rec["high"]
    if low >= (1 << 31):
        low = -1
    return {"k": "ok", "img": img, "syms": syms, "low": low, "high": high}


def key_of(prog):
    """finding key: the statement kinds/widths of the shortest failing program"""
    return "prog:" + json.dumps(prog, separators=(",", ":"), sort_keys=True)


def run(tier, seed):
    chk = C.Check(PROP, tier, seed, "model_checking")
    vdir = C.ensure_build("rel")
    # the image itself (core/Memory.cpp) against Image.tla: every property that reads the image rests on it
    M.run_image(chk, tier, seed, random.Random(seed + 17), PROP)
    rd = chk.rundir

    g1 = C.tlc("GenAsmData", "gen_AsmData_pairs.cfg", rd, workers=8, heap="6g", prefixes=("CASE ", "OVER "))
    chk.add_tlc(g1)
    progs = C.parse_payload(g1.lines, "CASE ")
    over = C.parse_payload(g1.lines, "OVER ")
    if not over or len(over[0]) < 150:
        raise C.InfraError("no overlay programs")
    progs += sorted(over[0], key=lambda x: json.dumps(x, sort_keys=True))
    nsim = 750 if tier == "quick" else 12000
    g2 = C.tlc("GenAsmData", "gen_AsmData_sim.cfg", rd, workers=4, heap="6g",
               simulate=nsim, depth=20, seed=seed)
    chk.add_tlc(g2)
    sims = C.parse_payload(g2.lines, "CASE ")
    seen = set()
    allp = []
    for p in progs + sims:
        k = json.dumps(p, sort_keys=True)
        if k not in seen:
            seen.add(k)
            allp.append(p)
    if len(allp) < 5000:
        raise C.InfraError("generator produced only %d programs" % len(allp))

    rnd = random.Random(seed)
    cases, meta = [], {}
    for i, p in enumerate(allp):
        long_prog = len(p) > 2
        # every program on msp430; pairs additionally on one more carrier, long ones on all
        if long_prog or tier == "thorough":
            cs = CARRIERS
        else:
            cs = [CARRIERS[0], CARRIERS[1 + (i % (len(CARRIERS) - 1))]]
        for cpu, bpa, big in cs:
            cid = "%d.%s" % (i, cpu)
            names = A.label_names(p)
            src = A.layout(A.render_prog(p, cpu, variant=i), i)
            meta[cid] = (i, cpu, bpa, big, names, src)
            cases.append((cid, "syms=%s imgmax=70000" % ";".join(names), src))
    # translation family (AsmData!ShiftOk): programs without `$` / label operands, once as they are and once with every
    # .org moved up by 2^31 bytes
    BASE = 1 << 31

    def movable(p):
        return all(it["k"] in ("num", "str") for s0 in p if s0["k"] == "data" for it in s0["items"]) and \
            not any(s0["k"] == "fill" and isinstance(s0.get("v"), dict) for s0 in p)

    def shifted(p, bpa):
        return [dict(s0, a=s0["a"] + BASE // bpa) if s0["k"] == "org" else s0 for s0 in p]
    smeta = {}
    mov = [(i, p) for i, p in enumerate(allp) if len(p) >= 2 and movable(p)]
    # a byte behind the last statement shows where the location counter ended (statements that only move it - .align,
    # .resb - are otherwise invisible in a program without labels); programs with such statements are drawn first
    END = [dict(k="data", w=1, z=False, items=[dict(k="num", v=[0x5a, 0, 0, 0, 0, 0, 0, 0])])]
    movers = [(i, p) for i, p in mov if any(s0["k"] in ("align", "res") for s0 in p)]
    if tier != "thorough":
        pick = rnd.sample(movers, min(len(movers), 500))
        pick += rnd.sample([x for x in mov if x not in pick], min(len(mov) - len(pick), 500))
    for i, p in (mov if tier == "thorough" else pick):
        cpu, bpa, big = CARRIERS[i % len(CARRIERS)]
        names = A.label_names(p)
        for half, prog in (("lo", p + END), ("hi", [dict(k="org", a=BASE // bpa)] + shifted(p, bpa) + END)):
            cid = "t%d.%s" % (i, half)
            src = A.render_prog(prog, cpu, variant=i)
            cases.append((cid, "syms=%s imgmax=70000" % ";".join(names), src))
            smeta[cid] = (i, cpu, bpa, names, src)
    obs = C.conform_parallel(vdir, "asm", cases, rd, "c05")
    byid = {o["case"]: o for o in obs}
    if len(byid) != len(cases):
        raise C.InfraError("conform returned %d of %d cases" % (len(byid), len(cases)))

    events = []
    for cid, (i, cpu, bpa, big, names, src) in meta.items():
        ob = observe(byid[cid], names)
        if ob["k"] in ("crash", "hang"):
            chk.report(key_of(allp[i]) + "@" + cpu, "%s: %s\n%s" % (ob["k"], ob.get("why"), src),
                       dict(source=src, observed=ob))
            continue
        if ob["k"] in ("trunc", "wide"):
            continue
        events.append({"id": cid, "bpa": bpa, "big": big, "prog": allp[i], "obs": ob})

    def split(rec, names):
        if rec.get("died") or rec.get("trunc"):
            return None
        if rec["r1"] != 0 or rec["r2"] != 0:
            return {"k": "rej", "img": [], "syms": [], "low": {"ah": 0, "al": 0}, "high": {"ah": 0, "al": 0}}
        hl = lambda a: {"ah": (a >> 16) & 0xffff, "al": a & 0xffff}
        return {"k": "ok", "img": [dict(hl(a), d=list(bytes.fromhex(h))) for a, h in rec["img"]],
                "syms": [dict(hl(rec["sym2"][n]), n=n) for n in names if rec["sym2"].get(n) is not None],
                "low": hl(rec["low"]), "high": hl(rec["high"])}
    nshift = 0
    for cid in [c for c in smeta if c.endswith(".lo")]:
        i, cpu, bpa, names, src = smeta[cid]
        hid = cid[:-3] + ".hi"
        lo, hi = split(byid[cid], names), split(byid[hid], names)
        if lo is None or hi is None:
            if byid[hid].get("died"):
                chk.report(key_of(allp[i]) + "@" + cpu + "+2^31", "died on\n" + smeta[hid][4], dict(source=smeta[hid][4], observed=byid[hid]))
            continue
        events.append({"id": "t%d" % i, "bpa": bpa, "lo": lo, "hi": hi})
        nshift += 1
    # canaries: flip one image byte / move one symbol / swap accept-reject of real observations
    oks = [e for e in events if "obs" in e and e["obs"]["k"] == "ok" and e["obs"]["img"]]
    canaries = set()
    for e in rnd.sample(oks, min(30, len(oks))):
        c = json.loads(json.dumps(e))
        c["id"] = "canary." + e["id"]
        kind = rnd.randrange(3)
        if kind == 0:
            r = rnd.choice(c["obs"]["img"])
            r["d"][rnd.randrange(len(r["d"]))] ^= 0x40
        elif kind == 1 and c["obs"]["syms"]:
            c["obs"]["syms"][0]["a"] += 1
        else:
            c["obs"]["img"][0]["a"] += 1
        canaries.add(c["id"])
        events.append(c)

    for e in rnd.sample([x for x in events if "hi" in x and x["hi"]["k"] == "ok" and x["hi"]["img"]], 6):
        c = json.loads(json.dumps(e))
        c["id"] = "canary." + e["id"]
        c["hi"]["img"][0]["al"] ^= 4
        canaries.add(c["id"])
        events.append(c)
    verdicts, runs = C.tlc_accept("TraceAsmData", "trace_AsmData.cfg", events, rd, "c05")
    for r in runs:
        chk.add_tlc(r)
    bad = {v["id"]: v for v in verdicts}
    missed = [c for c in canaries if c not in bad]
    if missed:
        raise C.InfraError("canaries accepted: %s" % missed[:3])

    # report: a failing program is attributed to a statement that already fails on its own
    # (same carrier), otherwise to the whole program; shortest programs first
    for cid, v in sorted(bad.items()):
        if cid in canaries or not cid.startswith("t"):
            continue
        i, cpu, bpa, names, src = smeta[cid + ".hi"]
        chk.report("shift:" + key_of(allp[i])[:150] + "@" + cpu, "%s (.%s)\n%s" % (v["why"], cpu, src), dict(source=src, low_source=smeta[cid + ".lo"][4], cpu=cpu, why=v["why"]))
    fails = [(cid, v) for cid, v in bad.items() if cid not in canaries and not cid.startswith("t")]
    fails.sort(key=lambda cv: (len(allp[meta[cv[0]][0]]), cv[0]))
    single = {}          # (stmt json) -> set of cpus where the one-statement program fails
    for cid, v in fails:
        i, cpu, bpa, big, names, src = meta[cid]
        p = allp[i]
        if len(p) == 1:
            single.setdefault(json.dumps(p[0], sort_keys=True, separators=(",", ":")), set()).add(cpu)
    for cid, v in fails:
        i, cpu, bpa, big, names, src = meta[cid]
        p = allp[i]
        ob = observe(byid[cid], names)
        key = None
        for st in p:
            sj = json.dumps(st, sort_keys=True, separators=(",", ":"))
            if sj in single:
                key = "stmt:" + sj
                break
        if key is None:
            key = key_of(p) + "@" + cpu
        chk.report(key, "%s on .%s: %s\n%s" % (v["why"], cpu, json.dumps(ob)[:300], src),
                   dict(source=src, cpu=cpu, why=v["why"], observed=ob, program=p))

    chk.cov.update(dict(
        evaluations=len(cases), translation_pairs=nshift,
        distinct_nontrivial=len([p for p in allp if len(p) >= 2]),
        rule="TLC enumerates all programs of 1-2 statements over a 141-statement alphabet (BFS) and draws "
             "programs of up to 14 statements (simulation, seeded); non-trivial = at least two statements; "
             "distinct by abstract program; each program runs on 2-6 carriers",
        traces_validated_against_impl=len(events) - len(canaries),
        canaries=dict(injected=len(canaries), rejected=len(canaries)),
        carriers=[c[0] for c in CARRIERS],
        exhaustive=False))
    chk.samples = [meta[c][5] for c in rnd.sample(sorted(meta), 4)]
    chk.assumptions = ["renderer nv/asmtext.py and the image/symbol reader of harness/m_asm.cpp are trusted",
                       "Denote is evaluated on addresses below 2^31 (TLC integers); the upper half of the address space through AsmData!ShiftOk (programs without $ / label operands)"]
    return chk.finish()
