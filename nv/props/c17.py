"""C17: naken_util never crashes, hangs or corrupts memory on any file or command.

FileModel.tla enumerates structured file corruptions (every ELF header/section/symbol field,
UF2 block field and WDC field at boundary values; truncation at structure boundaries; line
level mutations of the text formats; byte flips for macho/amiga) and UtilSession.tla the
interactive command sequences; each is applied to well-formed files produced by the real
naken_asm and run through the sanitizer build of the real naken_util under a timeout;
TraceLimits (TLC) accepts each run (terminates normally, status 0/1)."""
import json
import os
import random
import re
import struct
import subprocess
from concurrent.futures import ThreadPoolExecutor

from .. import common as C
from . import c16

PROP = "C17"
BASE = ".msp430\n.org 0xf800\nstart:\n  mov.w #0x0280, SP\n  mov.w #0x1234, r5\nloop:\n  add.w r5, r6\n  jne loop\n  call #sub\n  jmp start\nsub:\n  xor.w r7, r7\n  ret\ntable:\n.db 1, 2, 3, 4, 5, 6, 7, 8\n.dc32 0x11223344\n.org 0xfffe\n.dw start\n.export start\n.export sub\n.entry_point start\n"
FORMATS = {"elf": "elf", "uf2": "uf2", "wdc": "wdc", "hex": "hex", "srec": "srec", "bin": "bin", "macho": "macho", "amiga": "amiga"}


def make_files(vdir, d):
    exe = os.path.join(vdir, "naken_asm")
    open(os.path.join(d, "base.asm"), "w").write(BASE)
    out = {}
    for t, ext in FORMATS.items():
        p = os.path.join(d, "base." + ext)
        r = subprocess.run([exe, "-q", "-type", t, "-o", p, "base.asm"], cwd=d, stdout=subprocess.PIPE, stderr=subprocess.STDOUT, timeout=30)
        if r.returncode != 0 or not os.path.exists(p):
            raise C.InfraError("could not produce the well-formed %s file: %s" % (t, r.stdout[-300:]))
        out[t] = open(p, "rb").read()
    # TI-TXT is a read-only format: a minimal well-formed file by hand (format: @addr / hex bytes / q)
    out["ti_txt"] = b"@f800\n31 40 80 02 35 40 34 12 06 55 FE 23\n@fffe\n00 F8\nq\n"
    return out


def apply(c, good):
    data = bytearray(good[c["fmt"]])
    k = c["k"]
    if k == "field":
        f = c["f"]
        base = 0
        if c["fmt"] == "elf":
            shoff = struct.unpack_from("<I", data, 32)[0]
            if c["part"] == "section":
                base = shoff + c["idx"] * 40
            elif c["part"] == "symbol":
                # .symtab is the section of type 2
                base = None
                for i in range(struct.unpack_from("<H", data, 48)[0]):
                    o = shoff + i * 40
                    if struct.unpack_from("<I", data, o + 4)[0] == 2:
                        base = struct.unpack_from("<I", data, o + 16)[0] + c["idx"] * 16
                if base is None:
                    return None
        elif c["fmt"] == "uf2":
            base = c["idx"] * 512
        elif c["fmt"] == "wdc":
            if c["idx"] == 1:
                ln = data[4] | (data[5] << 8) | (data[6] << 16)
                base = 6 + ln
                if f["name"] == "magic":
                    return None
                base -= 1      # block fields start after the magic byte: addr(1,3) len(4,3) relative to file start of block 0
        o = base + f["off"]
        v = c["v"] & ((1 << (8 * f["w"])) - 1)
        if o + f["w"] > len(data):
            return None
        data[o:o + f["w"]] = v.to_bytes(f["w"], "little")
        return bytes(data)
    if k == "word":
        o = 4 * c["idx"]
        if o + 4 > len(data):
            return None
        big = c["fmt"] == "amiga" or data[:4] in (b"\xfe\xed\xfa\xce", b"\xfe\xed\xfa\xcf")
        data[o:o + 4] = (c["v"] & 0xffffffff).to_bytes(4, "big" if big else "little")
        return bytes(data)
    if k == "hunks":
        L = lambda v: (v & 0xffffffff).to_bytes(4, "big")
        out = L(0x3f3) + L(0) + L(2) + L(0) + L(1) + L(2) + L(2) + L(0x3e9) + L(2) + L(0x4e714e71) + L(0x4e754e71)
        keep = len(out)
        h = c["h"]
        body = b"".join(L(0x11110000 + i) for i in range(h["m"]))
        t = h["t"]
        if t in ("code", "data", "debug", "name", "unit", "bad"):
            out += L({"code": 0x3e9, "data": 0x3ea, "debug": 0x3f1, "name": 0x3e8, "unit": 0x3e7, "bad": 0x12345678}[t]) + L(h["n"]) + body
        elif t == "bss":
            out += L(0x3eb) + L(h["n"]) + body
        elif t == "reloc32":
            out += L(0x3ec) + L(h["n"]) + L(0) + b"".join(L(4 * i) for i in range(h["m"])) + (L(0) if h["term"] else b"")
        elif t == "symbol":
            out += L(0x3f0) + L(h["n"]) + body + L(0x100) + (L(0) if h["term"] else b"")
        out += {"none": b"", "end": L(0x3f2), "code": L(0x3e9) + L(1) + L(0x4e714e75) + L(0x3f2)}[c["tail"]]
        if c["cut"] >= 0:
            out = out[:keep + 4 * c["cut"]]
        return out
    if k == "hunks1":
        L = lambda v: (v & 0xffffffff).to_bytes(4, "big")
        h = c["h"]
        out = L(0x3f3) + L(0) + L(2) + L(0) + L(1) + L(c["tab"]) + L(2)
        t = h["t"]
        body = L(0x11110000)
        if t in ("code", "data", "debug", "name", "unit", "bad"):
            out += L({"code": 0x3e9, "data": 0x3ea, "debug": 0x3f1, "name": 0x3e8, "unit": 0x3e7, "bad": 0x12345678}[t]) + L(h["n"]) + body
        elif t == "bss":
            out += L(0x3eb) + L(h["n"]) + body
        elif t == "reloc32":
            out += L(0x3ec) + L(h["n"]) + L(0) + L(0) + L(0)
        elif t == "symbol":
            out += L(0x3f0) + L(h["n"]) + body + L(0x100) + L(0)
        return out + L(0x3e9) + L(2) + L(0x4e714e71) + L(0x4e754e71) + L(0x3f2)
    if k == "truncate":
        return bytes(data[:c["n"]])
    if k == "flip":
        n = c["n"]
        pos = (n * 37 + 11) % max(1, len(data)) if n % 2 else (n * 3) % max(1, min(len(data), 120))
        data[pos] ^= 1 << (n % 8)
        return bytes(data)
    if k == "text":
        lines = bytes(data).split(b"\n")
        m = c["m"]
        first = 1 if (c["fmt"] == "srec" or c["fmt"] == "ti_txt") else 0
        if m == "count_ff":
            lines[first] = lines[first][:1] + (b"FF" if c["fmt"] == "hex" else lines[first][1:2] + b"FF") + lines[first][(3 if c["fmt"] == "hex" else 4):]
        elif m == "count_00":
            lines[first] = lines[first][:1] + (b"00" if c["fmt"] == "hex" else lines[first][1:2] + b"00") + lines[first][(3 if c["fmt"] == "hex" else 4):]
        elif m == "bad_digit":
            lines[first] = lines[first][:5] + b"ZZ" + lines[first][7:]
        elif m == "no_newline":
            return bytes(data).rstrip(b"\n")
        elif m == "long_line":
            lines[first] = lines[first] + b"0" * 5000
        elif m == "empty_line":
            lines.insert(first, b"")
        elif m == "type_9":
            lines[first] = lines[first][:7] + b"09" + lines[first][9:] if c["fmt"] == "hex" else b"S4" + lines[first][2:]
        elif m == "addr_ffff":
            lines[first] = lines[first][:3] + b"FFFF" + lines[first][7:] if c["fmt"] == "hex" else lines[first][:4] + b"FFFF" + lines[first][8:]
        elif m == "dup_eof":
            lines = lines[:-1] + [lines[-2], b""] if len(lines) > 2 else lines
        elif m == "lowercase":
            return bytes(data).lower()
        elif m == "crlf":
            return bytes(data).replace(b"\n", b"\r\n")
        elif m == "huge_file":
            return b"\n".join(lines[:-2] * 300 + lines[-2:])
        return b"\n".join(lines)
    return None


def run_util(a):
    exe, d, cid, fname, data, args, script = a[:7]
    nofile = len(a) > 7 and a[7]
    wd = os.path.join(d, cid)
    os.makedirs(wd, exist_ok=True)
    with open(os.path.join(wd, "in_q.txt"), "wb") as fh:
        fh.write(b"serial input\n")
    if not (nofile and fname.startswith("missing")):
        with open(os.path.join(wd, fname), "wb") as fh:
            fh.write(data)
    env = dict(os.environ)
    env["ASAN_OPTIONS"] = "detect_leaks=0:abort_on_error=0:exitcode=97:allocator_may_return_null=1"
    env["UBSAN_OPTIONS"] = "halt_on_error=1:exitcode=98"
    try:
        p = subprocess.run([exe] + args + ([] if (nofile and not fname.startswith("missing")) else [fname]), cwd=wd, env=env, input=script.encode(), stdout=subprocess.PIPE, stderr=subprocess.PIPE, timeout=15)
        rc, err, timed = p.returncode, p.stderr.decode("latin-1"), False
    except subprocess.TimeoutExpired:
        rc, err, timed = -999, "", True
    san = ""
    m = re.search(r"(ERROR: AddressSanitizer[^\n]*|runtime error:[^\n]*)", err)
    if m:
        san = m.group(1)[:160]
        w = re.search(r"([A-Za-z0-9_/]+\.(?:cpp|h)):\d+:\d+: runtime error", err)
        if w:
            san += " @" + os.path.basename(w.group(1))
        else:
            fr = re.findall(r"#\d+ 0x[0-9a-f]+ in (\S+)", err)
            fr = [f for f in fr if not f.startswith("__") and not f.startswith("operator")]
            if fr:
                san += " @" + fr[0].split("(")[0]
    died = timed or rc < 0 or rc in (97, 98) or bool(san)
    subprocess.run(["rm", "-rf", wd])
    return cid, {"status": rc if not died else -1, "died": died, "diag": 1}, (san or ("timeout" if timed else ("signal %d" % -rc if rc < 0 else "")))


def run(tier, seed):
    chk = C.Check(PROP, tier, seed, "exploration")
    rnd = random.Random(seed)
    vdir = C.ensure_build("asan")
    rd = chk.rundir
    g = C.tlc("FileModel", "gen_FileModel.cfg", rd, workers=2)
    chk.add_tlc(g)
    fcases = C.parse_payload(g.lines, "CASE ")
    s = C.tlc("UtilSession", "gen_Session_%d.cfg" % (1 if tier == "quick" else 2), rd, workers=4, heap="4g",
              prefixes=("CASE ", "ENDS ", "CMDL ", "LONG "))
    chk.add_tlc(s)
    sessions = C.parse_payload(s.lines, "CASE ")
    ends = sorted(C.parse_payload(s.lines, "ENDS "), key=lambda x: json.dumps(x, sort_keys=True))
    longs = C.parse_payload(s.lines, "LONG ")
    if not longs or len(longs[0]) < 200:
        raise C.InfraError("no long-text histories")
    # (they run through the loop that renders the sessions with endings)
    ends += [dict(cmds=c, end="quit") for c in sorted(longs[0], key=lambda x: json.dumps(x, sort_keys=True))]
    if len(ends) < 1500:
        raise C.InfraError("only %d sessions with endings" % len(ends))
    if tier == "quick":
        # quick: the grammar-built amiga files and the word cases are sampled
        heavy = [x for x in fcases if x["k"] in ("word", "hunks")]
        fcases = [x for x in fcases if x["k"] not in ("word", "hunks")] + rnd.sample(heavy, 700)       # (hunks1: all 324, also in quick)
    if len(fcases) < 1500 or len(sessions) < 300:
        raise C.InfraError("generators produced %d / %d cases" % (len(fcases), len(sessions)))
    if tier == "thorough":
        sessions = [x for x in sessions if len(x) == 1] + rnd.sample([x for x in sessions if len(x) == 2], 20000)
    wd = os.path.join(rd, "w")
    os.makedirs(wd)
    good = make_files(C.ensure_build("rel"), wd)
    exe = os.path.join(vdir, "naken_util")
    jobs, meta = [], {}
    ext = dict(FORMATS)
    ext["ti_txt"] = "txt"
    # every fourth file case and every fifth session runs under another CPU selection
    OTHER = ["68000", "avr8", "mips", "z80", "riscv", "arm", "6502", "propeller", "8051", "dspic", "pic14", "stm8",
             "thumb", "powerpc", "sh4", "tms9900", "1802", "65816", "epiphany", "xtensa"]
    for i, c in enumerate(fcases):
        data = apply(c, good)
        if data is None:
            continue
        cid = "f%d" % i
        mode = ["-disasm"] if i % 3 else []
        script = "" if mode else "print 0xf800-0xf810\ndisasm 0xf800-0xf820\nsymbols\ninfo\nquit\n"
        targs = {"bin": ["-bin"], "ti_txt": []}.get(c["fmt"], [])
        if c["k"] == "word":
            key = "file:%s:word%d" % (c["fmt"], c["idx"])
        elif c["k"] == "hunks":
            key = "file:amiga:hunk:%s%s" % (c["h"]["t"], ":cut" if c["cut"] >= 0 else "")
        elif c["k"] == "hunks1":
            key = "file:amiga:first hunk:%s:table entry %s" % (c["h"]["t"], "negative" if c["tab"] < 0 else ("0" if c["tab"] == 0 else "positive"))
        elif c["k"] == "field":
            key = "file:%s:%s.%s" % (c["fmt"], c["part"], c["f"]["name"])
        else:
            key = "file:%s:%s%s" % (c["fmt"], c["k"], ":" + c["m"] if c["k"] == "text" else "")
        cpu = OTHER[(i // 4) % len(OTHER)] if i % 4 == 3 else "msp430"
        if cpu != "msp430":
            key += "@" + cpu
        meta[cid] = (key, json.dumps(c))
        jobs.append((exe, wd, cid, "t." + ext[c["fmt"]], data, ["-" + cpu] + targs + mode, script))
    for i, sq in enumerate(sessions):
        cid = "s%d" % i
        script = "".join(("%s %s" % (x["cmd"], x["arg"])).strip() + "\n" for x in sq) + "quit\n"
        cpu = OTHER[(i // 5) % len(OTHER)] if i % 5 == 4 else "msp430"
        meta[cid] = ("session:" + " ; ".join(x["cmd"] + ("(" + re.sub(r"[0-9]", "#", x["arg"])[:12] + ")" if x["arg"] else "") for x in sq)
                     + ("@" + cpu if cpu != "msp430" else "") + ("@nocpu" if i % 7 == 3 else ""), script)
        # (every seventh session is started without a CPU option)
        jobs.append((exe, wd, cid, "t.hex", good["hex"], ["-" + cpu] if i % 7 != 3 else [], script))
    # one-command sessions and interactive asm blocks under every ending (quit, exit, end of input)
    for i, e in enumerate(ends):
        cid = "e%d" % i
        lines = []
        for x in e["cmds"]:
            arg = re.sub(r"@W(\d+)@", lambda m: ("0x400 " + "1 2 3 4 5 6 7 8 9 " * 200)[:int(m.group(1))].rstrip(), x["arg"])
            lines.append(("%s %s" % (x["cmd"], arg)).strip())
            if "body" in x:
                for b in x["body"]:
                    m = re.match(r"@R(\d+)@$", b)
                    if m:
                        lines += ["  mov.w #%d, r6" % n for n in range(int(m.group(1)))]
                    else:
                        lines.append(re.sub(r"@L(\d+)@", lambda m: ("nop ; " + "x" * int(m.group(1)))[:int(m.group(1))], b))
                if x["closed"]:
                    lines.append("")
        script = "\n".join(lines) + "\n" + ({"quit": "quit\n", "exit": "exit\n", "eof": ""}[e["end"]])
        cpu = OTHER[(i // 5) % len(OTHER)] if i % 5 == 4 else "msp430"
        x = e["cmds"][0]
        meta[cid] = ("session:%s(%s)%s end=%s%s" % (x["cmd"], re.sub(r"[0-9]", "#", x["arg"])[:12],
                                                  ("[" + "|".join(b[:10] for b in x["body"]) + ("]" if x["closed"] else "")) if "body" in x else "",
                                                  e["end"], ("@" + cpu if cpu != "msp430" else "") + ("@nocpu" if i % 7 == 3 else "")), script[:3000])
        jobs.append((exe, wd, cid, "t.hex", good["hex"], ["-" + cpu] if i % 7 != 3 else [], script))
    # register names: every `set` argument class of UtilSession against every simulator (each has its own name parser)
    from .. import codec as K
    setargs = sorted({x["arg"] for sq in sessions for x in sq if x["cmd"] == "set" and "=" in x["arg"]})
    sims = [c["name"] for c in K.cpu_list(vdir) if c["sim"]]
    if len(setargs) < 10 or len(sims) < 15:
        raise C.InfraError("set arguments %d, simulators %d" % (len(setargs), len(sims)))
    for si, cpu in enumerate(sims):
        for ai, a in enumerate(setargs):
            cid = "r%d_%d" % (si, ai)
            script = "set %s\nregisters\nclear %s\nquit\n" % (a, a.split("=")[0])
            meta[cid] = ("session:set(%s)@%s" % (re.sub(r"[0-9]", "#", a), cpu), script)
            jobs.append((exe, wd, cid, "t.hex", good["hex"], ["-" + cpu], script))
    # RAM dumps: every argument class of UtilSession against every simulator (several have a dump_ram of their own)
    dumpargs = sorted({x["arg"] for sq in sessions for x in sq if x["cmd"] == "dumpram"})
    if len(dumpargs) < 10:
        raise C.InfraError("dumpram arguments %d" % len(dumpargs))
    for si, cpu in enumerate(sims):
        for ai, a in enumerate(dumpargs):
            cid = "d%d_%d" % (si, ai)
            script = "dumpram %s\ndump_ram %s\nquit\n" % (a, a)
            meta[cid] = ("session:dumpram(%s)@%s" % (re.sub(r"[0-9]", "#", a)[:12], cpu), script)
            jobs.append((exe, wd, cid, "t.hex", good["hex"], ["-" + cpu], script))
    # command lines: options with, without and with malformed arguments, in pairs, with and without a file
    cmdl = []
    for part in C.parse_payload(s.lines, "CMDL "):
        cmdl += part
    cmdl = sorted(cmdl, key=lambda x: json.dumps(x, sort_keys=True))
    if len(cmdl) < 2000:
        raise C.InfraError("only %d command lines" % len(cmdl))
    singles = [x for x in cmdl if len(x["opts"]) == 1]
    pairs = [x for x in cmdl if len(x["opts"]) == 2]
    for i, cl in enumerate(singles + (pairs if tier == "thorough" else rnd.sample(pairs, 500))):
        cid = "l%d" % i
        args = [w for o in cl["opts"] for w in o]
        fname = cl["file"]
        data = good["hex"] if fname == "t.hex" else (good["bin"] if fname == "t.bin" else b"")
        meta[cid] = ("cmdline:" + " ".join(o[0] + ("" if len(o) == 1 else "=" + ("bad" if o[1] == "zzz" else "arg")) for o in cl["opts"]) + (" +" + fname.split(".")[0].rstrip("_q") if fname else ""),
                     " ".join(args + [fname]))
        jobs.append((exe, wd, cid, fname or "unused.tmp", data, args, "quit\n", fname == "" or fname.startswith("missing")))
    events, details = [], {}
    with ThreadPoolExecutor(C.NCPU) as ex:
        for cid, ob, san in ex.map(run_util, jobs):
            events.append({"id": cid, "obs": ob})
            details[cid] = san
    canaries = set()
    oks = [e for e in events if not e["obs"]["died"]]
    for e in rnd.sample(oks, min(12, len(oks))):
        c = json.loads(json.dumps(e))
        c["id"] = "canary." + e["id"]
        c["obs"]["status"] = 139
        canaries.add(c["id"])
        events.append(c)
    verdicts, runs = C.tlc_accept("TraceLimits", "trace_Limits.cfg", events, rd, "c17", nchunks=4)
    for r in runs:
        chk.add_tlc(r)
    bad = {v["id"]: v for v in verdicts}
    missed = [c for c in canaries if c not in bad]
    if missed:
        raise C.InfraError("canaries accepted: %s" % missed[:3])
    for vid, v in sorted(bad.items()):
        if vid in canaries:
            continue
        key, desc = meta[vid]
        san = details[vid]
        chk.report("util:%s:%s" % (c16.site(san) if v["why"].startswith("died") else v["why"], key),
                   "%s (%s) on %s\n%s" % (v["why"], san, key, desc[:300]), dict(key=key, case=desc[:2000], why=v["why"], report=san))
    chk.cov.update(dict(
        evaluations=len(jobs),
        distinct_nontrivial=len({m[1] for m in meta.values()}),
        rule="FileModel: 13 ELF header fields, 9 section-header fields x 6 sections, 5 symbol fields x 5 symbols, 9 UF2 block fields x 3, "
             "WDC fields, each at 7-15 boundary values; every 32-bit word of the Mach-O header/load commands (48) and of the Amiga hunk header (16) "
             "at 15 boundary values; Amiga files built from the hunk grammar (9 hunk types x 6 length values x 3 present lengths x terminator x 3 tails, "
             "cut after every long); truncation at 24 lengths x 9 formats; 12 text-format mutations x 3 formats; 40 "
             "byte flips x 4 formats; UtilSession: every command x argument class (quick: 1 command; thorough: + 20,000 pairs), each one-command session also ended by "
             "exit and by end of input, 15 interactive asm bodies x 7 arguments x closed/unclosed x 3 endings; all cases "
             "non-trivial; distinct by case description",
        traces_validated_against_impl=len(events) - len(canaries), file_cases=len(fcases), sessions=len(sessions), sessions_with_endings=len(ends), command_lines=len(singles) + (len(pairs) if tier == "thorough" else 500),
        canaries=dict(injected=len(canaries), rejected=len(canaries)), exhaustive=False))
    chk.samples = [meta[c][1][:200] for c in rnd.sample(sorted(meta), 4)]
    chk.assumptions = ["memory-safety oracle: AddressSanitizer + bounds build; 15 s timeout; sessions end with quit, exit or end of input; "
                       "run and call are not issued (they execute the loaded program for as long as it takes)"]
    return chk.finish()
