"""C15: every simulator survives every opcode from every state, deterministically.

The decode-side enumeration of leading 16-bit patterns is replayed into each simulator
(sanitizer build: AddressSanitizer + bounds) from several prepared states; every case is
executed twice from the same state; TraceSimStep (TLC) accepts a case iff both runs
returned executed/illegal and agree.  A run that dies is reported directly."""
import hashlib
import json
import random

from .. import common as C
from .. import codec as K

PROP = "C15"

# register presets by name; unknown names are ignored by set_reg()
PRESETS = [("zero", ""), ("ones", "sp:0xffff;a:0xff;x:0xff;y:0xff;r1:0xffff;r4:0xffff;r5:0xffff;r15:0xffff;hl:0xffff;ix:0xffff;iy:0xffff;$29:0xffffffff;$4:0xffffffff;x2:0xffffffff;x5:0xffffffff"),
           ("low", "sp:0;r1:0;r4:1;r5:2;hl:1;ix:0;iy:0;$29:0;x2:0")]
PCS = [0, 0x200, 0xfffe]


def _regs(odd, even, quad=False):
    names = ["x%d" % i for i in range(32)] + ["$%d" % i for i in range(32)] + ["r%d" % i for i in range(32)] + \
            ["d%d" % i for i in range(8)] + ["a%d" % i for i in range(7)] + ["a", "b", "c", "d", "e", "h", "l", "x", "y", "hl", "bc", "de", "ix", "iy"]
    # a name ends in its register number: pairs of different parity differ (quad: pairs whose numbers differ in bit 1)
    def num(n):
        d = "".join(ch for ch in n if ch.isdigit())
        return int(d) if d else sum(n.encode())
    return ";".join("%s:0x%x" % (n, odd if ((num(n) >> 1) if quad else num(n)) % 2 else even) for n in names)


# (the stack pointers stay where reset put them)
VALUE_PRESETS = [("minneg", _regs(0x80000000, 0xffffffff)), ("negmin", _regs(0xffffffff, 0x80000000)),
                 ("minneg4", _regs(0x80000000, 0xffffffff, True)), ("negmin4", _regs(0xffffffff, 0x80000000, True)),
                 ("min16", _regs(0x8000, 0xffff)), ("allones", _regs(0xffffffff, 0xffffffff)), ("allzero", _regs(0, 0))]
# architecture address spaces in bytes (0 = not stated here)
SPACE = {"6502": 65536, "z80": 65536, "8008": 16384, "1802": 65536, "msp430": 65536, "tms9900": 65536, "avr8": 0,
         "lc3": 131072, "stm8": 16777216, "65816": 16777216}


# first bytes that only select another opcode page (the instruction proper is the second byte)
PREFIXES = {"z80": [0xdd, 0xfd, 0xed, 0xcb], "65816": [0x42], "stm8": [0x72, 0x90, 0x91, 0x92], "avr8": []}


def run(tier, seed):
    chk = C.Check(PROP, tier, seed, "exploration")
    rnd = random.Random(seed)
    vdir = C.ensure_build("asan")
    cpus = [c for c in K.cpu_list(vdir) if c["sim"]]
    if len(cpus) < 15:
        raise C.InfraError("only %d simulators found" % len(cpus))
    cases, meta = [], {}
    for ci, cpu in enumerate(cpus):
        if tier == "thorough":
            pats = range(0, 65536)
        else:
            pats = sorted(set(rnd.sample(range(65536), 1500) + list(range(0, 65536, 257))))
        for p in pats:
            pi = (p + ci) % len(PRESETS)
            pc = PCS[(p >> 2) % len(PCS)]
            pc -= pc % max(2, cpu["bpa"])
            body = "%d:%04x%s" % (pc, p, K.fill_for(p, cpu["type"])[:12])
            cid = "%s.%04x" % (cpu["name"], p)
            meta[cid] = (cpu["name"], p, PRESETS[pi][0], pc)
            cases.append((cid, "cpu=%s pc=%d regs=%s show=pc;sp;a rep=1" % (cpu["name"], pc, PRESETS[pi][1]), body))
        # every first byte with operands at the top of the address space and all-ones index registers
        for b in range(256):
            p = (b << 8) | 0xf0
            cid = "%s.t%02x" % (cpu["name"], b)
            meta[cid] = (cpu["name"], p, "ones", 0x200)
            cases.append((cid, "cpu=%s pc=512 regs=%s show=pc;sp;a rep=1" % (cpu["name"], PRESETS[1][1]), "512:%04x%s" % (p, "ff" * 6)))
        # prefixed (multi-byte) opcodes: every second byte behind the CPU's prefix bytes, with a displacement/operand
        # of -1 (ff) over zeroed registers and of 0 over all-ones registers: effective addresses of -1 and 0x10000
        for pre in PREFIXES.get(cpu["name"], []):
            for b in range(256):
                for k, (fill, pset) in enumerate((("ff" * 6, 0), ("00" * 6, 1))):
                    p = (pre << 8) | b
                    cid = "%s.x%04x.%d" % (cpu["name"], p, k)
                    meta[cid] = (cpu["name"], p, PRESETS[pset][0], 0x100)
                    cases.append((cid, "cpu=%s pc=256 regs=%s show=pc;sp;a rep=1" % (cpu["name"], PRESETS[pset][1]), "256:%04x%s" % (p, fill)))
    # documented instructions from states built of the values at which arithmetic has corners: every instruction of the
    # CPU's comparison corpus (assembled by the real assembler, c18.build_pools) with all registers set to the most
    # negative number / minus one in alternation (both ways round), to all ones and to zero
    from . import c18
    by = {c["name"]: c for c in cpus}
    rvd = C.ensure_build("rel")
    pools = c18.build_pools(rvd, chk.rundir, K.cpu_list(rvd), {c["name"]: c for c in K.cpu_list(rvd)})
    ncorpus = 0
    for cpu in cpus:
        pool = sorted(pools.get(cpu["name"], []))
        if tier == "quick" and len(pool) > 90:
            # the instructions whose arithmetic has corners first (divide, remainder, multiply, shifts, rotates)
            first = [x for x in pool if any(m in x[0].split()[0].lower() for m in ("div", "rem", "mod", "mul", "sl", "sr", "sh", "ro", "as"))]
            rest = [x for x in pool if x not in first]
            first = first if len(first) <= 60 else rnd.sample(first, 60)
            pool = first + rnd.sample(rest, min(len(rest), 90 - len(first)))
        for k, (text, hexb) in enumerate(pool):
            for vn, regs in VALUE_PRESETS:
                cid = "%s.c%d.%s" % (cpu["name"], k, vn)
                meta[cid] = (cpu["name"], int(hexb[:4].ljust(4, "0"), 16), vn + " " + text, 0x200)
                cases.append((cid, "cpu=%s pc=512 regs=%s show=pc;sp;a rep=1" % (cpu["name"], regs), "512:%s%s" % (hexb, "00" * 8)))
                ncorpus += 1
    if ncorpus < 2000:
        raise C.InfraError("only %d corpus cases" % ncorpus)
    # history: the same step in a simulator object that has executed another instruction before (and was put back into
    # the prepared state) against a fresh object.  (1) twins of the cases above: the earlier instruction differs in its
    # fourth byte only, or is the next case's instruction; (2) behind two prefix bytes every fourth byte, the earlier
    # instruction being the one with the fourth byte before it
    regular = list(cases)
    per_cpu = {}
    for c in regular:
        per_cpu.setdefault(meta[c[0]][0], []).append(c)
    nh = 0
    for cpu, cl in sorted(per_cpu.items()):
        pick = cl if tier == "thorough" and len(cl) < 4000 else rnd.sample(cl, min(len(cl), 120 if tier == "quick" else 3000))
        for k, c in enumerate(pick):
            at, hexb = c[2].split(":")
            b = bytearray(bytes.fromhex(hexb))
            if k % 2 == 0 and len(b) > 3:
                a = bytearray(b)
                a[3] = (a[3] - 1) & 0xff
            else:
                a = bytearray(bytes.fromhex(cl[(cl.index(c) + 1) % len(cl)][2].split(":")[1]))
            cid = "h." + c[0]
            meta[cid] = meta[c[0]]
            cases.append((cid, c[1] + " hist=" + bytes(a).hex(), c[2]))
            nh += 1
    for cpu in cpus:
        pres = PREFIXES.get(cpu["name"], [])
        pairs = [(x, y) for x in pres for y in pres]
        if tier == "quick":
            pairs = [pp for pp in pairs if pp[1] == 0xcb or pp[0] == pp[1]][:4]
        for (p1, p2) in pairs:
            for k in range(256):
                for d in ((0,) if tier == "quick" else (0, 0xff)):
                    body = "256:%02x%02x%02x%02x%s" % (p1, p2, d, k, "ff" * 4)
                    cid = "%s.hp%02x%02x%02x.%02x" % (cpu["name"], p1, p2, d, k)
                    meta[cid] = (cpu["name"], (p1 << 8) | p2, "zero", 0x100)
                    cases.append((cid, "cpu=%s pc=256 regs=%s show=pc;sp;a rep=1 hist=%02x%02x%02x%02x" % (cpu["name"], PRESETS[2][1], p1, p2, d, (k - 1) & 0xff), body))
                    nh += 1
    obs = C.conform_parallel(vdir, "sim", cases, chk.rundir, "c15", 5, nproc=C.NCPU)
    byid = {o["case"]: o for o in obs}
    # a timeout is reported only if it repeats when the case runs alone with a longer limit (a loaded machine
    # can make a sanitizer-built step miss a 5 s limit)
    slow = [c for c in cases if byid.get(c[0], {}).get("timeout")]
    if slow:
        again = C.conform_parallel(vdir, "sim", slow, chk.rundir, "c15again", 30, nproc=1)
        for o in again:
            byid[o["case"]] = o
    events = []
    per = {}
    for c in cases:
        o = byid.get(c[0])
        cpu, p, preset, pc = meta[c[0]]
        s = per.setdefault(cpu, dict(cases=0, died=0, illegal=0))
        s["cases"] += 1
        if o is None:
            raise C.InfraError("missing observation " + c[0])
        if o.get("died"):
            s["died"] += 1
            why = "timeout" if o.get("timeout") else (o.get("san") or "signal %s exit %s" % (o.get("sig"), o.get("exit")))
            import re
            short = re.sub(r"\d+", "#", why.split("\n")[0][:70])
            chk.report("Sim:%s:died:%s" % (cpu, short), "simulator .%s died on bytes %s at pc=%d preset %s: %s" % (cpu, c[2], pc, preset, why[:300]),
                       dict(case=dict(id=c[0], opts=c[1], body=c[2]), observed=o))
            continue

        def dig(r):
            return {"ret": r["ret"], "digest": hashlib.md5(json.dumps([r["regs"], r["diff"], r["dump"]], sort_keys=True).encode()).hexdigest(),
                    "pre": hashlib.md5(r.get("pre", "").encode()).hexdigest()}
        if o["a"]["ret"] == -1:
            s["illegal"] += 1
        events.append({"id": c[0], "cpu": cpu, "a": dig(o["a"]), "b": dig(o["b"]), "space": SPACE.get(cpu, 0),
                       "top": min(o["a"]["top"], (1 << 31) - 1)})
    canaries = set()
    for e in rnd.sample(events, min(16, len(events))):
        c = json.loads(json.dumps(e))
        c["id"] = "canary." + e["id"]
        if rnd.randrange(2):
            c["b"]["digest"] = c["b"]["digest"][::-1] + "x"
        else:
            c["a"]["ret"] = 3
        canaries.add(c["id"])
        events.append(c)
    verdicts, runs = C.tlc_accept("TraceSimStep", "trace_SimStep.cfg", events, chk.rundir, "c15", heap="2g", nchunks=8)
    for r in runs:
        chk.add_tlc(r)
    bad = {v["id"]: v for v in verdicts}
    missed = [c for c in canaries if c not in bad]
    if missed:
        raise C.InfraError("canaries accepted: %s" % missed[:3])
    for vid, v in sorted(bad.items()):
        if vid in canaries:
            continue
        cpu, p, preset, pc = meta[vid]
        hist = " after another instruction in the same simulator object" if (vid.startswith("h.") or ".hp" in vid) else ""
        chk.report("Sim:%s:%s%s" % (cpu, v["why"], ":history" if hist else ""), ".%s pattern %04x pc=%d preset %s%s: %s" % (cpu, p, pc, preset, hist, v["why"]),
                   dict(case=vid, observed=byid[vid]))
    chk.cov.update(dict(
        evaluations=len(cases) * 2, history_cases=nh, corpus_cases=ncorpus,
        distinct_nontrivial=len(cases),
        rule="for each of the simulators of cpu_list[]: leading 16-bit patterns (quick: 1500 seeded + 256 spread; thorough: all "
             "65,536) with pattern-derived operand bytes, 3 register presets (zero, all ones, low), PC at 0, 0x200 and the top "
             "of a 64 KiB space, plus every first byte with 0xf0 0xff.. operands and all-ones registers; each case executed twice; history cases: the step repeated in a simulator object that executed another instruction "
             "before (fourth byte changed, or the next case's instruction; behind two prefix bytes every fourth byte); corpus cases: every "
             "instruction of the comparison corpus (quick: 90 per simulator, divide/multiply/shift mnemonics first) from 7 value presets (most negative / minus one alternating with the register number, and with its bit 1, "
             "both ways; 0x8000 / 0xffff; all ones; all zero); distinct = (simulator, pattern)",
        traces_validated_against_impl=len(events) - len(canaries), per_simulator=per, simulators=len(cpus),
        canaries=dict(injected=len(canaries), rejected=len(canaries)), exhaustive=(tier == "thorough")))
    chk.samples = [dict(case=c[1], body=c[2]) for c in rnd.sample(cases, 4)]
    chk.assumptions = ["memory-safety oracle: AddressSanitizer and -fsanitize=bounds,null,... of the sanitizer build",
                       "the state is observed through dump_registers(), get_reg() and the memory bytes that changed"]
    return chk.finish()
