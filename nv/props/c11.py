"""C11: every symbol reference resolves to the definition the scoping rules select.

SymResolve!RefRun is the reference (blocks first, then own-block definition else global,
independent of order; duplicates, undefined names, nested scopes and bad exports are errors).
TLC enumerates every program up to a bound over labels, uses, .scope/.ends, .func/.endf,
.set and .export; the real code assembles each (file mode: image + ELF symbol table);
TraceSym accepts the recorded .dc32 words and exported symbols.  A scaled rendering (names
of 200+ characters, hundreds of filler labels: several 32 KiB symbol pools) runs a sample."""
import json
import os
import random

from .. import common as C
from .. import tokenize as T

PROP = "C11"


def render(p, scale=0, pool=None):
    pad = ("_" + "x" * 200) if scale else ""
    out = [".msp430"]
    if scale:
        for i in range(scale):
            out.append("filler_%04d%s:" % (i, "y" * 60))
    if pool:
        # pool = (fillers, length of one more filler name): the fillers end near the end of the first 32 KiB pool;
        # names are padded by 230 characters (a), not at all (b, f)
        for i in range(pool[0]):
            out.append("filler_%04d%s:" % (i, "y" * 60))
        out.append("adjust_%s:" % ("z" * pool[1]))
    for s in p:
        k = s["k"]
        if pool:
            pad = ("_" + "w" * 230) if s.get("n") == "a" else ""
        if k == "label":
            out.append("%s%s:" % (s["n"], pad))
        elif k == "use":
            out.append(".dc32 %s%s" % (s["n"], pad))
        elif k == "scope":
            out.append(".scope")
        elif k == "ends":
            out.append(".ends")
        elif k == "func":
            out.append(".func %s%s" % (s["n"], pad))
        elif k == "endf":
            out.append(".endf")
        elif k == "set":
            out.append(".set %s%s = %d" % (s["n"], pad, s["v"]))
        elif k == "export":
            out.append(".export %s%s" % (s["n"], pad))
    return "\n".join(out) + "\n"


def observe(rec, path, p, scale, pool=None):
    if rec.get("died"):
        return {"k": "crash", "why": rec.get("san") or "signal %s" % rec.get("sig")}
    if rec["r1"] != 0 or rec["r2"] != 0:
        return {"k": "rej", "words": [], "exports": []}
    data = b""
    for a, h in sorted(rec["img"]):
        data += bytes.fromhex(h)
    words = [int.from_bytes(data[i:i + 4], "little") for i in range(0, len(data), 4)]
    exports = []
    pad = ("_" + "x" * 200) if scale else (("_" + "w" * 230) if pool else "")
    fi = rec["files"]["elf"]
    elf = T.lex_elf(open(fi["path"], "rb").read())
    os.unlink(fi["path"])
    if not elf["ok"]:
        return {"k": "badelf"}
    for s in elf["syms"]:
        if s["shndx"] == 1 and s["name"]:
            nm = s["name"][:-len(pad)] if pad and s["name"].endswith(pad) else s["name"]
            exports.append({"n": nm, "v": (s["value"]["h"] << 16) | s["value"]["l"]})
    return {"k": "ok", "words": words, "exports": exports}


def run(tier, seed):
    chk = C.Check(PROP, tier, seed, "model_checking")
    rnd = random.Random(seed)
    vdir = C.ensure_build("rel")
    rd = chk.rundir
    g = C.tlc("GenSym", "gen_Sym_%s.cfg" % tier, rd, workers=8, heap="8g", prefixes=("CASE ", "POOL "))
    chk.add_tlc(g)
    progs = C.parse_payload(g.lines, "CASE ")
    pp = C.parse_payload(g.lines, "POOL ")
    if not pp or len(pp[0]) < 8:
        raise C.InfraError("no pool programs")
    poolprogs = sorted(pp[0], key=lambda x: json.dumps(x, sort_keys=True))
    if len(progs) < 20000:
        raise C.InfraError("only %d programs" % len(progs))
    total = len(progs)
    if tier == "quick":
        progs = [p for p in progs if len(p) <= 3] + rnd.sample([p for p in progs if len(p) > 3], 12000)
    fdir = os.path.join(rd, "f")
    os.makedirs(fdir)
    cases, meta = [], {}
    nscaled = 40 if tier == "quick" else 400
    scaled = set(rnd.sample(range(len(progs)), nscaled))
    for i, p in enumerate(progs):
        scale = 400 if i in scaled else 0
        cid = "y%d" % i
        meta[cid] = (i, scale)
        cases.append((cid, "types=elf prefix=%s/ imgmax=4000" % fdir, render(p, scale)))
    # pool boundary sweep: an entry of the symbol table takes its name and a few bytes; 405..420 fillers of 71 characters
    # and one of 7..87 put the end of the first 32 KiB pool at every distance from the program's first label
    pmeta = {}
    sweep = [(f, l) for f in range(404, 422) for l in range(0, 80, 8)]
    if tier == "quick":
        sweep = rnd.sample(sweep, 36)
    for j, p in enumerate(poolprogs):
        for (f, l) in (sweep if tier == "thorough" else sweep[j % 3::3]):
            cid = "z%d.%d.%d" % (j, f, l)
            pmeta[cid] = (j, (f, l))
            cases.append((cid, "types=elf prefix=%s/ imgmax=4000" % fdir, render(p, 0, (f, l))))
    obs = C.conform_parallel(vdir, "file", cases, rd, "c11", 20, nproc=C.NCPU)
    byid = {o["case"]: o for o in obs}
    events = []
    for c in cases:
        o = byid.get(c[0])
        if o is None:
            raise C.InfraError("missing " + c[0])
        if c[0] in pmeta:
            j, pool = pmeta[c[0]]
            ob = observe(o, None, poolprogs[j], 0, pool)
            if ob["k"] in ("crash", "badelf"):
                chk.report("sym:%s:pool:%s" % (ob["k"], json.dumps(poolprogs[j])[:120]), "%s on a pool sweep program" % ob, dict(source=c[2][-600:], observed=ob))
            elif not any(w >= (1 << 31) for w in ob["words"]):
                events.append({"id": c[0], "prog": poolprogs[j], "obs": ob})
            continue
        i, scale = meta[c[0]]
        ob = observe(o, None, progs[i], scale)
        if ob["k"] in ("crash", "badelf"):
            chk.report("sym:%s:%s" % (ob["k"], json.dumps(progs[i])[:150]), "%s on\n%s" % (ob, c[2][:400]), dict(source=c[2][:2000], observed=ob))
            continue
        if any(w >= (1 << 31) for w in ob["words"]):
            continue
        events.append({"id": c[0], "prog": progs[i], "obs": ob})
    canaries = set()
    oks = [e for e in events if e["obs"]["k"] == "ok" and e["obs"]["words"] and not any(s["k"] in ("set", "scope", "func") for s in e["prog"])]
    for e in rnd.sample(oks, min(20, len(oks))):
        c = json.loads(json.dumps(e))
        c["id"] = "canary." + e["id"]
        c["obs"]["words"][0] += 4
        canaries.add(c["id"])
        events.append(c)
    verdicts, runs = C.tlc_accept("TraceSym", "trace_Sym.cfg", events, rd, "c11", heap="3g")
    for r in runs:
        chk.add_tlc(r)
    bad = {v["id"]: v for v in verdicts}
    missed = [c for c in canaries if c not in bad]
    if missed:
        raise C.InfraError("canaries accepted: %s" % missed[:3])
    for cid in sorted(bad):
        if cid in pmeta:
            j, pool = pmeta[cid]
            chk.report("sym:pool:%s:%s" % (bad[cid]["why"].split(" ")[0], json.dumps(poolprogs[j], separators=(",", ":"))[:140]),
                       "%s (after %d fillers and one of %d characters)\n%s" % (bad[cid]["why"], pool[0], pool[1] + 7, render(poolprogs[j])),
                       dict(source=render(poolprogs[j], 0, pool)[-1500:], fillers=pool[0], adjust=pool[1], why=bad[cid]["why"]))
    fails = sorted((cid for cid in bad if cid not in canaries and cid not in pmeta), key=lambda c: len(progs[meta[c][0]]))
    minimal = []
    for cid in fails:
        i, scale = meta[cid]
        p = progs[i]
        # attribute to the shortest failing program that is a contiguous part of this one
        key = None
        for m in minimal:
            L = len(m)
            if any(p[j:j + L] == m for j in range(len(p) - L + 1)):
                key = m
                break
        if key is None:
            minimal.append(p)
            key = p
        chk.report("sym:%s:%s%s" % (bad[cid]["why"].split(" ")[0] + bad[cid]["why"][-12:], json.dumps(key, separators=(",", ":")), "@scaled" if scale and key is p and False else ""),
                   "%s\n%s" % (bad[cid]["why"], render(p)), dict(source=render(p, scale)[:3000], why=bad[cid]["why"], observed=observe.__name__))
    chk.cov.update(dict(
        evaluations=len(cases), generated=total,
        distinct_nontrivial=len([p for p in progs if any(s["k"] == "use" for s in p) and any(s["k"] in ("scope", "func") for s in p)]),
        rule="TLC enumerates every program of up to 4 (thorough 5) statements over 13 statement kinds; quick runs all of length <= 3 "
             "and 12,000 seeded longer ones; a seeded subset is rendered with 200-character names after 400 filler labels (several "
             "symbol pools); non-trivial = has a use and a scope/function; distinct by abstract program",
        traces_validated_against_impl=len(events) - len(canaries), scaled=nscaled, pool_sweep=len(pmeta),
        canaries=dict(injected=len(canaries), rejected=len(canaries)), exhaustive=(tier == "thorough")))
    chk.samples = [render(p) for p in rnd.sample(progs, 3)]
    chk.assumptions = [".set mixed with labels of the same name, a .set used before its first assignment and .set inside a scope are "
                       "left unconstrained (the property does not settle them)"]
    return chk.finish()
