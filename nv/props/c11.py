"""C11: every symbol reference resolves to the definition the scoping rules select.

SymResolve!RefRun is the reference (blocks first, then own-block definition else global,
independent of order; duplicates, undefined names, nested scopes and bad exports are errors).
TLC enumerates every program up to a bound over labels, uses, .scope/.ends, .func/.endf,
.set and .export; the real code assembles each (file mode: image + ELF symbol table);
TraceSym accepts the recorded .dc32 words and exported symbols.  A scaled rendering (names
of 200+ characters, hundreds of filler labels: several 32 KiB symbol pools) runs a sample."""
import json
import os
import random

from .. import common as C
from .. import tokenize as T

PROP = "C11"


def render(p, scale=0, pool=None, cut=None, incpath=None):
    """cut = (i, j), 1-based: statements i..j-1 are written to incpath and replaced by one .include line"""
    if cut:
        lines = render(p).split("\n")[1:-1]            # one line per statement, behind the .msp430 line
        i, j = cut
        with open(incpath, "w") as fh:
            fh.write("".join(l + "\n" for l in lines[i - 1:j - 1]))
        return "\n".join([".msp430"] + lines[:i - 1] + ['.include "%s"' % incpath] + lines[j - 1:]) + "\n"
    pad = ("_" + "x" * 200) if scale else ""
    out = [".msp430"]
    if scale:
        for i in range(scale):
            out.append("filler_%04d%s:" % (i, "y" * 60))
    if pool:
        # pool = (fillers, length of one more filler name): the fillers end near the end of the first 32 KiB pool;
        # names are padded by 230 characters (a), not at all (b, f)
        for i in range(pool[0]):
            out.append("filler_%04d%s:" % (i, "y" * 60))
        out.append("adjust_%s:" % ("z" * pool[1]))
    for s in p:
        k = s["k"]
        if pool:
            pad = ("_" + "w" * 230) if s.get("n") == "a" else ""
        if k == "label":
            out.append("%s%s:" % (s["n"], pad))
        elif k == "use":
            out.append(".dc32 %s%s" % (s["n"], pad))
        elif k == "scope":
            out.append(".scope")
        elif k == "ends":
            out.append(".ends")
        elif k == "func":
            out.append(".func %s%s" % (s["n"], pad))
        elif k == "endf":
            out.append(".endf")
        elif k == "set":
            out.append(".set %s%s = %d" % (s["n"], pad, s["v"]))
        elif k == "export":
            out.append(".export %s%s" % (s["n"], pad))
    return "\n".join(out) + "\n"


def exe_case(a):
    """the naken_asm executable on a source file (the include cases: an include file read through the in-memory source of
    the in-process harness is not what a user runs); returns a record shaped like the harness's"""
    import subprocess
    exe, fdir, cid, src = a
    base = os.path.join(fdir, cid)
    with open(base + ".asm", "w") as fh:
        fh.write(src)
    rec = {"case": cid, "r1": 0, "r2": 0, "img": [], "files": {"elf": {"path": base + ".elf"}}}
    for typ in ("bin", "elf"):
        try:
            q = subprocess.run([exe, "-type", typ, "-o", base + "." + typ, base + ".asm"], stdout=subprocess.PIPE, stderr=subprocess.STDOUT, timeout=20)
        except subprocess.TimeoutExpired:
            return {"case": cid, "died": 1, "timeout": 1, "sig": 0}
        if q.returncode < 0:
            return {"case": cid, "died": 1, "sig": -q.returncode}
        if q.returncode != 0 or not os.path.exists(base + "." + typ):
            rec["r1"] = 1
            return rec
    rec["img"] = [[0, open(base + ".bin", "rb").read().hex()]]
    return rec


def observe(rec, path, p, scale, pool=None):
    if rec.get("died"):
        return {"k": "crash", "why": rec.get("san") or "signal %s" % rec.get("sig")}
    if rec["r1"] != 0 or rec["r2"] != 0:
        return {"k": "rej", "words": [], "exports": []}
    data = b""
    for a, h in sorted(rec["img"]):
        data += bytes.fromhex(h)
    words = [int.from_bytes(data[i:i + 4], "little") for i in range(0, len(data), 4)]
    exports = []
    pad = ("_" + "x" * 200) if scale else (("_" + "w" * 230) if pool else "")
    fi = rec["files"]["elf"]
    elf = T.lex_elf(open(fi["path"], "rb").read())
    os.unlink(fi["path"])
    if not elf["ok"]:
        return {"k": "badelf"}
    for s in elf["syms"]:
        if s["shndx"] == 1 and s["name"]:
            nm = s["name"][:-len(pad)] if pad and s["name"].endswith(pad) else s["name"]
            exports.append({"n": nm, "v": (s["value"]["h"] << 16) | s["value"]["l"]})
    return {"k": "ok", "words": words, "exports": exports}


def run(tier, seed):
    chk = C.Check(PROP, tier, seed, "model_checking")
    rnd = random.Random(seed)
    vdir = C.ensure_build("rel")
    rd = chk.rundir
    g = C.tlc("GenSym", "gen_Sym_%s.cfg" % tier, rd, workers=8, heap="8g", prefixes=("CASE ", "POOL ", "INC "))
    chk.add_tlc(g)
    progs = C.parse_payload(g.lines, "CASE ")
    pp = C.parse_payload(g.lines, "POOL ")
    if not pp or len(pp[0]) < 8:
        raise C.InfraError("no pool programs")
    poolprogs = sorted(pp[0], key=lambda x: json.dumps(x, sort_keys=True))
    if len(progs) < 20000:
        raise C.InfraError("only %d programs" % len(progs))
    total = len(progs)
    if tier == "quick":
        progs = [p for p in progs if len(p) <= 3] + rnd.sample([p for p in progs if len(p) > 3], 12000)
    fdir = os.path.join(rd, "f")
    os.makedirs(fdir)
    cases, meta = [], {}
    nscaled = 40 if tier == "quick" else 400
    scaled = set(rnd.sample(range(len(progs)), nscaled))
    for i, p in enumerate(progs):
        scale = 400 if i in scaled else 0
        cid = "y%d" % i
        meta[cid] = (i, scale)
        cases.append((cid, "types=elf prefix=%s/ imgmax=4000" % fdir, render(p, scale)))
    # pool boundary sweep: an entry of the symbol table takes its name and a few bytes; 405..420 fillers of 71 characters
    # and one of 7..87 put the end of the first 32 KiB pool at every distance from the program's first label
    pmeta = {}
    sweep = [(f, l) for f in range(404, 422) for l in range(0, 80, 8)]
    if tier == "quick":
        sweep = rnd.sample(sweep, 36)
    for j, p in enumerate(poolprogs):
        for (f, l) in (sweep if tier == "thorough" else sweep[j % 3::3]):
            cid = "z%d.%d.%d" % (j, f, l)
            pmeta[cid] = (j, (f, l))
            cases.append((cid, "types=elf prefix=%s/ imgmax=4000" % fdir, render(p, 0, (f, l))))
    # include cuts (GenSym!Cuts): a part of the program moved into an include file, the reference is that of the program
    incs = C.parse_payload(g.lines, "INC ")
    if len(incs) < 5000:
        raise C.InfraError("only %d programs with include cuts" % len(incs))
    incs.sort(key=lambda r: json.dumps(r["prog"], sort_keys=True))
    imeta, icases = {}, []
    for q, r in enumerate(incs if tier == "thorough" else rnd.sample(incs, 2500)):
        p = r["prog"]
        opens = [k for k, st in enumerate(p, 1) if st["k"] in ("scope", "func")]
        closes = [k for k, st in enumerate(p, 1) if st["k"] in ("ends", "endf")]
        inside = [c for c in r["cuts"] if opens and closes and opens[0] < c[0] and c[1] <= closes[0]]
        # one cut inside the block (an empty one every other time), one anywhere
        empties = [c for c in inside if c[0] == c[1]]
        picks = [rnd.choice(empties if (q % 2 == 0 and empties) else inside)] if inside else []
        picks.append(rnd.choice(r["cuts"]))
        if tier == "thorough":
            picks = inside + [c for c in r["cuts"] if c not in inside][:3]
        for c in picks:
            cid = "i%d.%d.%d" % (q, c[0], c[1])
            if cid in imeta:
                continue
            imeta[cid] = (p, c)
            icases.append((cid, "", render(p, cut=tuple(c), incpath=os.path.join(fdir, cid + ".inc"))))
    obs = C.conform_parallel(vdir, "file", cases, rd, "c11", 20, nproc=C.NCPU)
    from concurrent.futures import ThreadPoolExecutor
    with ThreadPoolExecutor(C.NCPU) as ex:
        obs += list(ex.map(exe_case, [(os.path.join(vdir, "naken_asm"), fdir, c[0], c[2]) for c in icases]))
    cases += icases
    byid = {o["case"]: o for o in obs}
    c_src = {c[0]: c[2] for c in cases if c[0] in imeta}
    events = []
    for c in cases:
        o = byid.get(c[0])
        if o is None:
            raise C.InfraError("missing " + c[0])
        if c[0] in imeta:
            p, cut = imeta[c[0]]
            ob = observe(o, None, p, 0)
            if ob["k"] in ("crash", "badelf"):
                chk.report("sym:%s:include:%s" % (ob["k"], json.dumps(p)[:120]), "%s on a program with an include cut %s" % (ob, cut), dict(source=c[2], observed=ob))
            else:
                events.append({"id": c[0], "prog": p, "obs": ob})
            continue
        if c[0] in pmeta:
            j, pool = pmeta[c[0]]
            ob = observe(o, None, poolprogs[j], 0, pool)
            if ob["k"] in ("crash", "badelf"):
                chk.report("sym:%s:pool:%s" % (ob["k"], json.dumps(poolprogs[j])[:120]), "%s on a pool sweep program" % ob, dict(source=c[2][-600:], observed=ob))
            elif not any(w >= (1 << 31) for w in ob["words"]):
                events.append({"id": c[0], "prog": poolprogs[j], "obs": ob})
            continue
        i, scale = meta[c[0]]
        ob = observe(o, None, progs[i], scale)
        if ob["k"] in ("crash", "badelf"):
            chk.report("sym:%s:%s" % (ob["k"], json.dumps(progs[i])[:150]), "%s on\n%s" % (ob, c[2][:400]), dict(source=c[2][:2000], observed=ob))
            continue
        if any(w >= (1 << 31) for w in ob["words"]):
            continue
        events.append({"id": c[0], "prog": progs[i], "obs": ob})
    canaries = set()
    oks = [e for e in events if e["obs"]["k"] == "ok" and e["obs"]["words"] and not any(s["k"] in ("set", "scope", "func") for s in e["prog"])]
    for e in rnd.sample(oks, min(20, len(oks))):
        c = json.loads(json.dumps(e))
        c["id"] = "canary." + e["id"]
        c["obs"]["words"][0] += 4
        canaries.add(c["id"])
        events.append(c)
    verdicts, runs = C.tlc_accept("TraceSym", "trace_Sym.cfg", events, rd, "c11", heap="3g")
    for r in runs:
        chk.add_tlc(r)
    bad = {v["id"]: v for v in verdicts}
    missed = [c for c in canaries if c not in bad]
    if missed:
        raise C.InfraError("canaries accepted: %s" % missed[:3])
    for cid in sorted(bad):
        if cid in pmeta:
            j, pool = pmeta[cid]
            chk.report("sym:pool:%s:%s" % (bad[cid]["why"].split(" ")[0], json.dumps(poolprogs[j], separators=(",", ":"))[:140]),
                       "%s (after %d fillers and one of %d characters)\n%s" % (bad[cid]["why"], pool[0], pool[1] + 7, render(poolprogs[j])),
                       dict(source=render(poolprogs[j], 0, pool)[-1500:], fillers=pool[0], adjust=pool[1], why=bad[cid]["why"]))
    seen_inc = set()
    for cid in sorted(bad):
        if cid in imeta:
            p, cut = imeta[cid]
            where = "inside the block" if any(st["k"] in ("scope", "func") for st in p[:cut[0] - 1]) and any(st["k"] in ("ends", "endf") for st in p[cut[1] - 1:]) else "outside a block"
            key = "sym:include:%s:%s:%s" % (bad[cid]["why"].split(" ")[0], where, "empty file" if cut[0] == cut[1] else "statements")
            if key in seen_inc:
                continue
            seen_inc.add(key)
            chk.report(key, "%s: statements %d..%d of this program are in an include file (%s)\n%s" % (bad[cid]["why"], cut[0], cut[1] - 1, where, render(p)),
                       dict(source=c_src[cid], include=open(os.path.join(fdir, cid + ".inc")).read(), why=bad[cid]["why"]))
    fails = sorted((cid for cid in bad if cid not in canaries and cid not in pmeta and cid not in imeta), key=lambda c: len(progs[meta[c][0]]))
    minimal = []
    for cid in fails:
        i, scale = meta[cid]
        p = progs[i]
        # attribute to the shortest failing program that is a contiguous part of this one
        key = None
        for m in minimal:
            L = len(m)
            if any(p[j:j + L] == m for j in range(len(p) - L + 1)):
                key = m
                break
        if key is None:
            minimal.append(p)
            key = p
        chk.report("sym:%s:%s%s" % (bad[cid]["why"].split(" ")[0] + bad[cid]["why"][-12:], json.dumps(key, separators=(",", ":")), "@scaled" if scale and key is p and False else ""),
                   "%s\n%s" % (bad[cid]["why"], render(p)), dict(source=render(p, scale)[:3000], why=bad[cid]["why"], observed=observe.__name__))
    chk.cov.update(dict(
        evaluations=len(cases), generated=total,
        distinct_nontrivial=len([p for p in progs if any(s["k"] == "use" for s in p) and any(s["k"] in ("scope", "func") for s in p)]),
        rule="TLC enumerates every program of up to 4 (thorough 5) statements over 13 statement kinds; quick runs all of length <= 3 "
             "and 12,000 seeded longer ones; a seeded subset is rendered with 200-character names after 400 filler labels (several "
             "symbol pools); non-trivial = has a use and a scope/function; distinct by abstract program",
        traces_validated_against_impl=len(events) - len(canaries), scaled=nscaled, pool_sweep=len(pmeta), include_cuts=len(imeta),
        canaries=dict(injected=len(canaries), rejected=len(canaries)), exhaustive=(tier == "thorough")))
    chk.samples = [render(p) for p in rnd.sample(progs, 3)]
    chk.assumptions = [".set mixed with labels of the same name, a .set used before its first assignment and .set inside a scope are "
                       "left unconstrained (the property does not settle them)"]
    return chk.finish()
