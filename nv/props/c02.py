"""C02: label addresses and sizes identical in both passes.

MCTwoPass (TLC): the flag-byte protocol is sound for every program of up to 6
statements without scopes; with scopes TLC exhibits the drift (witness).
GenTwoPass programs are assembled by the real code on carriers with a
variable-length instruction; after every label the rendered program contains
`.dc32 $, <label>, marker`, so the image itself records the pass-2 location and
the pass-1 value of each label; TraceTwoPass classifies each run."""
import json
import random

from .. import common as C

PROP = "C02"
MARK = 0x5AA5C33C

# cpu, instruction template, big endian, size rule (set, lt, short, long), modelled by TwoPass.tla
CARRIERS = [
    ("msp430", "mov.w #{X}, r5", False, dict(set=[0, 1, 2, 4, 8, -1], lt=0, short=2, long=4), True),
    ("6502", "lda {X}", False, dict(set=[], lt=256, short=2, long=3), True),
    ("65816", "lda {X}", False, dict(set=[], lt=256, short=2, long=3), False),
    ("68hc08", "lda {X}", True, dict(set=[], lt=256, short=2, long=3), False),
    ("stm8", "ld A, {X}", True, dict(set=[], lt=256, short=2, long=3), False),
    ("mips", "li $t0, {X}", True, dict(set=[], lt=65536, short=4, long=8), False),
    ("riscv", "li t0, {X}", False, dict(set=[], lt=2048, short=4, long=8), False),
    ("68000", "move.w {X}, d0", True, dict(set=[], lt=32768, short=4, long=6), False),
    ("68000", "move.w ({X}), d0", True, dict(set=[], lt=65536, short=4, long=6), False),
    ("6809", "lda {X},x", True, dict(set=[], lt=128, short=2, long=3), False),
    ("z80", "ld a, ({X})", False, dict(set=[], lt=65536, short=3, long=3), False),
    # with -optimize an index of 0 becomes @Rn (2 bytes instead of 4)
    ("msp430", "mov.w {X}(r4), r5", False, dict(set=[0], lt=0, short=2, long=4), False),
    # the constant generator of PUSH (#4 and #8 are subject to the CPU4 erratum, .msp430_cpu4)
    ("msp430", "push #{X}", False, dict(set=[0, 1, 2, 4, 8, -1], lt=0, short=2, long=4), False),
]
# carriers (by index) assembled with the -optimize option
OPTIMIZE = {11}


def render(prog, cpu, tmpl):
    out = [".%s" % cpu]
    for s in prog:
        k = s["k"]
        if k == "label":
            out.append("%s:" % s["n"])
            out.append(".dc32 $, %s, 0x%x" % (s["n"], MARK))
        elif k == "insn":
            r = s["r"]
            out.append("  " + tmpl.replace("{X}", str(r["c"]) if "c" in r else r["s"]))
        elif k == "set":
            out.append(".set %s = %d" % (s["n"], s["v"]))
        elif k == "mode":
            out.append("." + s["d"])
        elif k == "scope":
            out.append(".scope")
        elif k == "ends":
            out.append(".ends")
        elif k == "data":
            out.append(".resb %d" % s["sz"] if s["sz"] > 8 else ".db " + ", ".join(["0"] * s["sz"]))
    return "\n".join(out) + "\n"


def probes(rec, prog, big):
    """decode the label probes from the image: (here, bound) precede each marker"""
    order = "big" if big else "little"
    mark = MARK.to_bytes(4, order)
    found = []
    for a, h in rec["img"]:
        b = bytes.fromhex(h)
        i = 8
        while i + 4 <= len(b):
            if b[i:i + 4] == mark:
                found.append((a + i - 8, int.from_bytes(b[i - 8:i - 4], order), int.from_bytes(b[i - 4:i], order)))
                i += 4
            else:
                i += 1
    found.sort()
    labels = [s["n"] for s in prog if s["k"] == "label"]
    if len(found) != len(labels):
        return None
    return [{"n": n, "here": f[1], "bound": f[2], "at": f[0]} for n, f in zip(labels, found)]


def run(tier, seed):
    chk = C.Check(PROP, tier, seed, "model_checking")
    vdir = C.ensure_build("rel")
    rd = chk.rundir
    rnd = random.Random(seed)

    m1 = C.tlc("MCTwoPass", "mc_TwoPass_flat.cfg", rd, workers=C.NCPU, heap="10g")
    chk.add_tlc(m1)
    if not m1.ok:
        raise C.InfraError("MCTwoPass flat: LabelStable violated: the flag-byte protocol model is unsound\n" + m1.out[-2000:])
    m2 = C.tlc("MCTwoPass", "mc_TwoPass_full.cfg", rd, workers=C.NCPU, heap="10g", expect_violation="LabelStable")
    chk.add_tlc(m2)
    scope_witness = m2.violated == "LabelStable"

    g1 = C.tlc("GenTwoPass", "gen_TwoPass_bfs.cfg", rd, workers=8, heap="6g")
    g2 = C.tlc("GenTwoPass", "gen_TwoPass_sim.cfg", rd, workers=4, heap="6g",
               simulate=(500 if tier == "quick" else 8000), depth=16, seed=seed)
    g3 = C.tlc("GenTwoPass", "gen_TwoPass_small_%s.cfg" % tier, rd, workers=8, heap="6g")
    chk.add_tlc(g1)
    chk.add_tlc(g2)
    chk.add_tlc(g3)
    progs = []
    seen = set()
    for p in C.parse_payload(g1.lines, "CASE ") + C.parse_payload(g3.lines, "CASE ") + C.parse_payload(g2.lines, "CASE "):
        k = json.dumps(p, sort_keys=True)
        if k not in seen and any(s["k"] == "label" for s in p):
            seen.add(k)
            progs.append(p)
    if len(progs) < 3000:
        raise C.InfraError("only %d programs generated" % len(progs))

    cases, meta = [], {}
    for i, p in enumerate(progs):
        if tier == "thorough" or len(p) > 3:
            cs = CARRIERS
        else:
            cs = CARRIERS[:2] + [CARRIERS[2 + i % (len(CARRIERS) - 2)]]
        for cpu, tmpl, big, rule, modelled in cs:
            cid = "%d.%s.%d" % (i, cpu, CARRIERS.index((cpu, tmpl, big, rule, modelled)))
            src = render(p, cpu, tmpl)
            meta[cid] = (i, cpu, big, rule, modelled, src)
            opt = " optimize=1" if CARRIERS.index((cpu, tmpl, big, rule, modelled)) in OPTIMIZE else ""
            cases.append((cid, "imgmax=8192" + opt, src))
            # the same program behind a directive that declares the image's bounds before anything is placed
            # (.high_address 0 / .low_address 0xffff0: every later write widens them again; for labels and sizes they
            # are no statements at all, TwoPass.tla has nothing to say about them)
            if (i + len(cases)) % (1 if tier == "thorough" else 5) == 0:
                bl = (".high_address 0", ".low_address 0xffff0")[i % 2]
                lines = src.split("\n")
                cidb = cid + ".bd"
                srcb = "\n".join(lines[:1] + [bl] + lines[1:])
                meta[cidb] = (i, cpu, big, rule, modelled, srcb)
                cases.append((cidb, "imgmax=8192" + opt, srcb))
    # branch family: every `L: insn ..., L` form of tests/comparison (45 CPUs) with a forward reference over a gap of
    # 0 / 100 / 300 / 40000 / 200000 bytes and a backward reference back over it; the probes behind the labels show
    # whether an instruction changed its size between the passes (no size rule is modelled: here = bound is the clause)
    import re
    from .. import codec as K
    cpuinfo = {c["name"]: c for c in K.cpu_list(vdir)}
    forms = {}
    for cpu, text in K.corpus(set(cpuinfo)):
        m = re.match(r"^([A-Za-z_]\w*):\s*(.+)$", text)
        if m and re.search(r"(?<![\w.$])%s(?![\w])" % re.escape(m.group(1)), m.group(2)):
            t = re.sub(r"(?<![\w.$])%s(?![\w])" % re.escape(m.group(1)), "{X}", m.group(2))
            if t not in forms.setdefault(cpu, []):
                forms[cpu].append(t)
    bprog = [{"k": "insn", "r": {"s": "fwd"}}, {"k": "label", "n": "after"}, {"k": "data", "sz": 0}, {"k": "label", "n": "fwd"},
             {"k": "insn", "r": {"s": "after"}}, {"k": "label", "n": "aft2"}]
    bmeta = {}
    for cpu, ts in sorted(forms.items()):
        pick = ts if tier == "thorough" else ts[:4] + rnd.sample(ts[4:], max(0, min(8, len(ts) - 4)))
        for ti, t in enumerate(pick):
            for gap in (0, 100, 300, 40000, 200000):
                cid = "b.%s.%d.%d" % (cpu, ts.index(t), gap)
                lines = [".%s" % cpu, ".org 0x1000", "  " + t.replace("{X}", "fwd"), "after:", ".dc32 $, after, 0x%x" % MARK]
                if gap:
                    lines.append(".resb %d" % gap)
                lines += ["fwd:", ".dc32 $, fwd, 0x%x" % MARK, "  " + t.replace("{X}", "after"), "aft2:", ".dc32 $, aft2, 0x%x" % MARK]
                src = "\n".join(lines) + "\n"
                bmeta[cid] = (cpu, t, gap, src)
                cases.append((cid, "imgmax=8192", src))
    # operand family: every corpus form with a numeric operand, the operand replaced by a label that is defined behind
    # the instruction (low in the address space: a value that fits every short form); the probes behind the instruction
    # show whether it kept its pass-1 size
    oprog = [{"k": "insn", "r": {"s": "fwd"}}, {"k": "label", "n": "after"}, {"k": "label", "n": "fwd"}]
    ometa = {}
    oforms = {}
    for cpu, text in K.corpus(set(cpuinfo)):
        if ":" not in text and K.NUM.search(text):
            oforms.setdefault(cpu, [])
            if text not in oforms[cpu]:
                oforms[cpu].append(text)
    for cpu, ts in sorted(oforms.items()):
        pick = ts if tier == "thorough" else rnd.sample(ts, min(len(ts), 30))
        for t in pick:
            for pos, variants in K.probe_texts(t, ["fwd"]):
                cid = "f.%s.%d.%d" % (cpu, ts.index(t), pos)
                src = "\n".join([".%s" % cpu, ".org 0x10", "  " + variants[0], "after:", ".dc32 $, after, 0x%x" % MARK, "fwd:", ".dc32 $, fwd, 0x%x" % MARK]) + "\n"
                ometa[cid] = (cpu, t, pos, src)
                cases.append((cid, "imgmax=8192", src))
    obs = C.conform_parallel(vdir, "asm", cases, rd, "c02")
    byid = {o["case"]: o for o in obs}
    if len(byid) != len(cases):
        raise C.InfraError("conform returned %d of %d" % (len(byid), len(cases)))

    events = []
    accepted = {}
    for cid, (i, cpu, big, rule, modelled, src) in meta.items():
        rec = byid[cid]
        if rec.get("died"):
            chk.report("src:" + src, "died on\n" + src, dict(source=src, observed=rec))
            continue
        if rec["r1"] != 0 or rec["r2"] != 0:
            ob = {"k": "rej", "probes": []}
        else:
            pr = probes(rec, progs[i], big)
            if pr is None:
                # probes cannot be located (overlapping data): not decidable by this observation
                continue
            ob = {"k": "ok", "probes": pr}
            accepted[cpu] = accepted.get(cpu, 0) + 1
        events.append({"id": cid, "prog": progs[i], "rule": rule, "modelled": modelled, "obs": ob})

    baccepted = {}
    for cid, (cpu, t, gap, src) in bmeta.items():
        rec = byid[cid]
        if rec.get("died"):
            chk.report("src:" + src, "died on\n" + src, dict(source=src, observed=rec))
            continue
        if rec["r1"] != 0 or rec["r2"] != 0:
            continue            # out of range, or a form that does not take a plain address: C02 speaks about accepted programs
        pr = probes(rec, bprog, cpuinfo[cpu]["endian"] == 1)
        if pr is None:
            continue
        baccepted[cpu] = baccepted.get(cpu, 0) + 1
        events.append({"id": cid, "prog": bprog, "rule": dict(set=[], lt=0, short=0, long=0), "modelled": False, "obs": {"k": "ok", "probes": pr}})
    oaccepted = {}
    for cid, (cpu, t, pos, src) in ometa.items():
        rec = byid[cid]
        if rec.get("died"):
            chk.report("src:" + src, "died on\n" + src, dict(source=src, observed=rec))
            continue
        if rec["r1"] != 0 or rec["r2"] != 0:
            continue            # the form does not take a label there: C02 speaks about accepted programs
        pr = probes(rec, oprog, cpuinfo[cpu]["endian"] == 1)
        if pr is None:
            continue
        oaccepted[cpu] = oaccepted.get(cpu, 0) + 1
        events.append({"id": cid, "prog": oprog, "rule": dict(set=[], lt=0, short=0, long=0), "modelled": False, "obs": {"k": "ok", "probes": pr}})
    oks = [e for e in events if e["obs"]["k"] == "ok" and not any(s["k"] == "scope" for s in e["prog"])]
    canaries = set()
    for e in rnd.sample(oks, min(24, len(oks))):
        c = json.loads(json.dumps(e))
        c["id"] = "canary." + e["id"]
        c["obs"]["probes"][rnd.randrange(len(c["obs"]["probes"]))]["here"] += 2
        canaries.add(c["id"])
        events.append(c)

    verdicts, runs = C.tlc_accept("TraceTwoPass", "trace_TwoPass.cfg", events, rd, "c02")
    for r in runs:
        chk.add_tlc(r)
    bad = {v["id"]: v for v in verdicts}
    missed = [c for c in canaries if c not in bad or bad[c]["vd"] != "violation"]
    if missed:
        raise C.InfraError("canaries accepted: %s" % missed[:3])

    stale = 0
    ev_by_id = {e["id"]: e for e in events}
    for cid, v in sorted(bad.items()):
        if cid in canaries:
            continue
        if cid in ometa:
            cpu, t, pos, src = ometa[cid]
            # (one class per CPU and operand shape: the mnemonics that share an addressing mode share its sizing code)
            chk.report("TwoPass.OperandForm@%s:%s@%d" % (cpu, " ".join(K.shape(t).split()[1:]), pos),
                       "labels %s are placed in pass 2 where they were not bound in pass 1 (.%s, `%s` with operand %d a label defined behind it)\n%s" % (v["drift"], cpu, t, pos, src),
                       dict(source=src, cpu=cpu, drift=v.get("drift"), probes=ev_by_id[cid]["obs"]["probes"]))
            continue
        if cid in bmeta:
            cpu, t, gap, src = bmeta[cid]
            chk.report("TwoPass.BranchForm@%s:%s" % (cpu, t),
                       "labels %s are placed in pass 2 where they were not bound in pass 1 (.%s, `%s` over a gap of %d bytes)\n%s" % (v["drift"], cpu, t, gap, src),
                       dict(source=src, cpu=cpu, drift=v.get("drift"), probes=ev_by_id[cid]["obs"]["probes"]))
            continue
        i, cpu, big, rule, modelled, src = meta[cid]
        payload = dict(source=src, cpu=cpu, drift=v.get("drift"), predicted=v.get("predicted"),
                       probes=ev_by_id[cid]["obs"]["probes"])
        if v["vd"] == "stale":
            stale += 1
        elif v["vd"] == "dev":
            chk.report("TwoPass.ScopeLookupDiffersBetweenPasses",
                       "labels %s are placed in pass 2 where they were not bound in pass 1 (.%s)\n%s" % (v["drift"], cpu, src), payload)
        else:
            # other carriers: the same scope defect is keyed per carrier only when the program uses scopes
            def forward_ref(p):
                defined = set()
                for st in p:
                    if st["k"] in ("label", "set"):         # (a name assigned by .set is known when the instruction is met)
                        defined.add(st["n"])
                    elif st["k"] == "insn" and "s" in st["r"] and st["r"]["s"] not in defined:
                        return True
                return False
            if not modelled and forward_ref(progs[i]):
                tm = CARRIERS[int(cid.split(".")[2])][1]
                chk.report("TwoPass.ForwardReferenceShrinksInPass2@%s:%s" % (cpu, tm),
                           "labels %s drift between passes on .%s (forward reference, no scopes)\n%s" % (v["drift"], cpu, src), payload)
            elif any(s["k"] == "scope" for s in progs[i]) and not modelled:
                chk.report("TwoPass.ScopeLookupDiffersBetweenPasses@" + cpu,
                           "labels %s drift between passes on .%s\n%s" % (v["drift"], cpu, src), payload)
            else:
                chk.report("src:" + src, "labels %s drift between passes on .%s\n%s" % (v["drift"], cpu, src), payload)
    if stale:
        C.log("NOTE [%s] %d cases: model predicts drift but the code is stable" % (PROP, stale))

    weak = [c[0] for c in CARRIERS if accepted.get(c[0], 0) < 50]
    chk.cov.update(dict(
        evaluations=len(cases), branch_family=dict(programs=len(bmeta), accepted_per_cpu=baccepted), operand_family=dict(programs=len(ometa), accepted_per_cpu=oaccepted),
        distinct_nontrivial=len([p for p in progs if sum(1 for s in p if s["k"] in ("insn", "label")) >= 2]),
        rule="TLC enumerates every program of up to 3 statements over a 24-statement alphabet and of up to 4 (thorough 5) "
             "over an 11-statement alphabet with scopes (labels, "
             "constant/symbol operands around the short/long boundary, .set, .scope/.ends, data) and draws "
             "longer ones; kept if they contain a label; non-trivial = at least two labels/instructions",
        traces_validated_against_impl=len(events) - len(canaries),
        accepted_per_carrier=accepted, weak_carriers=weak,
        scope_witness_found_by_tlc=scope_witness,
        canaries=dict(injected=len(canaries), rejected=len(canaries)),
        stale_model_deviation=stale, exhaustive=False))
    chk.samples = [meta[c][5] for c in rnd.sample(sorted(meta), 3)]
    chk.assumptions = ["label probes `.dc32 $, L, marker` are part of every rendered program",
                       "size rules in CARRIERS are used only to attribute the scope-lookup finding"]
    return chk.finish()
