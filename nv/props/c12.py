"""C12: failure is atomic (diagnostics, exit status and output file agree).

Proc.tla is the process-level state machine; MCProc checks Atomic/NeverSilent on
it; GenProc enumerates (base program, corruption kind, position, wrapping,
output type, stale output planted); every case runs the real naken_asm
executable and TraceProc accepts the observation (status, diagnostics, file)
iff it is a final state of Proc."""
import json
import os
import random
import re
import subprocess
from concurrent.futures import ThreadPoolExecutor

from .. import common as C

PROP = "C12"

BASES = {
    1: [".org 0x100", "la:", ".db 1, 2, 3", ".dw 0x1234", "lb:", ".dc32 la", ".asciiz \"hi\"", ".dc16 lb"],
    2: [".org 0x200", "start:", "  mov.w #1, r5", "  add.w r5, r6", "  cmp.w #100, r6", "  jne start", "  mov.w &0x120, r7", "  ret"],
    3: [".define KVAL 5", ".macro inc2(x)", "  add.w #x, r7", ".endm", ".org 0x300", "main:", "  inc2(KVAL)", ".db KVAL", "  inc2(3)", "done:", ".dw done"],
    4: [".org 0xfff0", "v0:", ".dc32 0x11223344", ".resb 8", ".align 32", "v1:", ".ascii \"abcdefghijklmnop\"", ".dc64 v1", ".org 0x10010", ".db 9"],
}

BAD = {
    "unknown_mnemonic": ["  bogus r1, r2"],
    "missing_operand": ["  mov.w r5"],
    "extra_operand": ["  mov.w r4, r5, r6"],
    "undefined_symbol": ["  mov.w #undefined_sym_q, r5"],
    "undefined_symbol_data": [".dc32 undefined_sym_q"],
    "db_range": [".db 300"],
    "dw_range": [".dw 70000"],
    "org_no_operand": [".org"],
    "if_malformed": [".if 1 ==", ".db 1", ".endif"],
    "if_undefined_name": [".if UNDEFINED_NAME_Q", ".db 1", ".endif"],
    "else_without_if": [".else"],
    "endif_without_if": [".endif"],
    "ifdef_unterminated": [".ifdef NOT_DEFINED_Q", ".db 1"],
    "ifndef_unterminated": [".ifndef NOT_DEFINED_Q", ".db 1"],
    "if0_unterminated": [".if 0", ".db 1"],
    "ifdef_no_name": [".ifdef", ".db 1", ".endif"],
    "macro_unterminated": [".macro never_closed_q", "  mov.w r4, r5"],
    "quote_unterminated": [".db \"abc"],
    "comment_unterminated": ["/* never closed"],
    "duplicate_label": ["dup_q:", ".db 1", "dup_q:"],
    "unknown_directive": [".bogusdir 1"],
    "include_missing": [".include \"no_such_file_q.inc\""],
    "expr_trailing_operator": [".dc32 1 +"],
    "expr_unclosed_paren": [".dc32 (1"],
    "expr_div_zero": [".dc32 5 / 0"],
    "repeat_unterminated": [".repeat 3", ".db 1"],
    "endr_without_repeat": [".endr"],
    "align_too_large": [".align_bytes 4096"],
    "fill_zero_count": [".data_fill 1, 0"],
    "label_is_macro": [".macro taken_q", ".db 1", ".endm", "taken_q:"],
    "bad_register": ["  mov.w r99, r5"],
    "set_no_value": [".set foo_q ="],
    "binfile_missing": [".binfile \"no_such_file_q.bin\""],
    "macro_too_few_args": [".macro two_q(a, b)", ".db a, b", ".endm", "two_q(1)"],
    "macro_too_many_args": [".macro two_r(a, b)", ".db a, b", ".endm", "two_r(1, 2, 3)"],
    "macro_no_close_paren": [".macro two_s(a, b)", ".db a, b", ".endm", "two_s(1, 2"],
    "macro_args_missing": [".macro two_t(a, b)", ".db a, b", ".endm", "two_t"],
    "duplicate_define": [".define DUP_Q 1", ".define DUP_Q 2"],
    "duplicate_macro": [".macro dup_m_q", ".db 1", ".endm", ".macro dup_m_q", ".db 2", ".endm"],
    "duplicate_define_macro": [".define DUP_R 1", ".macro DUP_R", ".db 2", ".endm"],
    "operand_paren_commas": ["  mov.w 2(r5,,r6"],
}

# combinations that can yield a VALID program and are therefore not corruptions
EXCLUDE = {("else_without_if", "if1"), ("else_without_if", "ifdef_else"), ("endif_without_if", "if1"),
           ("endif_without_if", "ifdef_else"), ("duplicate_label", "scope"), ("macro_unterminated", "macro"),
           ("label_is_macro", "macro"), ("label_is_macro", "scope"), ("endr_without_repeat", "repeat"),
           ("macro_too_few_args", "macro"), ("macro_too_many_args", "macro"), ("macro_no_close_paren", "macro"),
           ("macro_args_missing", "macro"), ("duplicate_macro", "macro"), ("duplicate_define_macro", "macro"),
           # a block assembled twice defines its names twice
           ("duplicate_define", "repeat"), ("duplicate_macro", "repeat"), ("duplicate_define_macro", "repeat"),
           # a macro body is stored, not assembled, until invoked; structural directives in it are out of scope
           ("comment_unterminated", "macro"), ("quote_unterminated", "macro")}


def wrap(lines, w):
    if w == "none":
        return [], lines
    if w == "if1":
        return [], [".if 1"] + lines + [".endif"]
    if w == "ifdef_else":
        return [], [".ifdef NOT_DEFINED_W"] + [".db 0"] + [".else"] + lines + [".endif"]
    if w == "macro":
        return [".macro badm_w"] + lines + [".endm"], ["badm_w"]
    if w == "repeat":
        return [], [".repeat 2"] + lines + [".endr"]
    if w == "scope":
        return [], [".scope"] + lines + [".ends"]
    raise ValueError(w)


def render(c):
    base = list(BASES[c["base"]])
    if c["kind"] == "none":
        return ".msp430\n" + "\n".join(base) + "\n"
    pre, mid = wrap(BAD[c["kind"]], c["wrap"])
    pos = {"first": 0, "middle": len(base) // 2, "last": len(base)}[c["pos"]]
    # never split a macro definition of the base program
    if c["base"] == 3 and 1 <= pos <= 3:
        pos = 4
    lines = base[:pos] + mid + base[pos:]
    return ".msp430\n" + "\n".join(pre + lines) + "\n"


EXT = {"hex": "hex", "bin": "bin", "srec": "srec", "elf": "elf", "wdc": "wdc", "uf2": "uf2"}


def file_state(path, typ, planted):
    if not os.path.exists(path):
        return "absent"
    data = open(path, "rb").read()
    if planted is not None and data == planted:
        return "stale"
    ok = False
    if typ == "hex":
        lines = data.decode("latin-1").split()
        ok = bool(lines) and lines[-1] == ":00000001FF" and all(l.startswith(":") and len(l) >= 11 for l in lines)
        if ok:
            for l in lines:
                try:
                    b = bytes.fromhex(l[1:])
                except ValueError:
                    ok = False
                    break
                if sum(b) & 0xff or b[0] != len(b) - 5:
                    ok = False
                    break
    elif typ == "srec":
        lines = data.decode("latin-1").split()
        ok = bool(lines) and lines[-1][:2] in ("S9", "S8", "S7") and all(l[0] == "S" for l in lines)
    elif typ == "elf":
        ok = data[:4] == b"\x7fELF" and len(data) > 52
    elif typ == "bin":
        ok = True
    elif typ == "wdc":
        ok = data[:1] == b"Z"
    elif typ == "uf2":
        ok = len(data) % 512 == 0 and len(data) > 0 and data[:4] == b"UF2\n"
    return "complete" if ok else "partial"


DIAG = re.compile(r"Error|error:|Cannot open|Couldn't|\*\*\* Failed|\*\* Errors|Unterminated|Missing|not defined|already defined")


def run_one(args):
    exe, d, cid, c, src = args
    sp = os.path.join(d, "%s.asm" % cid)
    op = os.path.join(d, "%s.%s" % (cid, EXT[c["type"]]))
    with open(sp, "w") as fh:
        fh.write(src)
    planted = None
    extra = []
    if c.get("how"):
        # the output path is a symbolic link to the (stale) image of an earlier run
        planted = b"STALE OUTPUT FROM AN EARLIER RUN\n"
        tdir = os.path.join(d, cid + ".dir") if c["how"] == "symlink_subdir" else d
        os.makedirs(tdir, exist_ok=True)
        target = os.path.join(tdir, cid + ".target")
        with open(target, "wb") as fh:
            fh.write(planted)
        os.symlink(os.path.relpath(target, d), op)
        extra = [target]
    elif c["stale"]:
        planted = b"STALE OUTPUT FROM AN EARLIER RUN\n"
        with open(op, "wb") as fh:
            fh.write(planted)
    try:
        p = subprocess.run([exe, "-type", c["type"], "-o", op, sp], cwd=d, stdout=subprocess.PIPE,
                           stderr=subprocess.STDOUT, timeout=20)
        rc = p.returncode
        out = p.stdout.decode("latin-1")
    except subprocess.TimeoutExpired:
        rc, out = -999, ""
    errs = sum(1 for l in out.splitlines() if DIAG.search(l))
    st = file_state(op, c["type"], planted)
    for f in [sp, op] + extra:
        if os.path.lexists(f):
            os.unlink(f)
    return cid, {"status": rc, "errs": min(errs, 3), "file": st}, out[-600:]


def cpu_family(vdir, cpucases, tier, rnd):
    """the per-CPU cases: (case record, source) for every CPU whose uncorrupted program is accepted by the caller's calibration"""
    from .. import codec as K
    cpus = [c["name"] for c in K.cpu_list(vdir)]
    corpus = {}
    for cpu, text in K.corpus(set(cpus)):
        if ":" in text or "," not in text and len(corpus.get(cpu, [])) > 1:
            continue
        corpus.setdefault(cpu, [])
        if len(corpus[cpu]) < 3 and text not in corpus[cpu]:
            corpus[cpu].append(text)
    out = []
    types = ["hex", "bin", "srec", "elf"]
    for ci, cpu in enumerate(cpus):
        insns = corpus.get(cpu, [])
        base = [".org 0x100", "la:"] + ["  " + t for t in insns] + [".db 1, 2, 3, 4", "lb:"] + ["  " + t for t in insns[:1]] + [".db 5, 6, 7, 8"]
        mn = insns[0].split()[0] if insns else "nop"
        bad = {"unknown_mnemonic": ["  bogus_q 1, 2"], "nine_operands": ["  %s 1, 2, 3, 4, 5, 6, 7, 8, 9" % mn],
               "unknown_mnemonic_in_if": [".if 1", "  bogus_q 1, 2", ".endif"], "db_range": [".db 300"]}
        for k, c in enumerate(cpucases):
            # quick: every (kind, terminator) of every CPU once, position and stale file by rotation
            if tier == "quick" and c["kind"] != "none" and (c["pos"], c["stale"]) != (["first", "middle", "last"][(ci + len(c["kind"]) + len(c["term"])) % 3], (ci + len(c["term"])) % 2 == 0):
                continue
            if c["kind"] == "none" and (c["pos"] != "first" or c["stale"]):
                continue
            if c["kind"] == "nine_operands" and not insns:
                continue
            lines = list(base)
            if c["kind"] != "none":
                pos = {"first": 2, "middle": len(base) // 2, "last": len(base)}[c["pos"]]
                lines = base[:pos] + bad[c["kind"]] + base[pos:]
            lines += {"eof": [], "end": ["end"], "dotend": [".end"]}[c["term"]]
            rec = dict(c, cpu=cpu, base=0, wrap="none", type=types[(ci + k) % len(types)])
            out.append((rec, ".%s\n" % cpu + "\n".join(lines) + "\n"))
    return out


def run(tier, seed):
    chk = C.Check(PROP, tier, seed, "model_checking")
    vdir = C.ensure_build("rel")
    rd = chk.rundir
    rnd = random.Random(seed)

    mc = C.tlc("MCProc", "mc_Proc.cfg", rd, workers=2)
    chk.add_tlc(mc)
    if not mc.ok:
        raise C.InfraError("MCProc: %s violated\n%s" % (mc.violated, mc.out[-1500:]))
    g = C.tlc("GenProc", "gen_Proc_%s.cfg" % tier, rd, workers=4, heap="4g", prefixes=("CASE ", "CPUCASES ", "LINKCASES "))
    chk.add_tlc(g)
    cpp = C.parse_payload(g.lines, "CPUCASES ")
    if not cpp or len(cpp[0]) < 60:
        raise C.InfraError("no per-CPU cases")
    cpucases = sorted(cpp[0], key=lambda x: json.dumps(x, sort_keys=True))
    cs = [c for c in C.parse_payload(g.lines, "CASE ")
          if (c["kind"], c["wrap"]) not in EXCLUDE
          and not (c["kind"] == "none" and (c["wrap"] != "none" or c["pos"] != "first"))]
    if len(cs) < 2000:
        raise C.InfraError("only %d cases" % len(cs))

    exe = os.path.join(vdir, "naken_asm")
    wd = os.path.join(rd, "w")
    os.makedirs(wd)
    jobs = []
    srcs = {}
    lk = C.parse_payload(g.lines, "LINKCASES ")
    if not lk or len(lk[0]) < 20:
        raise C.InfraError("no link cases")
    linkcases = [dict(x, base=1 + (k % 3), wrap="none", stale=True) for k, x in enumerate(sorted(lk[0], key=lambda y: json.dumps(y, sort_keys=True)))]
    nlink0 = len(cs)
    cs = cs + linkcases
    fam = cpu_family(vdir, cpucases, tier, rnd)
    ngen = len(cs)
    cs = cs + [f[0] for f in fam]
    # operand family: every numeric operand of the comparison corpus' forms at values far outside and just outside the
    # usual fields; whether such a program is erroneous is not known beforehand, so the run is held to be erroneous
    # exactly when it printed a diagnostic or ended with a status other than 0 (Proc!Atomic: the two go together)
    from .. import codec as K
    cpun = {c["name"] for c in K.cpu_list(vdir)}
    pforms = [(cpu, t) for cpu, t in K.corpus(cpun) if ":" not in t and K.NUM.search(t)]
    if tier == "quick":
        pforms = rnd.sample(pforms, min(len(pforms), 1200))
    nfam = len(cs)
    probes = []
    for cpu, t in pforms:
        for pos, variants in K.probe_texts(t, [-2147483648, -129, 255, 65536, 0x7fffffff]):
            for vtext in variants:
                probes.append((dict(kind="probe", type="hex", stale=False, cpu=cpu, term="eof", wrap="none", form=t, pos=pos), ".%s\n.org 0x100\n  %s\n" % (cpu, vtext)))
    cs = cs + [pp[0] for pp in probes]
    for i, c in enumerate(cs):
        src = render(c) if i < ngen else (fam[i - ngen][1] if i < nfam else probes[i - nfam][1])
        srcs[i] = src
        jobs.append((exe, wd, "c%d" % i, c, src))
    results = {}
    with ThreadPoolExecutor(C.NCPU) as ex:
        for cid, ob, out in ex.map(run_one, jobs):
            results[int(cid[1:])] = (ob, out)

    # calibration of the per-CPU family: a CPU whose uncorrupted program (ended by end of file) is not accepted is left out
    # (with that terminator: `.end` is not a directive of every CPU)
    uncal = {(c["cpu"], c["term"]) for i, c in enumerate(cs) if i >= ngen and c["kind"] == "none" and results[i][0]["status"] != 0}
    events = []
    for i, c in enumerate(cs):
        ob, out = results[i]
        if "cpu" in c and ((c["cpu"], c["term"]) in uncal or (c["cpu"], "eof") in uncal):
            continue
        if c["kind"] == "probe":
            events.append({"id": i, "bad": ob["errs"] > 0 or ob["status"] != 0, "obs": ob})
            continue
        events.append({"id": i, "bad": c["kind"] != "none", "obs": ob})
    goods = [e for e in events if not e["bad"] and e["obs"]["status"] == 0]
    bads = [e for e in events if e["bad"] and e["obs"]["status"] == 1 and e["obs"]["file"] == "absent" and e["obs"]["errs"] > 0]
    canaries = {}
    for e in rnd.sample(goods, min(6, len(goods))) + rnd.sample(bads, min(12, len(bads))):
        c = json.loads(json.dumps(e))
        c["id"] = 10000000 + e["id"]
        k = rnd.randrange(3)
        if k == 0:
            c["obs"]["status"] = 1 - c["obs"]["status"]
        elif k == 1:
            c["obs"]["file"] = "stale" if e["bad"] else "absent"
        else:
            c["obs"]["errs"] = 0 if e["bad"] else 1
        canaries[c["id"]] = e["id"]
        events.append(c)
    verdicts, runs = C.tlc_accept("TraceProc", "trace_Proc.cfg", events, rd, "c12", nchunks=4)
    for r in runs:
        chk.add_tlc(r)
    bad = {v["id"]: v for v in verdicts}
    missed = [c for c in canaries if c not in bad]
    if missed:
        raise C.InfraError("canaries accepted: %s" % missed[:3])
    for cid, v in sorted(bad.items()):
        if cid in canaries:
            continue
        c = cs[cid]
        ob, out = results[cid]
        # identified by corruption kind, wrapping and what goes wrong (position/type/base vary)
        key = "Proc.%s@%s:%s" % (c["kind"], c["wrap"] if not c.get("how") else c["how"], v["why"].split(":")[0])
        if c["kind"] == "probe":
            key = "Proc.operand.%s:%s:%s" % (c["cpu"], K.shape(c["form"]), v["why"].split(":")[0])
        elif "cpu" in c:
            key = "Proc.%s.%s+%s:%s" % (c["cpu"], c["kind"], c["term"], v["why"].split(":")[0])
        chk.report(key, "%s (%s)\n%s--- output tail:\n%s" % (v["why"], json.dumps(c), srcs[cid], out[-300:]),
                   dict(case=c, source=srcs[cid], observed=ob, why=v["why"], output=out))
    kinds = sorted({c["kind"] for c in cs})
    chk.cov.update(dict(
        evaluations=len(cs),
        distinct_nontrivial=len({srcs[i] for i, c in enumerate(cs) if c["kind"] != "none"}),
        rule="TLC enumerates base program x corruption kind (33) x position (first/middle/last) x wrapping "
             "(none, .if 1, .else part, macro body, .repeat, .scope) x output type x stale file planted (also as a symbolic link to an earlier image); "
             "combinations that can yield a valid program are excluded; per-CPU family: for every CPU of cpu_list[] a program of its own "
             "instructions (tests/comparison) x {unknown mnemonic, nine operands, unknown mnemonic inside .if, .db 300} x position x "
             "{end of file, end, .end}; operand family: numeric operands of the corpus forms (quick: 1,200 forms) at -2^31, -129, 255, 65536, 2^31-1, "
             "erroneous exactly when a diagnostic was printed or the status is not 0; non-trivial = corrupted; distinct by source",
        traces_validated_against_impl=len(events) - len(canaries),
        kinds=kinds, per_cpu_cases=len(fam), operand_cases=len(probes), cpus_left_out=sorted("%s+%s" % u for u in uncal), canaries=dict(injected=len(canaries), rejected=len(canaries)),
        exhaustive=True))
    chk.samples = [srcs[i] for i in rnd.sample(range(len(cs)), 3)]
    chk.assumptions = ["only source-level corruption (not command-line errors)",
                       "a diagnostic is a stdout line matching " + DIAG.pattern,
                       "file completeness is judged by the format's terminator/magic (full decoding is C03)"]
    return chk.finish()
