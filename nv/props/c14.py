"""C14: the MSP430 simulator executes every instruction as the architecture defines.

GenMsp430 (TLC) enumerates prepared states (instruction class x addressing modes x size x
registers x operand values at the flag boundaries x carry in); the real SimulateMsp430
executes one step from each; TraceMsp430 (TLC) recomputes the step with Msp430Cpu!Step
(transcribed from SLAU144) and compares registers, flags and changed memory bytes."""
import json
import os
import random
import re
import subprocess
from concurrent.futures import ThreadPoolExecutor

from .. import common as C

PROP = "C14"
SHOW = ";".join("r%d" % i for i in range(16))


def decode_word(case):
    cells = {c["a"]: c["b"] for c in case["set"]}
    pc = case["reg"][0]
    return cells.get(pc, 0) | (cells.get(pc + 1, 0) << 8)


def klass(w):
    """finding key: instruction class + addressing modes + size (operand values abstracted)"""
    top = w >> 12
    if top >= 4:
        names = {4: "mov", 5: "add", 6: "addc", 7: "subc", 8: "sub", 9: "cmp", 10: "dadd", 11: "bit", 12: "bic",
                 13: "bis", 14: "xor", 15: "and"}
        s, ad, bw, a, d = (w >> 8) & 15, (w >> 7) & 1, (w >> 6) & 1, (w >> 4) & 3, w & 15
        sk = "cg" if s == 3 or (s == 2 and a >= 2) else {0: "pc", 2: "sr"}.get(s, "rn")
        dk = {0: "pc", 2: "sr"}.get(d, "rn")
        return "%s%s src=%s/As%d dst=%s/Ad%d" % (names[top], ".b" if bw else ".w", sk, a, dk, ad)
    if top in (2, 3):
        return "jump cond=%d" % ((w >> 10) & 7)
    if (w >> 10) == 4:
        names = ["rrc", "swpb", "rra", "sxt", "push", "call", "reti", "?"]
        r, a, bw = w & 15, (w >> 4) & 3, (w >> 6) & 1
        rk = "cg" if r == 3 or (r == 2 and a >= 2) else {0: "pc", 2: "sr"}.get(r, "rn")
        return "%s%s %s/As%d" % (names[(w >> 7) & 7], ".b" if bw else ".w", rk, a)
    return "other"


ORG = 0xf800
DUMP = re.compile(r" PC: 0x([0-9a-f]{4}),\s+SP: 0x([0-9a-f]{4}),\s+SR: 0x([0-9a-f]{4}),\s+CG: 0x([0-9a-f]{4}),")
REGS = re.compile(r"r(\d+): 0x([0-9a-f]{4})")
CYC = re.compile(r"(\d+) clock cycles have passed")


def hexfile(segments):
    """Intel HEX of word sequences (little endian): [(org, words), ...]"""
    out = []
    for org, words in segments:
        data = b"".join(bytes([w & 255, w >> 8]) for w in words)
        for o in range(0, len(data), 16):
            chunk = data[o:o + 16]
            rec = bytes([len(chunk), ((org + o) >> 8) & 255, (org + o) & 255, 0]) + chunk
            out.append(":%s%02X" % (rec.hex().upper(), (-sum(rec)) & 255))
    return "\n".join(out) + "\n:00000001FF\n"


def run_routine(a):
    exe, path, bio = a
    args = [exe, "-msp430", "-set_pc", "0x%x" % ORG] + (["-break_io", "0x%x" % bio] if bio >= 0 else []) + ["-run", path]
    try:
        p = subprocess.run(args, stdout=subprocess.PIPE, stderr=subprocess.STDOUT, timeout=20)
        return p.returncode, p.stdout.decode(errors="replace")
    except subprocess.TimeoutExpired:
        return -9, "timeout"


def routine_part(chk, vdir, tier, rnd):
    """second half of C14: naken_util -run / -break_io against Msp430Cpu!RunFrom"""
    rd = chk.rundir
    g = C.tlc("GenMsp430Run", "gen_Msp430Run.cfg", os.path.join(rd, "genrun"), workers=4, heap="4g", deadlock=False)
    chk.add_tlc(g)
    rts = C.parse_payload(g.lines, "CASE ")
    if len(rts) < 15000:
        raise C.InfraError("only %d routines" % len(rts))
    if tier == "quick":
        # the single-instruction routines (one per cell of the cycle tables) and the break_io stores always run
        fixed = [r for r in rts if isinstance(r["what"][0], str)]
        rts = fixed + rnd.sample([r for r in rts if not isinstance(r["what"][0], str)], 500)
    wd = os.path.join(rd, "run")
    os.makedirs(wd)
    jobs = []
    for i, r in enumerate(rts):
        path = os.path.join(wd, "r%d.hex" % i)
        open(path, "w").write(hexfile([(0x300, r["data"]), (ORG, r["words"])]))
        jobs.append((os.path.join(vdir, "naken_util"), path, r["bio"]))
    with ThreadPoolExecutor(C.NCPU) as ex:
        outs = list(ex.map(run_routine, jobs))
    events = []
    for i, (r, (rc, out)) in enumerate(zip(rts, outs)):
        if rc == -9 or rc < 0:
            chk.report("Msp430:run:%s" % ("timeout" if rc == -9 else "signal"), "naken_util -run did not return on routine %s" % r["what"],
                       dict(routine=r, rc=rc, out=out[-600:]))
            continue
        tail = out[out.rfind("Simulation Register Dump"):]
        m, cy = DUMP.search(tail), CYC.search(tail)
        if not m or not cy:
            chk.report("Msp430:run:no final register dump", "no register dump after running %s" % r["what"], dict(routine=r, rc=rc, out=out[-800:]))
            continue
        regs = [int(m.group(k), 16) for k in (1, 2, 3, 4)] + [0] * 12
        for n, v in REGS.findall(tail):
            if 4 <= int(n) <= 15:
                regs[int(n)] = int(v, 16)
        events.append(dict(id="r%d" % i, words=r["words"], data=r["data"], org=ORG, bio=r["bio"], regs=regs, cycles=int(cy.group(1)), status=rc))
    canaries = set()
    for e in rnd.sample([e for e in events if e["bio"] < 0], 6):
        c = json.loads(json.dumps(e))
        c["id"] = "canary." + e["id"]
        c["cycles"] += 1
        canaries.add(c["id"])
        events.append(c)
    for e in rnd.sample([e for e in events if e["bio"] >= 0 and e["status"] != 0 and not e["id"].startswith("canary")], 4):
        c = json.loads(json.dumps(e))
        c["id"] = "canary." + e["id"]
        c["status"] ^= 1
        canaries.add(c["id"])
        events.append(c)
    verdicts, runs = C.tlc_accept("TraceMsp430Run", "trace_Msp430Run.cfg", events, rd, "c14run", heap="4g")
    for x in runs:
        chk.add_tlc(x)
    bad = {v["id"]: v for v in verdicts}
    if [c for c in canaries if c not in bad]:
        raise C.InfraError("routine canaries accepted")
    byid = {e["id"]: e for e in events}
    for vid, v in sorted(bad.items()):
        if vid in canaries:
            continue
        e = byid[vid]
        r = rts[int(vid[1:])]
        chk.report("Msp430:run:%s:%s" % (v["why"], "+".join(str(x) for x in (r["what"] if isinstance(r["what"][0], str) else r["what"][2:4]))),
                   "%s: routine %s words %s: simulator regs %s cycles %d status %d, model %s" % (
                       v["why"], r["what"], " ".join("%04x" % w for w in r["words"]), e["regs"], e["cycles"], e["status"], json.dumps(v["expect"])),
                   dict(routine=r, observed=e, expect=v["expect"], why=v["why"]))
    return len(events) - len(canaries)


def run(tier, seed):
    chk = C.Check(PROP, tier, seed, "model_checking")
    rnd = random.Random(seed)
    vdir = C.ensure_build("rel")
    g = C.tlc("GenMsp430", "gen_Msp430_%s.cfg" % tier, chk.rundir, workers=8, heap="8g")
    chk.add_tlc(g)
    gen = C.parse_payload(g.lines, "CASE ")
    if len(gen) < 20000:
        raise C.InfraError("only %d cases generated" % len(gen))
    total = len(gen)
    if tier == "quick":
        # the cases with one register as source and destination are few: all of them, and a sample of the rest
        def same_reg(c):
            w = decode_word(c)
            return w >= 0x4000 and ((w >> 8) & 15) == (w & 15) and ((w >> 4) & 3) >= 2
        same = [c for c in gen if same_reg(c)]
        gen = rnd.sample(same, min(len(same), 4000)) + rnd.sample(gen, 30000)
    cases = []
    for i, c in enumerate(gen):
        regs = ";".join("r%d:%d" % (n, v) for n, v in enumerate(c["reg"]))
        cells = {}
        for x in c["set"]:
            cells[x["a"]] = x["b"]
        body = ",".join("%d:%02x" % (a, b) for a, b in sorted(cells.items()))
        cases.append(("m%d" % i, "cpu=msp430 regs=%s show=%s rep=0" % (regs, SHOW), body))
    obs = C.conform_parallel(vdir, "sim", cases, chk.rundir, "c14", 5, nproc=C.NCPU)
    byid = {o["case"]: o for o in obs}
    events = []
    for i, c in enumerate(gen):
        o = byid.get("m%d" % i)
        w = decode_word(c)
        if o is None or o.get("died") or o.get("nosim"):
            chk.report("Msp430:died:" + klass(w), "simulator died on word 0x%04x: %s" % (w, o), dict(case=c, observed=o))
            continue
        cells = {}
        for x in c["set"]:
            cells[x["a"]] = x["b"]
        events.append({"id": i, "reg": c["reg"], "set": [{"a": a, "b": b} for a, b in sorted(cells.items())],
                       "post": [o["a"]["regs"]["r%d" % n] for n in range(16)],
                       "diff": [{"a": a, "b": b} for a, b in o["a"]["diff"]]})
    canaries = {}
    pool = [e for e in events if (decode_word(gen[e["id"]]) >> 12) in (5, 8, 14)]
    for e in rnd.sample(pool, min(20, len(pool))):
        c = json.loads(json.dumps(e))
        c["id"] = 10000000 + e["id"]
        # a register no generated instruction touches, or the PC: wrong whatever the original verdict is
        k = rnd.randrange(2)
        if k == 0:
            c["post"][14] ^= 0x10
        else:
            c["post"][0] = (c["post"][0] + 2) % 65536
        canaries[c["id"]] = 1
        events.append(c)
    verdicts, runs = C.tlc_accept("TraceMsp430", "trace_Msp430.cfg", events, chk.rundir, "c14", heap="3g", nchunks=C.NCPU)
    for r in runs:
        chk.add_tlc(r)
    bad = {v["id"]: v for v in verdicts}
    missed = [c for c in canaries if c not in bad]
    if missed:
        raise C.InfraError("canaries accepted: %s" % missed[:3])
    for vid, v in sorted(bad.items()):
        if vid in canaries:
            continue
        c = gen[vid]
        w = decode_word(c)
        o = byid["m%d" % vid]
        chk.report("Msp430:%s:%s" % (v["why"]["what"], klass(w)),
                   "word 0x%04x (%s): %s differs: expected %s, simulator regs %s diff %s" % (
                       w, klass(w), v["why"]["what"], json.dumps(v["why"]["expect"]), json.dumps(o["a"]["regs"]), o["a"]["diff"]),
                   dict(case=c, observed=o["a"], why=v["why"]))
    nrun = routine_part(chk, vdir, tier, rnd)
    chk.cov.update(dict(
        evaluations=len(cases) + nrun, generated=total, routines_run=nrun,
        distinct_nontrivial=len({klass(decode_word(c)) for c in gen}),
        rule="TLC enumerates 12 two-operand and 7 one-operand instructions and 8 jumps x source/destination addressing "
             "modes x byte/word x registers (pc, sr, cg, r5, r15 / r6, r9) x operand values at carry/overflow/BCD boundaries "
             "x carry in; quick runs a seeded sample of 30,000; non-trivial = every case; distinct counted by "
             "(instruction, addressing modes, size) class",
        traces_validated_against_impl=len(events) - len(canaries),
        canaries=dict(injected=len(canaries), rejected=len(canaries)), exhaustive=(tier == "thorough")))
    chk.samples = [dict(word="0x%04x" % decode_word(c), klass=klass(decode_word(c)), regs=c["reg"]) for c in rnd.sample(gen, 4)]
    chk.assumptions = ["Msp430Cpu.tla is my transcription of SLAU144; V after DADD and DADD on non-BCD digits are unconstrained",
                       "encodings outside the core instruction set are not judged here (C15 covers survival)",
                       "word operands are placed at even addresses; -run/-break_io are checked by the routine cases"]
    return chk.finish()
