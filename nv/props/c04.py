"""C04: constant expressions evaluate to their arithmetic value.

TLC model-checks the shipped 3-value/2-operator evaluator against the
reference (MCExpr), enumerates token strings (GenExpr), the real assembler
evaluates `.dc64 <expr>` for each, and TLC classifies every recorded
observation against reference and machine (TraceExpr)."""
import json
import random

from .. import common as C

PROP = "C04"

ESC = {10: "\\n", 13: "\\r", 9: "\\t", 92: "\\\\", 39: "\\'", 0: "\\0"}
DIG = "0123456789abcdef"


def render_num(t):
    if "ds" in t:
        st = t["style"]
        if st == "chr":
            ch = t["ds"][0]
            return "'%s'" % (ESC[ch] if ch in ESC else chr(ch))
        d = "".join(DIG[x] for x in t["ds"])
        us = t.get("us", 0)
        if 0 < us < len(d):
            d = d[:us] + "_" + d[us:]
        if st == "dec":
            return d
        if st == "0x":
            return "0x" + d
        if st == "h":
            return ("0" if d[0] in "abcdef" else "") + d + "h"
        if st == "0b":
            return "0b" + d
        if st == "b":
            return d + "b"
        if st == "q":
            return d + "q"
        if st == "oct0":
            return "0" + d
        raise C.InfraError("style " + st)
    v = int.from_bytes(bytes(t["v"]), "little")
    return str(v) if v < (1 << 63) else "0x%x" % v


def render(ts):
    out = []
    for t in ts:
        k = t["t"]
        if k == "num":
            out.append(render_num(t))
        elif k == "bad":
            out.append(t["txt"])
        elif k == "op":
            out.append(t["o"])
        elif k == "lp":
            out.append("(")
        elif k == "rp":
            out.append(")")
    return " ".join(out)


def nontrivial(ts):
    nops = sum(1 for t in ts if t["t"] == "op")
    return nops >= 2 or any(t["t"] in ("lp",) for t in ts) or any("ds" in t for t in ts)


def observe(rec):
    if rec.get("died"):
        if rec.get("timeout"):
            return {"k": "hang"}
        return {"k": "crash", "why": rec.get("san") or ("signal %d" % rec.get("sig", 0))}
    if rec["r1"] != 0 or rec["r2"] != 0:
        return {"k": "rej"}
    img = rec["img"]
    if len(img) != 1 or img[0][0] != 0 or len(img[0][1]) != 16:
        return {"k": "shape", "img": img}
    return {"k": "val", "v": list(bytes.fromhex(img[0][1]))}


def run(tier, seed):
    chk = C.Check(PROP, tier, seed, "model_checking")
    vdir = C.ensure_build("rel")
    rd = chk.rundir

    # 1. design level: machine vs reference on all enumerated strings, 8-bit words
    mccfg = "mc_Expr.cfg" if tier == "thorough" else "mc_Expr_quick.cfg"
    r = C.tlc("MCExpr", mccfg, rd, workers=C.NCPU, heap="8g")
    chk.add_tlc(r)
    if not r.ok:
        raise C.InfraError("MCExpr: invariant %s violated: the machine model and the reference "
                           "disagree outside the named deviations\n%s" % (r.violated, r.out[-3000:]))

    # 2. generate cases
    gcfg = C.tlc_cfg_with("gen_Expr_%s.cfg" % tier, rd, {"Seed": seed % 1000000})
    g = C.tlc("GenExpr", gcfg, rd, workers=4, heap="6g")
    chk.add_tlc(g)
    toks = C.parse_payload(g.lines, "CASE ")
    if len(toks) < 1000:
        raise C.InfraError("generator produced only %d cases" % len(toks))

    # 3. render + run
    cases = []
    texts = {}
    for i, ts in enumerate(toks):
        text = render(ts)
        texts[i] = text
        cases.append((str(i), "imgmax=64", ".msp430\n.dc64 %s\n" % text))
    obs = C.conform_parallel(vdir, "asm", cases, rd, "c04")
    byid = {}
    for o in obs:
        byid[int(o["case"])] = o
    if len(byid) != len(toks):
        raise C.InfraError("conform returned %d of %d cases" % (len(byid), len(toks)))

    events = []
    rnd0 = random.Random(seed + 5)
    direct = 0
    for i, ts in enumerate(toks):
        ob = observe(byid[i])
        if ob["k"] in ("hang", "shape"):
            direct += 1
            chk.report("expr:" + texts[i], "%s on .dc64 %s: %s" % (ob["k"], texts[i], ob),
                       dict(source=cases[i][2], observed=ob))
            continue
        events.append({"id": i, "ts": ts, "obs": {k: v for k, v in ob.items() if k in ("k", "v")}})

    # the expressions without parentheses also as the address of a tms9900 symbolic operand (mov @<expr>, r1: the CPU's
    # operand parser hands the text behind @ to the evaluator)
    flat = [i for i, ts in enumerate(toks) if not any(t["t"] in ("lp", "rp", "bad") for t in ts) and not any("ds" in t for t in ts)]
    pick = flat if tier == "thorough" else rnd0.sample(flat, min(len(flat), 4000))
    ccases = [("x%d" % i, "imgmax=64", ".tms9900\n.org 0x100\n  mov @%s, r1\n" % texts[i]) for i in pick]
    cobs = {o["case"]: o for o in C.conform_parallel(vdir, "asm", ccases, rd, "c04ctx")}
    nctx = 0
    for i in pick:
        o = cobs["x%d" % i]
        if o.get("died"):
            chk.report("expr:tms9900:@" + texts[i], "died on mov @%s, r1: %s" % (texts[i], o), dict(source=ccases[0][2], observed=o))
            continue
        if o["r1"] != 0 or o["r2"] != 0:
            ob = {"k": "rej"}
        else:
            img = o["img"]
            if len(img) != 1 or len(img[0][1]) != 8:
                continue
            b = bytes.fromhex(img[0][1])
            ob = {"k": "val", "v": [b[3], b[2], 0, 0, 0, 0, 0, 0]}
        nctx += 1
        events.append({"id": 20000000 + i, "ts": toks[i], "obs": ob, "ctx": "tms9900 mov @, r1"})

    # canaries: a real accepted value with one byte flipped must be rejected by the acceptor
    rnd = random.Random(seed)
    vals = [e for e in events if e["obs"]["k"] == "val" and "ctx" not in e]
    canaries = {}
    for e in rnd.sample(vals, min(24, len(vals))):
        cid = 10000000 + e["id"]
        v = list(e["obs"]["v"])
        v[rnd.randrange(8)] ^= 1 << rnd.randrange(8)
        canaries[cid] = e["id"]
        events.append({"id": cid, "ts": e["ts"], "obs": {"k": "val", "v": v}, "canary": 1})

    verdicts, runs = C.tlc_accept("TraceExpr", "trace_Expr.cfg", events, rd, "c04")
    for r in runs:
        chk.add_tlc(r)

    bad = {v["id"]: v for v in verdicts}
    # binding self-test
    orig_of = set(canaries.values())
    ncan = 0
    for cid, oid in canaries.items():
        if cid not in bad:
            raise C.InfraError("canary %d not reported" % cid)
        if bad[cid]["ref"]["k"] == "any":
            continue           # the reference leaves this case unconstrained
        if bad[cid]["vd"] == "ok":
            raise C.InfraError("canary %d (corrupted copy of case %d) was accepted" % (cid, oid))
        ncan += 1
    if ncan < 8:
        raise C.InfraError("too few effective canaries (%d)" % ncan)

    stale = 0
    for cid, v in sorted(bad.items()):
        if cid in canaries:
            continue
        if cid >= 20000000:
            i = cid - 20000000
            chk.report("expr:tms9900 operand:" + " ".join(t.get("o", "#") for t in toks[i] if t["t"] in ("op", "num"))[:60],
                       "mov @%s, r1 on tms9900: the operand word is not the low 16 bits of the expression's value (reference %s)" % (texts[i], v.get("ref")),
                       dict(source=".tms9900\n.org 0x100\n  mov @%s, r1\n" % texts[i], reference=v.get("ref")))
            continue
        text = texts[cid]
        ob = observe(byid[cid])
        if v["vd"] == "stale":
            stale += 1
            continue
        payload = dict(source=cases[cid][2], observed=ob, reference=v.get("ref"), machine=v.get("imp"),
                       deviations=v.get("dev"))
        if v["vd"] == "dev":
            devs = sorted(v["dev"])
            unknown = [d for d in devs if chk.known("Expr." + d) is None]
            if not unknown:
                for d in devs:
                    chk.report("Expr." + d, "", payload)
                continue
            chk.report("Expr." + unknown[0],
                       ".dc64 %s: code follows the shipped machine through deviation %s: observed %s, reference %s"
                       % (text, "+".join(devs), ob, v.get("ref")), payload)
        else:
            chk.report("expr:" + text, ".dc64 %s: observed %s, reference %s, machine %s" % (
                text, ob, v.get("ref"), v.get("imp")), payload)
    if stale:
        C.log("NOTE [%s] %d cases: code agrees with the reference where the machine model deviates "
              "(model deviation is stale)" % (PROP, stale))

    distinct = len(set(t for i, t in texts.items() if nontrivial(toks[i])))
    chk.cov.update(dict(
        evaluations=len(toks) + nctx, operand_context_cases=nctx,
        distinct_nontrivial=distinct,
        rule="TLC enumerates token strings (flat operator sequences, parenthesised, unary-decorated, "
             "two-pair shapes, malformed, literal spellings); non-trivial = at least two operators, "
             "a parenthesis or a spelled literal; distinct by rendered text",
        traces_validated_against_impl=len(events) - len(canaries),
        canaries=dict(injected=ncan, rejected=ncan),
        stale_model_deviation=stale,
        exhaustive=False,
    ))
    rs = random.Random(seed + 1)
    chk.samples = [".dc64 " + texts[i] for i in rs.sample(range(len(toks)), 6)]
    chk.assumptions = [
        "the renderer (tokens -> text) and the image reader are trusted",
        ">> is an arithmetic shift; shift counts outside 0..63 are unconstrained",
        "decimal literals are generated below 2^63 only",
    ]
    return chk.finish()
