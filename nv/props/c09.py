"""C09: macros, defines, equ and repeat are transparent text abstractions.

MacroExpand!Expand performs the substitutions by hand; the meaning of a program P is
AsmData!Denote(Expand(P)).  GenMacro (TLC) produces programs with a prelude of definitions
(defines, equ, macros with 0/1/2/9 parameters, nested and repeating macros) and a body of
uses; the real assembler assembles P and TraceMacro (TLC) accepts the recorded image and
symbols iff they are those of Denote(Expand(P)).  .include is exercised through the
executable: the included text is the same statements in a separate file."""
import json
import os
import random
import subprocess

from .. import common as C
from .. import asmtext as A

PROP = "C09"
PNAMES = "abcdefghi"
# formal parameter names are bound names: the meaning of a macro does not depend on them.  Schemes:
# 0 unrelated names; 1 every later name is a prefix of the earlier ones; 2 every earlier name is a prefix of
# the later ones; 3 names that extend the directive and data words used in bodies (db, dw, dc32, ...);
# 4 the first two parameters are named like the labels the program defines further down (la, lb);
# 5 parameters named h, b, q, x1 while numbers are spelled 10h / 101b / 17q
CUR = {"scheme": 0, "np": 0}
EXT = ["dbq", "dwq", "dc8q", "dc16q", "dc32q", "dlq", "asciiq", "dqq", "dc64q"]


def pname(i):
    sch, n = CUR["scheme"], CUR["np"]
    if sch == 1:
        return "v" + "x" * (n - i)
    if sch == 2:
        return "w" + "y" * (i - 1)
    if sch == 3:
        return EXT[i - 1]
    if sch == 5 and i <= 4:
        # the letters that end a number spelled 10h / 101b / 17q, and one that starts like a hex prefix
        return ["h", "b", "q", "x1"][i - 1]
    if sch == 4 and i <= 2:
        # the names of the program's labels (defined behind the macros)
        return ["la", "lb"][i - 1]
    return "p" + PNAMES[i - 1] if i <= len(PNAMES) else "pw%d" % i


def ritem(it, params=False):
    k = it["k"]
    if k == "num" and CUR["scheme"] == 5:
        u = A.word_int(it["v"])
        if 0 <= u < (1 << 31):
            if u % 3 == 0:
                t = "%x" % u
                return ("0" if t[0] in "abcdef" else "") + t + "h"
            return (bin(u)[2:] + "b") if u % 3 == 1 else (oct(u)[2:] + "q")
    if k == "ref":
        return it["n"]
    if k == "param":
        return pname(it["i"])
    if k == "sum":
        return "%s + %s" % (ritem(it["a"]), ritem(it["b"]))
    if k == "stmt":
        tmp = []
        rstmt(it["s"], tmp, 0)
        return tmp[0].strip()
    return A.render_item(it)


LINES = {}         # the instruction texts standing for the uninterpreted lines 1, 2 of GenMacro!WrapProgs


def rstmt(s, out, variant):
    k = s["k"]
    if k == "define":
        out.append((".define %s %s" if variant % 2 == 0 else "#define %s %s") % (s["n"], ritem(s["v"])))
    elif k == "equ":
        out.append("%s equ %s" % (s["n"], ritem(s["v"])))
    elif k == "macro":
        CUR["scheme"], CUR["np"] = (variant // 2) % 6, s["np"]
        ps = ", ".join(pname(i + 1) for i in range(s["np"]))
        out.append(".macro %s%s" % (s["n"], "(%s)" % ps if s["np"] else ""))
        for b in s["body"]:
            rstmt(b, out, variant)
        out.append(".endm")
        CUR["scheme"] = 0
    elif k == "pstmt":
        out.append(pname(s["i"]))
    elif k == "invoke":
        out.append("%s%s" % (s["n"], "(%s)" % ", ".join(ritem(a) for a in s["args"]) if s["args"] else ""))
    elif k == "repeat":
        out.append(".repeat %d" % s["cnt"])
        for b in s["body"]:
            rstmt(b, out, variant)
        out.append(".endr")
    elif k == "line":
        out.append("  " + LINES[s["i"]])
    elif k == "data":
        names = A.DATA_NAMES[s["w"]]
        out.append("%s %s" % (names[variant % len(names)], ", ".join(ritem(i) for i in s["items"])))
    else:
        out.append(A.render_stmt(s, variant))


def padding(variant):
    """more than 32 KiB of definitions nothing uses (defines, equ, macros), so that the program's own definitions are
    stored behind the first pool of the macro table; unused definitions do not change what the program denotes"""
    out = []
    for k in range(430):
        v = "0x%x" % (0x1000000 + k * 7919 + variant) + " + " + " + ".join(str((k * j + 3) % 97) for j in range(1, 22))
        if k % 3 == 0:
            out.append(".define PADQ_%d_%s (%s)" % (k, "x" * (k % 40), v))
        elif k % 3 == 1:
            out.append("PADQ_%d_%s equ %s" % (k, "y" * (k % 40), v))
        else:
            out += [".macro padq_%d_%s(a, b)" % (k, "z" * (k % 40)), "  .db a, b, %d" % (k % 200), "  .dc16 %s" % v, ".endm"]
    return out


def render(prog, cpu, variant):
    out = [".%s" % cpu]
    if variant % 7 == 3:
        out += padding(variant)
    for s in prog:
        rstmt(s, out, variant)
    return "\n".join(out) + "\n"


def observe(rec, names):
    if rec.get("died"):
        return {"k": "crash", "why": rec.get("san") or "signal %s" % rec.get("sig")}
    if rec["r1"] != 0 or rec["r2"] != 0:
        return {"k": "rej", "img": [], "syms": [], "low": 0, "high": 0}
    img = [{"a": a, "d": list(bytes.fromhex(h))} for a, h in rec["img"]]
    syms = [{"n": n, "a": rec["sym2"][n]} for n in names if rec["sym2"].get(n) is not None]
    return {"k": "ok", "img": img, "syms": syms, "low": rec["low"] if rec["low"] < (1 << 31) else -1, "high": rec["high"]}


def charsource_part(chk, vdir, tier, seed, rnd):
    """the character source under macro expansion: CharSource.tla model-checked, then operation scripts on the real
    tokens_get_char / tokens_unget_char / macros_push_define"""
    rd = chk.rundir
    cfg = C.tlc_cfg_with("mc_CharSource.cfg", rd, {"MaxOps": 7 if tier == "quick" else 9})
    r = C.tlc("MCCharSource", cfg, os.path.join(rd, "mccs"), workers=8, heap="6g", timeout=2400)
    chk.add_tlc(r)
    if not r.ok:
        chk.report("model:CharSource:%s" % r.violated, "the character source machine does not refine the reference stream", dict(out=r.out[-2000:]))
    g = C.tlc("GenCharSource", "gen_CharSource.cfg", os.path.join(rd, "gencs"), workers=4, heap="4g",
              simulate=(400 if tier == "quick" else 6000), depth=14, seed=seed)
    chk.add_tlc(g)
    scripts = C.parse_payload(g.lines, "CASE ")
    if len(scripts) < 300:
        raise C.InfraError("only %d character source scripts" % len(scripts))
    cases = []
    for i, sc in enumerate(scripts):
        lines = [bytes(sc["file"]).hex()]
        for o in sc["ops"]:
            if o["k"] == "G":
                lines.append("G")
            elif o["k"] == "U":
                lines.append("U %d" % o["c"])
            else:
                lines.append("P " + bytes(o["t"]).hex())
        cases.append(("cs%d" % i, "", "\n".join(lines)))
    obs = {o["case"]: o for o in C.conform_parallel(vdir, "chars", cases, rd, "chars", 5, nproc=4)}
    events = []
    for i, sc in enumerate(scripts):
        o = obs.get("cs%d" % i)
        if o is None or o.get("died"):
            chk.report("chars:died", "the character source died on %s" % json.dumps(sc)[:300], dict(script=sc, observed=o))
            continue
        events.append(dict(id="cs%d" % i, file=sc["file"], ops=sc["ops"], got=o["got"]))
    canaries = set()
    for e in rnd.sample([e for e in events if len(e["got"]) >= 2], 6):
        c = json.loads(json.dumps(e))
        c["id"] = "canary." + e["id"]
        c["got"][-1] = 1 if c["got"][-1] != 1 else 2
        canaries.add(c["id"])
        events.append(c)
    verdicts, runs = C.tlc_accept("TraceCharSource", "trace_CharSource.cfg", events, rd, "chars", heap="3g")
    for x in runs:
        chk.add_tlc(x)
    bad = {v["id"]: v for v in verdicts}
    if [c for c in canaries if c not in bad]:
        raise C.InfraError("character source canaries accepted")
    byid = {e["id"]: e for e in events}
    for vid, v in sorted(bad.items()):
        if vid in canaries:
            continue
        e = byid[vid]
        shape = "".join(o["k"] for o in e["ops"])
        chk.report("chars:delivered characters are not the stream", "(%s) tokens_get_char delivered %s, the stream is %s for file %s ops %s" % (
            shape, e["got"], v["expect"], e["file"], json.dumps(e["ops"])), dict(script=dict(file=e["file"], ops=e["ops"]), got=e["got"], expect=v["expect"]))
    return len(events) - len(canaries)


def run(tier, seed):
    chk = C.Check(PROP, tier, seed, "model_checking")
    rnd = random.Random(seed)
    vdir = C.ensure_build("rel")
    rd = chk.rundir
    g1 = C.tlc("GenMacro", "gen_Macro_bfs.cfg", rd, workers=8, heap="4g", prefixes=("CASE ", "WRAP ", "WIDE "))
    g2 = C.tlc("GenMacro", "gen_Macro_sim.cfg", rd, workers=4, heap="4g", simulate=(500 if tier == "quick" else 8000), depth=16, seed=seed)
    chk.add_tlc(g1)
    chk.add_tlc(g2)
    progs = []
    seen = set()
    for p in C.parse_payload(g1.lines, "CASE ") + C.parse_payload(g2.lines, "CASE "):
        k = json.dumps(p, sort_keys=True)
        if k not in seen:
            seen.add(k)
            progs.append(p)
    if len(progs) < 2000:
        raise C.InfraError("only %d programs" % len(progs))
    carriers = [("msp430", 1, False), ("68000", 1, True), ("avr8", 2, False)]
    wides = C.parse_payload(g1.lines, "WIDE ")
    if not wides or len(wides[0]) < 150:
        raise C.InfraError("no wide-macro programs")
    nplain = len(progs)
    progs += sorted(wides[0], key=lambda w: json.dumps(w, sort_keys=True))
    cases, meta = [], {}
    for i, p in enumerate(progs):
        cpu, bpa, big = carriers[i % 3] if len(p) > 13 else carriers[0]
        names = [s["n"] for s in p if s["k"] == "label"]
        names = sorted(set(names))
        src = A.layout(render(p, cpu, i), i) if i < nplain else render(p, cpu, 0)
        cid = "m%d" % i
        meta[cid] = (i, cpu, bpa, big, names, src)
        cases.append((cid, "syms=%s imgmax=20000" % ";".join(names), src))
    # wrap family (GenMacro!WrapProgs): instruction lines of every CPU's comparison corpus inside a macro, as a macro
    # argument, next to the expansion TLC computed; both are assembled by the real assembler
    from .. import codec as K
    wraps = C.parse_payload(g1.lines, "WRAP ")
    if not wraps or len(wraps[0]) < 4:
        raise C.InfraError("no wrap programs")
    wraps = sorted(wraps[0], key=lambda w: json.dumps(w, sort_keys=True))
    cpuinfo = {c["name"]: c for c in K.cpu_list(vdir)}
    percpu = {}
    for cpu, text in K.corpus(set(cpuinfo)):
        if ":" not in text and "," in text:
            percpu.setdefault(cpu, [])
            if text not in percpu[cpu]:
                percpu[cpu].append(text)
    wmeta, wcases = {}, []
    for cpu, texts in sorted(percpu.items()):
        # (a macro argument ends at a comma: the argument shape takes instructions without one)
        nocomma = [t for t in K.corpus({cpu}) if "," not in t[1] and ":" not in t[1]]
        pick = texts if tier == "thorough" else rnd.sample(texts, min(len(texts), 24))
        for k, t in enumerate(pick):
            t2 = texts[(texts.index(t) + 1) % len(texts)]
            for wi, w in enumerate(wraps):
                argform = any(st["k"] == "invoke" and st["args"] for st in w["p"])
                l1 = t
                if argform:
                    if not nocomma:
                        continue
                    l1 = nocomma[k % len(nocomma)][1]
                srcs = []
                for prog in (w["p"], w["x"]):
                    LINES.clear()
                    LINES.update({1: l1, 2: t2})
                    out = [".%s" % cpu, ".org 0x%x" % (0x1000 // cpuinfo[cpu]["bpa"])]
                    for st in prog:
                        rstmt(st, out, 0)
                    srcs.append("\n".join(out) + "\n")
                wid = "w.%s.%d.%d" % (cpu, k, wi)
                wmeta[wid] = (cpu, srcs[0], srcs[1])
                wcases.append((wid + ".p", "imgmax=4000", srcs[0]))
                wcases.append((wid + ".x", "imgmax=4000", srcs[1]))
    obs = C.conform_parallel(vdir, "asm", cases + wcases, rd, "c09", 10)
    byid = {o["case"]: o for o in obs}
    events = []
    nwrap = 0
    for wid, (cpu, sp, sx) in sorted(wmeta.items()):
        op, ox = observe(byid[wid + ".p"], []), observe(byid[wid + ".x"], [])
        if "crash" in (op["k"], ox["k"]):
            chk.report("wrap:%s:crash" % cpu, "assembler died on\n%s" % sp, dict(source=sp, expansion=sx, observed=[op, ox]))
            continue
        if ox["k"] != "ok":
            continue            # the instruction line itself is not accepted at this place
        nwrap += 1
        events.append({"id": wid, "obs": op, "ref": ox})
    for cid, (i, cpu, bpa, big, names, src) in meta.items():
        ob = observe(byid[cid], names)
        if ob["k"] == "crash":
            chk.report("src:" + src, "assembler died: %s\n%s" % (ob["why"], src), dict(source=src, observed=ob))
            continue
        events.append({"id": cid, "bpa": bpa, "big": big, "prog": progs[i], "obs": ob})

    # .include through the executable: body statements moved into an included file must give the same file
    exe = os.path.join(vdir, "naken_asm")
    wd = os.path.join(rd, "inc")
    os.makedirs(wd)
    ninc = 0
    for cid in rnd.sample(sorted(meta), 40 if tier == "quick" else 400):
        i, cpu, bpa, big, names, src = meta[cid]
        lines = src.strip().split("\n")
        # split after the prelude (first body statement): everything from a random body line on goes to the include
        # file; never split inside a .macro/.repeat block
        depth = 0
        cuts = []
        for li, l in enumerate(lines):
            if l.startswith(".macro") or l.startswith(".repeat"):
                depth += 1
            if depth == 0 and li > 0:
                cuts.append(li)
            if l.startswith(".endm") or l.startswith(".endr"):
                depth -= 1
        if not cuts:
            continue
        cut = rnd.choice(cuts)
        open(os.path.join(wd, "whole.asm"), "w").write(src)
        open(os.path.join(wd, "part.inc"), "w").write("\n".join(lines[cut:]) + "\n")
        open(os.path.join(wd, "main.asm"), "w").write("\n".join(lines[:cut]) + "\n.include \"part.inc\"\n")
        outs = []
        for f in ("whole", "main"):
            op = os.path.join(wd, f + ".hex")
            if os.path.exists(op):
                os.unlink(op)
            p = subprocess.run([exe, "-q", "-o", op, f + ".asm"], cwd=wd, stdout=subprocess.PIPE, stderr=subprocess.STDOUT, timeout=30)
            outs.append((p.returncode, open(op, "rb").read() if os.path.exists(op) else None))
        ninc += 1
        if outs[0] != outs[1]:
            chk.report("include:" + src, "moving the tail of the program into an .include file changes the result (%s vs %s)\n%s--- cut at line %d" % (
                outs[0][0], outs[1][0], src, cut), dict(source=src, cut=cut))

    canaries = set()
    oks = [e for e in events if e["obs"]["k"] == "ok" and e["obs"]["img"]]
    for e in rnd.sample(oks, min(20, len(oks))):
        c = json.loads(json.dumps(e))
        c["id"] = "canary." + e["id"]
        r = rnd.choice(c["obs"]["img"])
        r["d"][rnd.randrange(len(r["d"]))] ^= 0x20
        canaries.add(c["id"])
        events.append(c)
    verdicts, runs = C.tlc_accept("TraceMacro", "trace_Macro.cfg", events, rd, "c09", heap="3g")
    for r in runs:
        chk.add_tlc(r)
    bad = {v["id"]: v for v in verdicts}
    missed = [c for c in canaries if c not in bad]
    if missed:
        raise C.InfraError("canaries accepted: %s" % missed[:3])
    # attribute failures to the shortest failing program's last statement
    seenw = set()
    for cid in sorted(bad):
        base = cid[len("canary."):] if cid.startswith("canary.") else cid
        if cid in canaries or base not in wmeta:
            continue
        cpu, sp, sx = wmeta[cid]
        shape = int(cid.split(".")[-1])
        key = "wrap:%s:shape%d:%s" % (cpu, shape, K.shape(sp.split("\n")[3].strip() if shape != 2 else LINES.get(1, "")))
        if key in seenw:
            continue
        seenw.add(key)
        chk.report(key, "the program and its expansion by hand assemble differently on .%s\n%s--- expansion\n%s" % (cpu, sp, sx),
                   dict(source=sp, expansion=sx, observed=[observe(byid[cid + ".p"], []), observe(byid[cid + ".x"], [])]))
    fails = sorted((cid for cid in bad if cid not in canaries and cid not in wmeta), key=lambda c: len(progs[meta[c][0]]))
    for cid in fails:
        i, cpu, bpa, big, names, src = meta[cid]
        last = progs[i][-1]
        key = "macro:%s:%s" % (bad[cid]["why"], json.dumps(last, sort_keys=True)[:160])
        chk.report(key, "%s on .%s\n%s" % (bad[cid]["why"], cpu, src), dict(source=src, why=bad[cid]["why"], observed=observe(byid[cid], names)))
    ncs = charsource_part(chk, vdir, tier, seed, rnd)
    chk.cov.update(dict(
        character_source_scripts=ncs,
        evaluations=len(cases) + 2 * ninc,
        distinct_nontrivial=len([p for p in progs if any(s["k"] in ("invoke", "repeat") for s in p[11:])]),
        rule="GenMacro: prelude (4 defines/equ, 7 macros incl. nested, repeating, 9-parameter) + every body of 1-2 statements "
             "(BFS) and drawn bodies of up to 10; non-trivial = the body invokes a macro or repeats; distinct by abstract program; "
             "every seventh program behind more than 32 KiB of unused definitions (second pool of the macro table); "
             "plus include-equivalence runs through the executable; wrap family: instruction lines of every CPU's comparison corpus "
             "(quick: 24 per CPU) inside a macro and as a macro argument against TLC's expansion, both assembled by the real code",
        traces_validated_against_impl=len(events) - len(canaries), include_pairs=ninc, wrap_pairs=nwrap,
        canaries=dict(injected=len(canaries), rejected=len(canaries)), exhaustive=False))
    chk.samples = [meta[c][5] for c in rnd.sample(sorted(meta), 2)]
    chk.assumptions = ["define/equ values are single literals or names (textual splicing of multi-token values is not generated)",
                       "labels are not generated inside macro bodies or repeat blocks"]
    return chk.finish()
