"""C07: decode -> encode -> decode is a fixpoint over all machine words (shares the pipeline of C08)."""
from . import c08


def run(tier, seed):
    return c08.run_prop("C07", tier, seed)
