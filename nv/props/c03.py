"""C03: every output format carries exactly the assembled memory image.

GenLayout (TLC) enumerates segment layouts; each is rendered as .org/.db source
and assembled in-process by the real code, which writes hex/srec/bin/elf/wdc/uf2
through file_write() and loads each back through file_read().  The files are
split into records by nv/tokenize.py and ObjFormats.tla (TLC) decodes them per
the format specifications and compares with the image of the same run."""
import json
import os
import random

from .. import common as C
from .. import memmodel as M
from .. import tokenize as T

PROP = "C03"
TYPES = ["hex", "srec", "bin", "elf", "wdc", "uf2"]
# cpu, bytes per address
# "" = no CPU directive (the default CPU)
# riscv64 / arm64: the 64-bit ELF class
CARRIERS = [("msp430", 1), ("68000", 1), ("mips", 1), ("avr8", 2), ("arm", 1), ("", 1), ("riscv64", 1), ("arm64", 1)]


def render(layout, cpu, bpa, variant, order=None):
    lines = [".%s" % cpu] if cpu else []
    names = []
    for si in ([k - 1 for k in order] if order else range(len(layout))):
        s = layout[si]
        start = (s["st"]["h"] << 16) | s["st"]["l"]
        ln = s["len"]
        if bpa > 1:
            start -= start % bpa
        lines.append(".org 0x%x" % (start // bpa))
        nm = "seg%d" % si
        names.append(nm)
        lines.append("%s:" % nm)
        bs = [((start + i) * 31 + (start >> 16) * 7 + 5 + variant) & 0xff for i in range(ln)]
        for o in range(0, ln, 16):
            lines.append(".db " + ", ".join(str(b) for b in bs[o:o + 16]))
    if variant % 2 == 0:
        for nm in names:
            lines.append(".export %s" % nm)
    if variant % 3 == 0:
        lines.append(".entry_point %s" % names[-1])
    return "\n".join(lines) + "\n", names


def run(tier, seed):
    chk = C.Check(PROP, tier, seed, "model_checking")
    vdir = C.ensure_build("rel")
    # the image itself (core/Memory.cpp) against Image.tla: every property that reads the image rests on it
    M.run_image(chk, tier, seed, random.Random(seed + 17), PROP)
    rd = chk.rundir
    rnd = random.Random(seed)

    g = C.tlc("GenLayout", "gen_Layout_%s.cfg" % tier, rd, workers=8, heap="6g", prefixes=("CASE ", "ORD "))
    chk.add_tlc(g)
    layouts = C.parse_payload(g.lines, "CASE ")
    ordp = C.parse_payload(g.lines, "ORD ")
    if not ordp or len(ordp[0]) < 500:
        raise C.InfraError("no ordered layouts")
    ordcases = sorted(ordp[0], key=lambda x: json.dumps(x, sort_keys=True))
    if tier == "quick":
        ordcases = rnd.sample(ordcases, 60)
    if len(layouts) < 1000:
        raise C.InfraError("only %d layouts" % len(layouts))
    def pagegap(l):
        """two segments with a whole 64 KiB page between them that nothing is assembled in"""
        if len(l) != 2:
            return False
        e0 = ((l[0]["st"]["h"] << 16) | l[0]["st"]["l"]) + l[0]["len"] - 1
        return l[1]["st"]["h"] - (e0 >> 16) >= 2 and l[0]["len"] in (1, 17) and l[1]["len"] in (1, 17)
    if tier == "quick":
        singles = [l for l in layouts if len(l) == 1]
        gaps = [l for l in layouts if pagegap(l)]
        layouts = singles + gaps + rnd.sample([l for l in layouts if len(l) > 1 and not pagegap(l)], 200)
    else:
        singles = [l for l in layouts if len(l) <= 2]
        layouts = singles + rnd.sample([l for l in layouts if len(l) > 2], 6000)

    # layouts whose last byte is 0xffffffff or beyond make the writers' `for (n = low; n <= high; n++)`
    # loops spin (each costs a timeout): keep two of them
    def top(l):
        s = l[-1]
        return ((s["st"]["h"] << 16) | s["st"]["l"]) + s["len"] - 1 >= 0xffffffff
    def wraps(l):
        s = l[-1]
        return ((s["st"]["h"] << 16) | s["st"]["l"]) + s["len"] > (1 << 32)
    # an image that runs past 0xffffffff wraps to address 0 and is not a layout any format can describe
    tops = [l for l in layouts if top(l) and not wraps(l)]
    layouts = [l for l in layouts if not top(l)] + sorted(tops, key=lambda l: (len(l), l[-1]["len"]))[:4]

    # segments assembled in another order than the address order
    orders = {}
    for oc in ordcases:
        orders[len(layouts)] = oc["ord"]
        layouts.append(oc["segs"])

    # the ELF writer pads a section to the CPU's alignment (cpu_list[].alignment; 8 for the 64-bit CPUs)
    from .. import codec as K
    ALIGN = {c["name"]: c["align"] for c in K.cpu_list(vdir)}
    fdir = os.path.join(rd, "f")
    os.makedirs(fdir)
    cases, meta = [], {}
    for i, lay in enumerate(layouts):
        cpu, bpa = CARRIERS[i % len(CARRIERS)] if len(lay) > 1 else CARRIERS[(i // 3) % len(CARRIERS)]
        src, names = render(lay, cpu, bpa, i, orders.get(i))
        cid = "L%d" % i
        meta[cid] = (i, cpu, bpa, src, names, i % 2 == 0, i % 3 == 0)
        cases.append((cid, "types=%s prefix=%s/ syms=%s" % (",".join(TYPES), fdir, ";".join(names)), src))
    obs = C.conform_parallel(vdir, "file", cases, rd, "c03", 6, nproc=C.NCPU)
    byid = {o["case"]: o for o in obs}
    if len(byid) != len(cases):
        raise C.InfraError("conform returned %d of %d" % (len(byid), len(cases)))

    events = []
    for cid, (i, cpu, bpa, src, names, exported, has_entry) in meta.items():
        rec = byid[cid]
        if rec.get("died"):
            key = "layout:%s" % json.dumps(layouts[i])
            if rec.get("timeout") and top(layouts[i]):
                key = "fmt:writer-loop-when-high-address-is-0xffffffff"
            chk.report(key, "writer/loader died (%s) on\n%s" % (rec.get("san") or rec.get("sig"), src[:400]),
                       dict(source=src, observed=rec))
            continue
        if rec["r1"] != 0 or rec["r2"] != 0:
            raise C.InfraError("layout program rejected: %s\n%s" % (rec.get("out"), src[:300]))
        img = T.runs_hl(rec["img"])
        for t in TYPES:
            fi = rec["files"][t]
            data = open(fi["path"], "rb").read()
            os.unlink(fi["path"])
            if t == "wdc" and rec["high"] >= (1 << 24):
                continue        # the WDC container has 24-bit addresses; such an image is not representable
            ev = {"id": "%s.%s" % (cid, t), "type": t, "img": img, "low": T.hl(rec["low"]), "high": T.hl(rec["high"]),
                  "gran": max(4, ALIGN.get(cpu, 4)) if t == "elf" else 1, "file": T.LEXERS[t](data),
                  "syms": [{"n": n, "v": T.hl(rec["sym"][n])} for n in names] if (t == "elf" and exported) else [],
                  "load": True, "rr": fi["rr"], "rb": T.runs_hl(fi["rb"])}
            if has_entry and t in ("elf", "srec"):
                ev["entry"] = T.hl(rec["entry"])
            events.append(ev)

    # canaries: corrupt one field of a real, accepted file
    canaries = set()
    pool = [e for e in events if e["type"] in ("hex", "srec", "bin", "wdc")]
    for e in rnd.sample(pool, min(24, len(pool))):
        c = json.loads(json.dumps(e))
        c["id"] = "canary." + e["id"]
        c["load"] = False
        f = c["file"]
        if c["type"] == "hex":
            r = [x for x in f if x["typ"] == 0][0]
            r["data"][0] ^= 1
        elif c["type"] == "srec":
            r = [x for x in f if x["t"] in (1, 2, 3)][0]
            r["addr"][-1] ^= 1
        elif c["type"] == "bin":
            f["data"] = f["data"][1:] + [0]
            if all(b == f["data"][0] for b in f["data"]):
                continue
        elif c["type"] == "wdc":
            f["blocks"][0]["data"][-1] ^= 0x10
        canaries.add(c["id"])
        events.append(c)

    verdicts, runs = C.tlc_accept("TraceFormats", "trace_Formats.cfg", events, rd, "c03", heap="4g")
    for r in runs:
        chk.add_tlc(r)
    badids = {}
    for v in verdicts:
        badids.setdefault(v["id"], []).append(v)
    missed = [c for c in canaries if c not in badids]
    if missed:
        raise C.InfraError("canaries accepted: %s" % missed[:3])
    for eid, vs in sorted(badids.items()):
        if eid in canaries:
            continue
        cid, t = eid.split(".")
        i, cpu, bpa, src, names, exported, has_entry = meta[cid]
        for v in vs:
            key = "fmt:%s:%s:%s" % (t, v["side"], v["why"])
            if byid[cid]["low"] >= (1 << 31):
                key += "@low>=2^31"
            chk.report(key, "%s %s: %s (.%s, layout %s)" % (t, v["side"], v["why"], cpu, json.dumps(layouts[i])),
                       dict(source=src, type=t, side=v["side"], why=v["why"], layout=layouts[i], cpu=cpu))
    chk.cov.update(dict(
        evaluations=len(events) - len(canaries),
        distinct_nontrivial=len([l for l in layouts if len(l) >= 2 or l[0]["len"] > 16]),
        rule="TLC enumerates layouts of 1-3 disjoint segments (12 boundary start addresses x 9 lengths); each layout "
             "is assembled once and written in 6 formats; three-segment layouts over three 64 KiB pages are also assembled in every "
             "order of their segments; non-trivial = more than one segment or longer than a record",
        traces_validated_against_impl=len(events) - len(canaries),
        layouts=len(layouts), ordered_layouts=len(orders), types=TYPES, carriers=[c[0] for c in CARRIERS],
        canaries=dict(injected=len(canaries), rejected=len(canaries)), exhaustive=False))
    chk.samples = [meta[c][3][:400] for c in rnd.sample(sorted(meta), 2)]
    chk.assumptions = ["lexers in nv/tokenize.py split fields only", "bin/elf/uf2 may contain zero fill inside [low, high] rounded to the granule",
                       "the fixed Pico block (family 0xe48bff57) the uf2 writer prepends is not program content",
                       "macho and amiga outputs are not content-checked (the property lists hex, srec, elf, wdc, uf2, bin)"]
    return chk.finish()
