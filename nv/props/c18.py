"""C18: the listing file tells the truth about the output.

Listing.tla is the model: the layout of a program (where each statement's bytes go), the
per-instruction entries, the data-section walk of main() and the clauses of the property.
MCListing (TLC) checks the design on every small program.  GenListing (TLC) enumerates
program shapes; each is rendered for every CPU that has an instruction pool, assembled by
the real naken_asm with -l -type hex, the .lst is split into fields by nv/lst.py, the real
decoder is run on the bytes at every listed address, and TraceListing (TLC) decodes the hex
file, lays the program out with the model and evaluates every clause."""
import json
import os
import random
import subprocess
from concurrent.futures import ThreadPoolExecutor

from .. import common as C
from .. import codec
from .. import lst
from .. import tokenize as T

PROP = "C18"

ORGS = [0x200, 0x1000, 0xfff0, 0x12340]
# disasm/agc.cpp, pdp8.cpp print "0%04o:" and octal words, disasm/pdp11.cpp "0%04x:"
STYLE = {"agc": "octal", "pdp8": "octal", "pdp11": "pdp11"}
DATA = [4, 16, 20, 36]


def group_bytes(cpu, big, groups):
    """the bytes an opcode column stands for.  Default: each group is one value of len/2 bytes in
    the CPU's byte order (cpu_list[].default_endian).  Three formatters print something else:"""
    out = []
    if cpu == "arc":
        # disasm/arc.cpp: (read16(a) << 16) | read16(a + 2): two little-endian halves, high half first
        for g in groups:
            b = bytes.fromhex(g)
            for h in range(0, len(b), 2):
                out += list(b[h:h + 2][::-1])
        return out
    if cpu == "ps2_ee_vu1":
        # disasm/ps2_ee_vu.cpp prints the upper instruction (at +4) before the lower one (at +0)
        vals = [list(bytes.fromhex(g)[::-1]) for g in groups]
        for i in range(0, len(vals) - 1, 2):
            out += vals[i + 1] + vals[i]
        if len(vals) % 2:
            out += vals[-1]
        return out
    if cpu in ("dspic", "pic24"):
        # 24-bit instruction words in 4-byte slots: the phantom byte is not printed and is 0
        for g in groups:
            out += list(bytes.fromhex(g)[::-1]) + ([0] if len(g) == 6 else [])
        return out
    for g in groups:
        b = bytes.fromhex(g)
        out += list(b) if big else list(b[::-1])
    return out


def build_pools(vdir, rd, cpus, by):
    """(text, bytes) per CPU: corpus instructions that assemble alone to the same bytes at two addresses and
    whose bytes the decoder reads back with the same length"""
    corp = codec.corpus(set(by))
    texts = {}
    for c, t in corp:
        if ":" in t or t.startswith(".") or t.startswith("#"):
            continue
        texts.setdefault(c, set()).add(t)
    # CPUs without a comparison corpus: texts the decoder gives for byte patterns and the assembler takes back
    cases = []
    for c in sorted(set(by) - set(texts)):
        for pat in range(0, 65536, 131):
            body = "%04x%s" % (pat, codec.fill_for(pat, by[c]["type"]))
            cases.append(("%s.%04x" % (c, pat), "kind=dis cpu=%s addr=%d" % (c, 0x100), body))
    for o in C.conform_parallel(vdir, "codec", cases, rd, "pooldis", 10, nproc=C.NCPU):
        if o.get("acc") and o.get("len", 0) > 0 and o.get("loc") and "?" not in o.get("text", "?"):
            texts.setdefault(o["cpu"], set()).add(o["text"])
    cases = []
    for c in texts:
        texts[c] = sorted(texts[c])[:400]
        unit = max(by[c]["align"], by[c]["bpa"], 4)
        for a in (0x100, 0x2468):
            cases.append(("%s@%d" % (c, a), "kind=asm cpu=%s addr=%d" % (c, a - a % unit), "\n".join(texts[c])))
    res = {o["case"]: o for o in C.conform_parallel(vdir, "codec", cases, rd, "pool", 10, nproc=C.NCPU)}
    cand = {}
    for c, ts in texts.items():
        r1, r2 = res.get("%s@256" % c), res.get("%s@9320" % c)
        if not r1 or not r2 or "res" not in r1 or "res" not in r2:
            continue
        cand[c] = [(t, b1) for t, (ok1, b1), (ok2, b2) in zip(ts, r1["res"], r2["res"]) if ok1 and ok2 and b1 == b2 and b1]
    cases = []
    for c, p in cand.items():
        if p:
            for fill in ("00", "ff"):
                cases.append((c + "." + fill, "kind=dec cpu=%s" % c, "\n".join("%d %s" % (0x100, b + fill * 8) for t, b in p)))
    res = {o["case"]: o for o in C.conform_parallel(vdir, "codec", cases, rd, "pooldec", 10, nproc=C.NCPU)}
    pools = {}
    for c, p in cand.items():
        r, r2 = res.get(c + ".00"), res.get(c + ".ff")
        if not r or "res" not in r or not r2 or "res" not in r2:
            continue
        # the decoder reads the instruction back with its assembled length, and its text does not depend on the
        # bytes behind the instruction (decoders that look further are C08 findings, not listing defects)
        keep = [(t, b) for (t, b), (n, txt), (n2, txt2) in zip(p, r["res"], r2["res"]) if n == len(b) // 2 and n2 == n and txt2 == txt]
        if len(keep) >= 3:
            pools[c] = keep
    return pools


def render(shape, cpu, info, pool, rnd, incdir, cid):
    """-> (source text, stmts for the model)"""
    bpa = info["bpa"]
    lens = sorted(set(len(b) // 2 for t, b in pool))
    short = [x for x in pool if len(x[1]) // 2 == lens[0]]
    long_ = [x for x in pool if len(x[1]) // 2 == lens[-1]]

    def pick(c):
        return rnd.choice(long_ if c else short)

    unit = max(4, bpa)          # data sizes are multiples of the address unit

    def up(n):
        return (n + unit - 1) // unit * unit

    def st(k, n=0, m=0, d=0, c=0, name="", listed=True):
        return dict(k=k, n=n, m=m, d=d, c=c, name=name, listed=listed)

    head = [".%s" % cpu]
    body, stmts = [], []
    nmac = 0
    for i, s in enumerate(shape):
        k, c = s["k"], s["c"]
        if k == "org":
            a = ORGS[c] - ORGS[c] % max(bpa, 4)
            body.append(".org 0x%x" % (a // bpa))
            stmts.append(st("org", a))
        elif k == "label":
            body.append("l%d:" % i)
            stmts.append(st("label", name="l%d" % i))
        elif k == "insn":
            t, b = pick(c)
            body.append("  " + t)
            stmts.append(st("insn", len(b) // 2))
        elif k == "data":
            n = up(DATA[c])
            v = (i + n) % 3
            vals = [(7 * j + 3 * i + 1) & 0xff for j in range(n)]
            if v == 0:
                body.append("  .db " + ", ".join(str(x) for x in vals))
            elif v == 1:
                body.append("  .dw " + ", ".join("0x%x" % (vals[j] | (vals[j + 1] << 8)) for j in range(0, n, 2)))
            else:
                body.append("  .dc32 " + ", ".join("0x%x" % int.from_bytes(bytes(vals[j:j + 4]), "little") for j in range(0, n, 4)))
            stmts.append(st("data", n))
        elif k == "res":
            body.append("  .resb %d" % unit)
            stmts.append(st("res", unit))
        elif k == "macro":
            (t1, b1), (t2, b2) = pick(0), pick(1)
            nmac += 1
            head += [".macro MAC%d" % nmac, "  " + t1, "  " + t2, ".endm"]
            body.append("  MAC%d" % nmac)
            stmts.append(st("macro", len(b1) // 2, len(b2) // 2))
        elif k == "rep":
            if c == 0:
                t, b = pick(0)
                body += [".repeat 3", "  " + t, ".endr"]
                stmts.append(st("rep", len(b) // 2, c=3))
            elif c == 1:
                (t1, b1), (t2, b2) = pick(1), pick(0)
                body += [".repeat 2", "  " + t1, "  " + t2, ".endr"]
                stmts.append(st("rep", len(b1) // 2, len(b2) // 2, c=2))
            elif c == 2:
                body += [".repeat 2", "  .db " + ", ".join(str(x + 1) for x in range(unit)), ".endr"]
                stmts.append(st("rep", d=unit, c=2))
            else:
                t, b = pick(0)
                body += [".repeat 2", "  " + t, "  .db " + ", ".join(str(x + 5) for x in range(unit)), ".endr"]
                stmts.append(st("rep", len(b) // 2, d=unit, c=2))
        elif k == "inc":
            t, b = pick(0)
            path = os.path.join(incdir, "%s_%d.inc" % (cid, i))
            with open(path, "w") as fh:
                fh.write((".list\n" if c else "") + "  %s\n  .db %s\n" % (t, ", ".join(str(9 - x) for x in range(unit))))
            body.append('.include "%s"' % path)
            stmts.append(st("inc", len(b) // 2, unit, listed=bool(c)))
    return "\n".join(head + body) + "\n", stmts


def codec_text(toks):
    return " ".join(str(t["v"]) for t in toks)


def run_one(a):
    exe, d, cid, src = a
    f = os.path.join(d, cid + ".asm")
    with open(f, "w") as fh:
        fh.write(src)
    try:
        p = subprocess.run([exe, "-l", "-type", "hex", "-o", os.path.join(d, cid + ".hex"), f], stdout=subprocess.PIPE,
                           stderr=subprocess.STDOUT, timeout=20, cwd=d)
        rc = p.returncode
        out = p.stdout.decode(errors="replace")
    except subprocess.TimeoutExpired:
        return cid, -9, "timeout", None, None
    hexb = lst_t = None
    try:
        hexb = open(os.path.join(d, cid + ".hex"), "rb").read()
        os.unlink(os.path.join(d, cid + ".hex"))
    except OSError:
        pass
    try:
        lst_t = open(os.path.join(d, cid + ".lst"), errors="replace").read()
        os.unlink(os.path.join(d, cid + ".lst"))
    except OSError:
        pass
    return cid, rc, out[-300:], hexb, lst_t


def image_of(recs):
    """context bytes for the decoder only: the verdict decodes the file in TLA+"""
    img, upper = {}, 0
    for r in recs:
        if "bad" in r:
            continue
        if r["typ"] == 4 and len(r["data"]) == 2:
            upper = (r["data"][0] << 8) | r["data"][1]
        elif r["typ"] == 0:
            base = (upper << 16) + r["ah"] * 256 + r["al"]
            for i, b in enumerate(r["data"]):
                img[base + i] = b
    return img


def lfsr_part(chk, vdir, rd, tier, rnd):
    """TMS1000 / TMS1100 (ListingLfsr.tla): programs of one-byte instructions at the start, in the middle and at the end of
    pages, in both chapters of the TMS1100; the listing lines are lexed and TLC compares their claims with the hex output"""
    import re as _re
    exe = os.path.join(vdir, "naken_asm")
    wd = os.path.join(rd, "lfsr")
    os.makedirs(wd)
    # mnemonics without an operand that the assembler takes: from the decoder's renderings of all 256 bytes
    events, nprog = [], 0
    for cpu, origins in (("tms1000", [0, 0x3d, 0x1c0, 0x3c0, 0x3f8]), ("tms1100", [0, 0x3d, 0x3c0, 0x400, 0x43d, 0x7c0, 0x7f8])):
        dcases = [("%s.%02x" % (cpu, b), "kind=dis cpu=%s addr=0" % cpu, "%02x00" % b) for b in range(256)]
        words = sorted({o["text"].strip() for o in C.conform_parallel(vdir, "codec", dcases, rd, "lfsr" + cpu, 10, nproc=4)
                        if o.get("acc") and o.get("text") and " " not in o["text"].strip()})
        if len(words) < 8:
            raise C.InfraError("only %d operand-free %s instructions" % (len(words), cpu))
        for oi, org in enumerate(origins):
            for k in range(2 if tier == "quick" else 6):
                n = [3, 9, 20, 70][(oi + k) % 4]
                if org + n > (0x400 if cpu == "tms1000" else 0x800):
                    n = 5
                ins = [words[(7 * j + 3 * k + oi) % len(words)] for j in range(n)]
                src = ".%s\n.org 0x%x\n" % (cpu, org) + "".join("  %s\n" % w for w in ins)
                base = "%s_%d_%d" % (cpu, oi, k)
                open(os.path.join(wd, base + ".asm"), "w").write(src)
                p = subprocess.run([exe, "-l", "-o", base + ".hex", base + ".asm"], cwd=wd, stdout=subprocess.PIPE, stderr=subprocess.STDOUT, timeout=20)
                hp, lp = os.path.join(wd, base + ".hex"), os.path.join(wd, base + ".lst")
                if p.returncode != 0 or not os.path.exists(hp) or not os.path.exists(lp):
                    continue
                recs = T.LEXERS["hex"](open(hp, "rb").read())
                img = image_of(recs)
                lines = []
                for ln in open(lp, errors="replace").read().split("\n"):
                    m = _re.match(r"^([0-9a-f]{3})\|(\d+) (?:([0-9a-f])/)?([0-9a-f])/([0-9a-f]{2}): ([0-9a-f]{2}) ", ln)
                    if m:
                        lines.append(dict(lin=int(m.group(1), 16), pos=int(m.group(2)), c=int(m.group(3), 16) if m.group(3) else 0,
                                          p=int(m.group(4), 16), ll=int(m.group(5), 16), b=int(m.group(6), 16)))
                nprog += 1
                events.append(dict(id=base, cpu=cpu, lines=lines, img=[dict(a=a, b=b) for a, b in sorted(img.items())], src=src))
    if nprog < 10:
        raise C.InfraError("only %d TMS1000/TMS1100 programs assembled" % nprog)
    canaries = set()
    for e in rnd.sample([x for x in events if x["lines"]], 4):
        c = json.loads(json.dumps(e))
        c["id"] = "canary." + e["id"]
        c["lines"][0]["b"] ^= 1
        canaries.add(c["id"])
        events.append(c)
    srcs = {e["id"]: e.pop("src") for e in events}
    verdicts, runs = C.tlc_accept("TraceListingLfsr", "trace_ListingLfsr.cfg", events, rd, "lfsr", heap="2g", nchunks=2)
    for r in runs:
        chk.add_tlc(r)
    bad = {v["id"]: v["why"] for v in verdicts}
    if [c for c in canaries if c not in bad]:
        raise C.InfraError("LFSR listing canaries accepted")
    for vid, why in sorted(bad.items()):
        if vid in canaries:
            continue
        cpu = vid.split("_")[0]
        chk.report("lst:%s:%s" % (cpu, why), "%s: the listing of\n%s" % (why, srcs[vid]), dict(source=srcs[vid], why=why))
    return nprog


def run(tier, seed):
    chk = C.Check(PROP, tier, seed, "model_checking")
    vdir = C.ensure_build("rel")
    rd = chk.rundir
    rnd = random.Random(seed)
    cpus = codec.cpu_list(vdir)
    by = {c["name"]: c for c in cpus}

    # 1. the design (the three address units side by side: the thorough configuration takes about half an hour each)
    def mc(bpa):
        cfg = C.tlc_cfg_with("mc_Listing_%s.cfg" % tier, os.path.join(rd, "cfg%d" % bpa), {"Bpa": bpa})
        return bpa, C.tlc("MCListing", cfg, os.path.join(rd, "mc%d" % bpa), workers=6, heap="8g", timeout=5400)
    for bpa in (1, 2, 4):
        os.makedirs(os.path.join(rd, "cfg%d" % bpa))
    with ThreadPoolExecutor(3) as ex:
        for bpa, r in ex.map(mc, (1, 2, 4)):
            chk.add_tlc(r)
            if not r.ok:
                chk.report("model:%s" % r.violated, "Listing design violates %s (bytes per address %d)" % (r.violated, bpa),
                           dict(out=r.out[-3000:]))

    # 2. shapes
    g = C.tlc("GenListing", "gen_Listing_%s.cfg" % tier, os.path.join(rd, "gen"), workers=4, heap="4g")
    chk.add_tlc(g)
    shapes = C.parse_payload(g.lines, "CASE ")
    if len(shapes) < 4000:
        raise C.InfraError("only %d shapes" % len(shapes))
    pools = build_pools(vdir, rd, cpus, by)
    if len(pools) < 40:
        raise C.InfraError("only %d instruction pools" % len(pools))
    per_cpu = 14 if tier == "quick" else 260
    wd = os.path.join(rd, "w")
    os.makedirs(wd)
    jobs, meta = [], {}
    full = [s for s in shapes if len(s) == max(len(x) for x in shapes)]
    for ci, cpu in enumerate(sorted(pools)):
        pick = rnd.sample(full, per_cpu - 4) + rnd.sample([s for s in shapes if len(s) <= 2], 4)
        for si, shape in enumerate(pick):
            cid = "%s_%d" % (cpu, si)
            src, stmts = render(shape, cpu, by[cpu], pools[cpu], rnd, wd, cid)
            meta[cid] = (cpu, shape, src, stmts)
            jobs.append((os.path.join(vdir, "naken_asm"), wd, cid, src))
    # every pool instruction at two alignments: behind the CPU's shortest instruction and behind itself
    # (the shapes above draw their instructions; a formatter can be wrong for one instruction at one alignment only)
    for ci, cpu in enumerate(sorted(pools)):
        pool = sorted(pools[cpu])
        rnd.shuffle(pool)
        if tier == "quick":
            pool = pool[:48]
        shortest = min(pool, key=lambda x: (len(x[1]), x[0]))
        bpa = by[cpu]["bpa"]
        for k in range(0, len(pool), 12):
            cid = "%s_sweep%d" % (cpu, k // 12)
            a = 0x200 - 0x200 % max(bpa, 4)
            lines = [".%s" % cpu, ".org 0x%x" % (a // bpa)]
            stmts = [dict(k="org", n=a, m=0, d=0, c=0, name="", listed=True)]
            for t, b in pool[k:k + 12]:
                for tt, bb in ((shortest[0], shortest[1]), (t, b), (t, b)):
                    lines.append("  " + tt)
                    stmts.append(dict(k="insn", n=len(bb) // 2, m=0, d=0, c=0, name="", listed=True))
            src = "\n".join(lines) + "\n"
            meta[cid] = (cpu, [{"k": "sweep", "c": k}], src, stmts)
            jobs.append((os.path.join(vdir, "naken_asm"), wd, cid, src))
            # the same statements far down a long source file: the instructions stand on lines 65533.. (the assembler keeps
            # a source line per byte next to its data markers; nothing in the listing model depends on the line number)
            if k == 0 and (tier == "thorough" or (ci + seed) % 8 == 0):
                deep = [lines[0]] + ["; line %d" % n for n in range(2, 65531)] + lines[1:]
                cid = "%s_deep" % cpu
                meta[cid] = (cpu, [{"k": "deep", "c": 0}], "\n".join(deep) + "\n", stmts)
                jobs.append((os.path.join(vdir, "naken_asm"), wd, cid, "\n".join(deep) + "\n"))
    with ThreadPoolExecutor(C.NCPU) as ex:
        results = list(ex.map(run_one, jobs))

    events, rejected = [], {}
    deccases = {}
    parsed = {}
    listings = {}
    allclaims = {}
    for cid, rc, out, hexb, lst_t in results:
        cpu, shape, src, stmts = meta[cid]
        if rc == -9:
            chk.report("lst:%s:timeout" % cpu, "naken_asm -l did not finish on\n%s" % src, dict(source=src))
            continue
        if rc != 0 or hexb is None or lst_t is None:
            rejected[cpu] = rejected.get(cpu, 0) + 1
            continue
        stop = set(t.split()[0].lower() for t, b in pools[cpu])
        L = lst.parse(lst_t, stop, STYLE.get(cpu, "hex"))
        recs = T.LEXERS["hex"](hexb)
        img = image_of(recs)
        bpa = by[cpu]["bpa"]
        big = by[cpu]["endian"] == 1
        ents = []
        lines = []
        claims = []
        for en in L["entries"]:
            bs = []
            for a, groups in en["lines"]:
                lb = group_bytes(cpu, big, groups)
                claims.append(dict(a=a, b=lb))
                bs += lb
            a = en["a"]
            ents.append(dict(a=a, b=bs, t=codec.tlc_tokens(codec.normalise(en["text"]))))
            ctx = [img.get(a * bpa + k, 0) for k in range(max(16, len(bs)))]
            lines.append("%d %s" % (a * bpa, bytes(ctx).hex()))
        allclaims[cid] = claims
        parsed[cid] = (L, recs, ents)
        listings[cid] = lst_t
        if lines:
            deccases[cid] = (cid, "kind=dec cpu=%s" % cpu, "\n".join(lines))
    dec = {o["case"]: o for o in C.conform_parallel(vdir, "codec", list(deccases.values()), rd, "dec", 10, nproc=C.NCPU)}
    for cid, (L, recs, ents) in parsed.items():
        cpu, shape, src, stmts = meta[cid]
        d = dec.get(cid, {}).get("res", [])
        if len(d) != len(ents):
            if ents:
                raise C.InfraError("decoder results missing for %s" % cid)
        for e, (n, txt) in zip(ents, d):
            e["dl"] = n
            e["dt"] = codec.tlc_tokens(codec.normalise(txt))
        if L["low"] is None or L["high"] is None:
            chk.report("lst:%s:no address summary" % cpu, "listing has no Low/High Address lines\n%s" % src, dict(source=src))
            continue
        events.append(dict(id=cid, bpa=by[cpu]["bpa"], stmts=stmts, file=recs, entries=ents, claims=allclaims[cid],
                           rows=[dict(a=a, b=b) for a, b in L["rows"]],
                           syms=[dict(n=n, v=v) for n, v, sc in L["syms"]],
                           low=dict(x=L["low"][0], d=L["low"][1]), high=dict(x=L["high"][0], d=L["high"][1])))
    bad_cpus = [c for c in pools if rejected.get(c, 0) > per_cpu // 2]
    if len(events) < len(jobs) * 0.7:
        raise C.InfraError("only %d of %d programs assembled (%s)" % (len(events), len(jobs), rejected))

    # canaries: one field of an accepted listing changed
    canaries = {}
    pool = [e for e in events if e["entries"] and e["rows"] and e["syms"]]
    for i, e in enumerate(rnd.sample(pool, min(20, len(pool)))):
        c = json.loads(json.dumps(e))
        c["id"] = "canary." + e["id"]
        kind = i % 5
        if kind == 0:
            c["claims"][0]["b"][0] ^= 1
            want = "ListedBytesTrue"
        elif kind == 1:
            c["rows"] = c["rows"][1:]
            want = "EveryByteListed"
        elif kind == 2:
            c["syms"][0]["v"] += 1
            want = "SymbolsTrue"
        elif kind == 3:
            c["high"]["x"] += 1
            c["high"]["d"] += 1
            want = "LowHighTrue"
        else:
            c["entries"][-1]["dl"] += 1
            want = "TextIsDisasm"
        canaries[c["id"]] = want
        events.append(c)

    verdicts, runs = C.tlc_accept("TraceListing", "trace_Listing.cfg", events, rd, "c18", heap="4g")
    for r in runs:
        chk.add_tlc(r)
    got = {v["id"]: v["why"] for v in verdicts}
    missed = [c for c, want in canaries.items() if not any(w.startswith(want) for w in got.get(c, []))]
    if missed:
        raise C.InfraError("canaries accepted: %s" % missed[:3])
    skipped = {}
    for eid, why in sorted(got.items()):
        if eid in canaries:
            continue
        cpu, shape, src, stmts = meta[eid]
        for w in why:
            if w.startswith("skip:"):
                skipped[w] = skipped.get(w, 0) + 1
                skipped.setdefault("cpus:" + w, set()).add(cpu)
                continue
            key = "lst:%s:%s" % (cpu, w)
            if w.endswith("code of an include file without .list"):
                key = "lst:" + w
            chk.report(key, "%s: %s on\n%s" % (cpu, w, src[:600]), dict(source=src, cpu=cpu, why=w, shape=shape, listing=listings.get(eid, '')[:4000],
                            entries=[(e['a'], len(e['b']), e.get('dl'), codec_text(e['t']), codec_text(e.get('dt', []))) for e in parsed[eid][2]]))
    nskip = sum(v for k, v in skipped.items() if not k.startswith("cpus:"))
    if nskip > len(events) * 0.25:
        raise C.InfraError("too many programs outside the model: %s" % {k: (sorted(v) if isinstance(v, set) else v) for k, v in skipped.items()})
    nreal = len(events) - len(canaries)
    nlfsr = lfsr_part(chk, vdir, rd, tier, rnd)
    chk.cov.update(dict(
        lfsr_programs=nlfsr,
        evaluations=nreal, traces_validated_against_impl=nreal - nskip,
        distinct_nontrivial=len([1 for cid in parsed if len(meta[cid][1]) >= 3]),
        rule="TLC enumerates statement sequences (org/label/insn/data/resb/macro/repeat/include); each chosen shape is "
             "rendered per CPU with instructions of that CPU's corpus pool; plus, per CPU, every pool instruction (quick: 48 of them) behind the "
             "shortest instruction and behind itself; non-trivial = three or more statements",
        cpus=sorted(pools), cpus_without_pool=sorted(set(by) - set(pools) - {"tms1000", "tms1100"}), cpus_mostly_rejected=bad_cpus,
        shapes=len(shapes), programs=len(jobs), rejected_by_assembler=rejected,
        outside_model={k: v for k, v in skipped.items() if not k.startswith("cpus:")},
        entries=sum(len(e["entries"]) for e in events), rows=sum(len(e["rows"]) for e in events),
        canaries=dict(injected=len(canaries), rejected=len(canaries)), exhaustive=False))
    chk.samples = [meta[c][2][:400] for c in rnd.sample(sorted(parsed), min(2, len(parsed)))]
    chk.assumptions = ["nv/lst.py and nv/tokenize.py split fields only",
                       "which bytes an opcode column stands for: the CPU's byte order from cpu_list[], three formatters described in group_bytes()",
                       "pool instructions are those whose decoder length equals their assembled length (decoder/encoder disagreements are C01/C06/C07/C08)",
                       "addresses below 2^24; instruction sizes measured by assembling each instruction alone"]
    return chk.finish()
