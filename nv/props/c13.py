"""C13: assembly is a deterministic function of the source alone.

Sources: TLC-generated data-directive programs (GenAsmData), two-pass programs on several
carriers (GenTwoPass), fixed instruction programs and the repository's samples.  For every
source: (a) in-process histories A | A;A | B;A | failing C;A, with the pass-1 leftover
detector; (b) the real executable with every reporting-option set, output type and two
output paths.  TraceDeterm (TLC) requires every run of a group to give the reference image
and decodes every written file (ObjFormats) against that reference."""
import glob
import hashlib
import json
import os
import random
import subprocess
from concurrent.futures import ThreadPoolExecutor

from .. import common as C
from .. import memmodel as M
from .. import asmtext as A
from .. import tokenize as T
from . import c02, c12

PROP = "C13"
OPTSETS = [[], ["-l"], ["-q"], ["-dump_symbols"], ["-dump_macros"], ["-l", "-dump_symbols", "-dump_macros"]]
TYPES = ["hex", "srec", "bin", "elf", "wdc", "uf2"]
OTHER = ".msp430\n.org 0x4000\nzz:\n.db 9, 8, 7\n  mov.w #zz, r9\n.dc32 0x11223344\n"
FAIL = ".msp430\n.org 0x10\n.db 1\n  bogus r1\n"
SEP = "\n@@@NEXT@@@\n"


def cli_run(args):
    exe, d, gid, src, opts, typ, name = args
    sp = os.path.join(d, "%s.asm" % gid)
    op = os.path.join(d, "%s_%s.%s" % (name, typ, typ))
    try:
        p = subprocess.run([exe, "-type", typ, "-o", op, "-I", os.path.join(C.REPO, "include")] + opts + [sp],
                           cwd=d, stdout=subprocess.PIPE, stderr=subprocess.STDOUT, timeout=60)
        rc = p.returncode
    except subprocess.TimeoutExpired:
        rc = -9
    data = open(op, "rb").read() if os.path.exists(op) else None
    for f in (op, os.path.splitext(op)[0] + ".lst"):
        try:
            os.unlink(f)
        except OSError:
            pass
    return gid, opts, typ, name, rc, data


def run(tier, seed):
    chk = C.Check(PROP, tier, seed, "model_checking")
    rnd = random.Random(seed)
    vdir = C.ensure_build("rel")
    # the image itself (core/Memory.cpp) against Image.tla: every property that reads the image rests on it
    M.run_image(chk, tier, seed, random.Random(seed + 17), PROP)
    rd = chk.rundir

    sources = []
    g1 = C.tlc("GenAsmData", "gen_AsmData_sim.cfg", rd, workers=4, heap="4g", simulate=(60 if tier == "quick" else 600), depth=20, seed=seed)
    chk.add_tlc(g1)
    for i, p in enumerate(C.parse_payload(g1.lines, "CASE ")):
        cpu = ["msp430", "68000", "avr8"][i % 3]
        sources.append(("data%d" % i, A.render_prog(p, cpu, i)))
    g2 = C.tlc("GenTwoPass", "gen_TwoPass_sim.cfg", rd, workers=4, heap="4g", simulate=(60 if tier == "quick" else 600), depth=16, seed=seed)
    chk.add_tlc(g2)
    for i, p in enumerate(C.parse_payload(g2.lines, "CASE ")):
        cpu, tmpl, big, rule, modelled = c02.CARRIERS[i % len(c02.CARRIERS)]
        sources.append(("tp%d" % i, c02.render(p, cpu, tmpl)))
    for k, lines in c12.BASES.items():
        sources.append(("base%d" % k, ".msp430\n" + "\n".join(lines) + "\n"))
    samples = sorted(glob.glob(os.path.join(C.REPO, "samples", "**", "*.asm"), recursive=True))
    if tier == "quick":
        samples = rnd.sample(samples, min(25, len(samples)))
    # per-CPU instruction programs (tests/comparison): each is also assembled behind the programs of other CPUs in one
    # process - the variants that share a back end (riscv/riscv64, mips/mips32/pic32/ps2_ee, msp430/msp430x, ...) first
    from .. import codec as K
    import re as _re
    cpuprog = {}
    for cpu, text in K.corpus({c["name"] for c in K.cpu_list(vdir)}):
        if ":" in text:
            continue
        cpuprog.setdefault(cpu, [])
        if len(cpuprog[cpu]) < 14:
            cpuprog[cpu].append(text)
    for cpu in ("riscv", "riscv64", "mips", "mips32"):
        if cpu in cpuprog:
            cpuprog[cpu] += ["li " + ("t0" if cpu.startswith("riscv") else "$t0") + ", 0x12345", "li " + ("t1" if cpu.startswith("riscv") else "$t1") + ", -5000"]
    cpusrc = {cpu: ".%s\n.org 0x1000\n" % cpu + "".join("  %s\n" % t for t in ts) for cpu, ts in cpuprog.items()}
    vhist = {}
    names = sorted(cpusrc)
    for cpu in names:
        def closeness(o):
            n = 0
            while n < min(len(o), len(cpu)) and o[n] == cpu[n]:
                n += 1
            return -n
        others = sorted([o for o in names if o != cpu], key=lambda o: (closeness(o), o))
        pick_o = others[:4] + (rnd.sample(others[4:], 2) if tier == "quick" else others[4:])
        sources.append(("cpu_" + cpu, cpusrc[cpu]))
        vhist["cpu_" + cpu] = pick_o

    # the ELF writer pads .text to the CPU's alignment (as in C03: the granule of the span clause)
    ALIGNS = {c["name"]: c["align"] for c in K.cpu_list(vdir)}

    def gran_of(src):
        first = src.lstrip().split("\n")[0].strip()
        return max(4, ALIGNS.get(first[1:].split()[0] if first.startswith(".") else "", 4))
    # (a) in-process histories
    cases = []
    for gid, src in sources:
        cases.append((gid + ".ref", "imgmax=20000", src))
        cases.append((gid + ".left", "imgmax=20000 leftover=1", src))
        cases.append((gid + ".AA", "imgmax=20000", src + SEP + src))
        cases.append((gid + ".BA", "imgmax=20000", OTHER + SEP + src))
        cases.append((gid + ".CA", "imgmax=20000", FAIL + SEP + src))
        for o in vhist.get(gid, []):
            cases.append(("%s.V_%s" % (gid, o), "imgmax=20000", cpusrc[o] + SEP + src))
    # every history in a process of its own: a reference run must not inherit what another case left in static storage
    obs = C.conform_parallel(vdir, "asm", cases, rd, "c13", 20, nproc=C.NCPU, fresh=True)
    byid = {o["case"]: o for o in obs}

    def runs_of(o):
        return [{"a": a, "d": list(bytes.fromhex(h))} for a, h in o["img"]]
    events = []
    refs = {}
    for gid, src in sources:
        r = byid.get(gid + ".ref")
        if r is None or r.get("died") or r["r1"] != 0 or r["r2"] != 0 or r.get("trunc"):
            continue
        if any(a >= (1 << 31) for a, h in r["img"]):
            continue
        refs[gid] = (src, r)
        runs = []
        for how in ["left", "AA", "BA", "CA"] + ["V_" + o for o in vhist.get(gid, [])]:
            o = byid.get("%s.%s" % (gid, how))
            if o is None or o.get("died"):
                runs.append({"how": how, "ok": False, "img": [], "left": []})
            else:
                runs.append({"how": how, "ok": o["r1"] == 0 and o["r2"] == 0, "img": runs_of(o), "left": o.get("left", [])})
        events.append({"id": gid, "kind": "group", "ref": runs_of(r), "runs": runs})

    # (b) the executable: options x types x names, decoded against the reference image
    exe = os.path.join(vdir, "naken_asm")
    wd = os.path.join(rd, "w")
    os.makedirs(wd)
    jobs = []
    pick = sorted(refs)
    if tier == "quick":
        pick = rnd.sample(pick, min(40, len(pick)))
    for gid in pick:
        src, r = refs[gid]
        for oi, opts in enumerate(OPTSETS):
            for ti, typ in enumerate(TYPES):
                if tier == "quick" and (oi + ti) % 3:
                    continue
                jobs.append((exe, wd, gid, src, opts, typ, "%s_o%d" % (gid, oi)))
        for typ in TYPES:
            jobs.append((exe, wd, gid, src, [], typ, "a_much_longer_and_different_output_name_%s" % gid))
    for gid in pick:
        with open(os.path.join(wd, "%s.asm" % gid), "w") as fh:
            fh.write(refs[gid][0])
    digests = {}
    with ThreadPoolExecutor(C.NCPU) as ex:
        for gid, opts, typ, name, rc, data in ex.map(cli_run, jobs):
            src, r = refs[gid]
            how = "%s %s -> %s" % (" ".join(opts) or "(no options)", typ, name)
            if rc != 0 or data is None:
                chk.report("cli:%s:%s" % (typ, " ".join(opts)), "naken_asm %s failed (rc %s) on a source the library interface assembles\n%s" % (how, rc, src[:300]),
                           dict(source=src, how=how, rc=rc))
                continue
            if typ == "wdc" and r["high"] >= (1 << 24):
                continue
            body = data
            if typ == "srec":       # the S0 header carries the time of day
                body = b"\n".join(l for l in data.split(b"\n") if not l.startswith(b"S0"))
            digests.setdefault((gid, typ), set()).add(hashlib.md5(body).hexdigest())
            events.append({"id": "%s|%s" % (gid, how), "kind": "file", "how": how, "type": typ, "img": T.runs_hl(r["img"]),
                           "low": T.hl(r["low"]), "high": T.hl(r["high"]), "gran": gran_of(src) if typ == "elf" else 4, "file": T.LEXERS[typ](data), "syms": []})
    for (gid, typ), ds in digests.items():
        if len(ds) > 1:
            chk.report("cli:bytes-differ:%s" % typ, "the %s output of one source differs between option sets/output names (%s)" % (typ, gid),
                       dict(source=refs[gid][0], type=typ))

    # samples: two runs with different reporting options must be byte identical
    sjobs = []
    for si, f in enumerate(samples):
        sjobs.append((exe, f, [], "s%d_a" % si))
        sjobs.append((exe, f, ["-l", "-dump_symbols"], "s%d_b" % si))

    def sample_run(a):
        exe_, f, opts, name = a
        op = os.path.join(wd, name + ".hex")
        try:
            p = subprocess.run([exe_, "-q", "-o", op, "-I", os.path.join(C.REPO, "include")] + opts + [os.path.basename(f)],
                               cwd=os.path.dirname(f), stdout=subprocess.PIPE, stderr=subprocess.STDOUT, timeout=120)
            rc = p.returncode
        except subprocess.TimeoutExpired:
            rc = -9
        d = open(op, "rb").read() if os.path.exists(op) else None
        for x in (op, op[:-4] + ".lst"):
            if os.path.exists(x):
                os.unlink(x)
        return f, name, rc, d
    sres = {}
    with ThreadPoolExecutor(C.NCPU) as ex:
        for f, name, rc, d in ex.map(sample_run, sjobs):
            sres.setdefault(f, []).append((rc, hashlib.md5(d).hexdigest() if d else None))
    nsamples = 0
    for f, rs in sres.items():
        if rs[0][0] == 0:
            nsamples += 1
        if rs[0] != rs[1]:
            chk.report("sample:" + os.path.relpath(f, C.REPO), "sample assembles differently with -l -dump_symbols: %s" % rs, dict(sample=f, runs=rs))

    canaries = set()
    grp = [e for e in events if e["kind"] == "group" and e["ref"]]
    for e in rnd.sample(grp, min(10, len(grp))):
        c = json.loads(json.dumps(e))
        c["id"] = "canary." + e["id"]
        c["runs"][rnd.randrange(len(c["runs"]))]["img"][0]["d"][0] ^= 2
        canaries.add(c["id"])
        events.append(c)
    verdicts, runs = C.tlc_accept("TraceDeterm", "trace_Determ.cfg", events, rd, "c13", heap="3g")
    for r in runs:
        chk.add_tlc(r)
    bad = {v["id"]: v for v in verdicts}
    missed = [c for c in canaries if c not in bad]
    if missed:
        raise C.InfraError("canaries accepted: %s" % missed[:3])
    for vid, v in sorted(bad.items()):
        if vid in canaries:
            continue
        gid = vid.split("|")[0]
        src = refs[gid][0]
        cpu = src.split("\n")[0].strip()
        chk.report("determ:%s:%s:%s" % (cpu, v["why"], ",".join(sorted(v["hows"]))[:60]),
                   "%s (%s)\n%s" % (v["why"], sorted(v["hows"]), src[:500]), dict(source=src, why=v["why"], hows=sorted(v["hows"])))
    chk.cov.update(dict(
        evaluations=len(cases) + len(jobs) + len(sjobs),
        distinct_nontrivial=len(refs) + nsamples,
        rule="sources: TLC-drawn data programs and two-pass programs on several carriers, fixed msp430 programs, repository "
             "samples; per source 4 in-process histories (A;A, B;A, failing C;A, leftover detector) and the executable with 6 "
             "option sets x 6 types x 2 output names (quick: a third); non-trivial = sources that assemble; distinct by source",
        traces_validated_against_impl=len(events) - len(canaries), samples_assembled=nsamples,
        canaries=dict(injected=len(canaries), rejected=len(canaries)), exhaustive=False))
    chk.samples = [s[1][:300] for s in rnd.sample(sources, 3)]
    chk.assumptions = ["the S0 header of S-record files (time stamp) is masked", "files are decoded with the lexers and decoders of C03"]
    return chk.finish()
