"""C01: assembler and disassembler agree (encode -> decode -> encode), exact tiling,
and architecture-defined encodings for MSP430 and RV32I."""
import json
import random
import re

from .. import common as C
from .. import memmodel as M
from .. import codec as K

PROP = "C01"


def msp430_text(i, at):
    """the naken_asm spelling of an assembly-level MSP430 instruction of GenMsp430Enc"""
    def opnd(o):
        m = o["m"]
        if m == "reg":
            return "r%d" % o["r"]
        if m == "idx":
            return "%d(r%d)" % (o["v"], o["r"])
        if m == "sym":
            return "0x%x" % o["v"]
        if m == "abs":
            return "&0x%x" % o["v"]
        if m == "ind":
            return "@r%d" % o["r"]
        if m == "inc":
            return "@r%d+" % o["r"]
        if m == "imm":
            return "#%d" % o["v"]
        raise ValueError(m)
    sfx = ".b" if i["bw"] else ".w"
    if i["f"] == "two":
        return "%s%s %s, %s" % (i["op"], sfx, opnd(i["s"]), opnd(i["d"]))
    if i["f"] == "one":
        if i["op"] == "reti":
            return "reti"
        if i["op"] in ("swpb", "sxt", "call"):
            return "%s %s" % (i["op"], opnd(i["s"]))
        return "%s%s %s" % (i["op"], sfx, opnd(i["s"]))
    if i["f"] == "jump":
        return "%s 0x%x" % (i["op"], at + i["s"]["v"])
    if i["d"]["m"] == "none":
        return i["op"]
    return "%s%s %s" % (i["op"], sfx, opnd(i["d"]))


RV_AT = 0x200000


def rv32i_text(i):
    op, rd, rs1, rs2, imm = i["op"], i["rd"], i["rs1"], i["rs2"], i["imm"]
    if op in ("add", "sub", "sll", "slt", "sltu", "xor", "srl", "sra", "or", "and"):
        return "%s x%d, x%d, x%d" % (op, rd, rs1, rs2)
    if op in ("addi", "slti", "sltiu", "xori", "ori", "andi", "slli", "srli", "srai", "jalr"):
        return "%s x%d, x%d, %d" % (op, rd, rs1, imm)
    if op in ("lb", "lh", "lw", "lbu", "lhu"):
        return "%s x%d, %d(x%d)" % (op, rd, imm, rs1)
    if op in ("sb", "sh", "sw"):
        return "%s x%d, %d(x%d)" % (op, rs2, imm, rs1)
    if op in ("beq", "bne", "blt", "bge", "bltu", "bgeu"):
        return "%s x%d, x%d, 0x%x" % (op, rs1, rs2, RV_AT + imm)
    if op in ("lui", "auipc"):
        return "%s x%d, %d" % (op, rd, imm)
    if op == "jal":
        return "jal x%d, 0x%x" % (rd, RV_AT + imm)
    return op


def arch_rv32i(chk, vdir, tier, rnd):
    """third sentence of the property for RV32I: the assembled word is the encoding of the RISC-V manual (Rv32iEnc.tla)"""
    import os
    g = C.tlc("GenRv32iEnc", "gen_Rv32iEnc.cfg", os.path.join(chk.rundir, "genrv"), workers=4, heap="4g")
    chk.add_tlc(g)
    insts = C.parse_payload(g.lines, "CASE ")
    if len(insts) < 7000:
        raise C.InfraError("only %d RV32I instructions" % len(insts))
    if tier == "quick":
        insts = rnd.sample(insts, 2500)
    cases = [("rv", "kind=asm cpu=riscv addr=%d" % RV_AT, "\n".join(rv32i_text(i) for i in insts))]
    res = {o["case"]: o for o in C.conform_parallel(vdir, "codec", cases, chk.rundir, "archrv", 60, nproc=1)}
    r = res.get("rv")
    if not r or "res" not in r or len(r["res"]) != len(insts):
        raise C.InfraError("RV32I cases not executed: %s" % str(r)[:300])
    events = [dict(id="r%d" % n, i=i, acc=bool(ok), b=list(bytes.fromhex(b))) for n, (i, (ok, b)) in enumerate(zip(insts, r["res"]))]
    canaries = set()
    for e in rnd.sample([e for e in events if e["acc"] and abs(e["i"]["imm"]) < 1000], 10):
        c = json.loads(json.dumps(e))
        c["id"] = "canary." + e["id"]
        c["b"][1] ^= 0x80
        canaries.add(c["id"])
        events.append(c)
    verdicts, runs = C.tlc_accept("TraceRv32iEnc", "trace_Rv32iEnc.cfg", events, chk.rundir, "archrv", heap="3g", nchunks=4)
    for r_ in runs:
        chk.add_tlc(r_)
    bad = {v["id"]: v["why"] for v in verdicts}
    if [c for c in canaries if c not in bad]:
        raise C.InfraError("RV32I canaries accepted")
    byid = {e["id"]: e for e in events}
    for vid, why in sorted(bad.items()):
        if vid in canaries:
            continue
        e = byid[vid]
        chk.report("C01:riscv:arch:%s:%s" % (why, e["i"]["op"]),
                   "%s: '%s' at 0x%x -> %s" % (why, rv32i_text(e["i"]), RV_AT, bytes(e["b"]).hex()),
                   dict(instruction=e["i"], at=RV_AT, text=rv32i_text(e["i"]), bytes=bytes(e["b"]).hex(), why=why))
    return len(events) - len(canaries)


def arch_msp430(chk, vdir, tier, rnd):
    """third sentence of the property for MSP430: the assembled bytes are an encoding of SLAU144 (Msp430Enc.tla)"""
    import os
    g = C.tlc("GenMsp430Enc", "gen_Msp430Enc.cfg", os.path.join(chk.rundir, "genenc"), workers=4, heap="4g")
    chk.add_tlc(g)
    insts = C.parse_payload(g.lines, "CASE ")
    if len(insts) < 5000:
        raise C.InfraError("only %d MSP430 instructions" % len(insts))
    if tier == "quick":
        insts = [x for x in insts if x["f"] != "two"] + rnd.sample([x for x in insts if x["f"] == "two"], 1500)
    cases = []
    ats = (0x1000, 0x8000)
    for at in ats:
        cases.append(("arch@%d" % at, "kind=asm cpu=msp430 addr=%d" % at, "\n".join(msp430_text(i, at) for i in insts)))
    res = {o["case"]: o for o in C.conform_parallel(vdir, "codec", cases, chk.rundir, "arch", 60, nproc=2)}
    events = []
    for at in ats:
        r = res.get("arch@%d" % at)
        if not r or "res" not in r or len(r["res"]) != len(insts):
            raise C.InfraError("architecture cases not executed: %s" % str(r)[:300])
        for n, (i, (ok, b)) in enumerate(zip(insts, r["res"])):
            events.append(dict(id="m%d@%d" % (n, at), i=i, at=at, acc=bool(ok), b=list(bytes.fromhex(b))))
    canaries = set()
    for e in rnd.sample([e for e in events if e["acc"]], 10):
        c = json.loads(json.dumps(e))
        c["id"] = "canary." + e["id"]
        c["b"][0] ^= 0x10
        canaries.add(c["id"])
        events.append(c)
    verdicts, runs = C.tlc_accept("TraceMsp430Enc", "trace_Msp430Enc.cfg", events, chk.rundir, "arch", heap="3g", nchunks=8)
    for r in runs:
        chk.add_tlc(r)
    bad = {v["id"]: v["why"] for v in verdicts}
    if [c for c in canaries if c not in bad]:
        raise C.InfraError("architecture canaries accepted")
    byid = {e["id"]: e for e in events}
    for vid, why in sorted(bad.items()):
        if vid in canaries:
            continue
        e = byid[vid]
        i = e["i"]
        shape = "%s %s %s" % (i["op"], i["s"]["m"], i["d"]["m"])
        chk.report("C01:msp430:arch:%s:%s" % (why, shape),
                   "%s: '%s' at 0x%x -> %s" % (why, msp430_text(i, e["at"]), e["at"], bytes(e["b"]).hex()),
                   dict(instruction=i, at=e["at"], text=msp430_text(i, e["at"]), bytes=bytes(e["b"]).hex(), why=why))
    return len(events) - len(canaries)


def run(tier, seed):
    chk = C.Check(PROP, tier, seed, "model_checking")
    rnd = random.Random(seed)
    vdir = C.ensure_build("rel")
    # the image itself (core/Memory.cpp) against Image.tla: every property that reads the image rests on it
    M.run_image(chk, tier, seed, random.Random(seed + 17), PROP)
    cpus = K.cpu_list(vdir)
    by_name = {c["name"]: c for c in cpus}

    skip = K.out_of_scope(PROP)
    cpus = [c for c in cpus if c["name"] not in skip]
    forms = [f for f in K.corpus(set(by_name)) if f[0] not in skip]
    # forms harvested from the decode side: every distinct accepted rendering
    # the harvest does not depend on the seed: every 16th leading pattern of the thorough enumeration
    dcases = K.dis_cases(cpus, "thorough", 0, every=16)
    if tier == "quick":
        dcases = [c for i, c in enumerate(dcases) if (i + seed) % 8 == 0]
    dobs = C.conform_parallel(vdir, "codec", dcases, chk.rundir, "harv", 5, nproc=C.NCPU)
    harvested = set()
    for o in dobs:
        if o.get("acc") and o.get("text"):
            harvested.add((o["cpu"], o["text"]))
    percpu = {}
    for cpu, text in forms:
        percpu.setdefault(cpu, []).append(text)
    cases = []
    sel = []
    for cpu, texts in sorted(percpu.items()):
        ts = texts if tier == "thorough" else rnd.sample(texts, min(150, len(texts)))
        sel += [(cpu, t) for t in ts]
    sel += sorted(harvested)
    # operand cross product: the operand spellings seen in one position of a mnemonic, combined with those seen in its
    # other position (mov #5, r1 and mov r1, 0x104c give mov #5, 0x104c): one representative per operand shape, every
    # combination that is not a form already; what the assembler refuses is not an instruction and drops out
    def split_ops(t):
        parts = t.strip().split(None, 1)
        if len(parts) < 2:
            return parts[0], []
        ops, depth, cur = [], 0, ""
        for ch in parts[1]:
            if ch in "([{":
                depth += 1
            elif ch in ")]}":
                depth -= 1
            if ch == "," and depth == 0:
                ops.append(cur.strip())
                cur = ""
            else:
                cur += ch
        ops.append(cur.strip())
        return parts[0], ops
    have = set(sel)
    slots = {}
    for cpu, text in sorted(have):
        if ":" in text or "\n" in text:
            continue
        m, ops = split_ops(text)
        if len(ops) != 2 or not all(ops):
            continue
        for k, o in enumerate(ops):
            # (a spelling seen in one position is tried in the other too: many encodings take the same operand kinds in both)
            for kk in (0, 1):
                slots.setdefault((cpu, m), ({}, {}))[kk].setdefault(re.sub(r"\d+", "#", re.sub(r"0x[0-9a-fA-F]+", "#", o)), o)
    cross = []
    for (cpu, m), (first, second) in sorted(slots.items()):
        combos = [(a, b) for ka, a in sorted(first.items()) for kb, b in sorted(second.items()) if (cpu, "%s %s, %s" % (m, a, b)) not in have]
        cross.append((cpu, [(cpu, "%s %s, %s" % (m, a, b)) for a, b in (combos if len(combos) <= 16 else combos[::(len(combos) + 15) // 16][:16])]))
    percross = {}
    for cpu, lst in cross:
        percross.setdefault(cpu, []).extend(lst)
    ncross = 0
    for cpu, lst in sorted(percross.items()):
        cap = 400 if tier == "quick" else 6000
        pick = lst if len(lst) <= cap else lst[::(len(lst) + cap - 1) // cap][:cap]      # (independent of the seed)
        sel += pick
        ncross += len(pick)
    for i, (cpu, text) in enumerate(sel):
        for addr in ((0, 0x8000) if tier == "thorough" else (0x100 if i % 2 else 0,)):
            a = addr - addr % by_name[cpu]["bpa"]
            cases.append(("e%d.%d" % (i, addr), "kind=enc cpu=%s addr=%d" % (cpu, a), text))
    obs = C.conform_parallel(vdir, "codec", cases, chk.rundir, "enc", 5, nproc=C.NCPU)
    byid = {o["case"]: o for o in obs}
    bodies = {c[0]: c for c in cases}
    events = []
    accepted = {}
    for c in cases:
        o = byid.get(c[0])
        if o is None:
            raise C.InfraError("missing observation " + c[0])
        if o.get("died"):
            cpu = c[1].split("cpu=")[1].split()[0]
            chk.report("C01:%s:died:%s" % (cpu, K.shape(c[2])), "assembler/decoder died on .%s '%s': %s" % (cpu, c[2], o),
                       dict(case=c, observed=o))
            continue
        events.append(K.enc_event(o, by_name))
        accepted[o["cpu"]] = accepted.get(o["cpu"], 0) + (1 if o["acc"] else 0)

    canaries = set()
    good = [e for e in events if e["acc"] and e["walk"] and all(s["racc"] for s in e["walk"])]
    for e in rnd.sample(good, min(20, len(good))):
        c = json.loads(json.dumps(e))
        c["id"] = "canary." + e["id"]
        if rnd.randrange(2):
            c["walk"][-1]["len"] += 1
        else:
            c["walk"][0]["rb"][0] ^= 1
        canaries.add(c["id"])
        events.append(c)
    verdicts, runs = C.tlc_accept("TraceCodec", "trace_Codec.cfg", events, chk.rundir, "enc", heap="3g", nchunks=C.NCPU)
    for r in runs:
        chk.add_tlc(r)
    bad = {v["id"]: v for v in verdicts if v["p"] == "C01"}
    missed = [c for c in canaries if c not in bad]
    if missed:
        raise C.InfraError("canaries accepted: %s" % missed[:3])
    for vid, v in sorted(bad.items()):
        if vid in canaries:
            continue
        o = byid[vid]
        c = bodies[vid]
        short = "tiling" if v["why"].startswith("walking") else "reencode"
        chk.report("C01:%s:%s:%s" % (o["cpu"], short, K.shape(c[2])),
                   "%s: .%s '%s' at %s -> %s; walk %s" % (v["why"], o["cpu"], c[2], c[1].split("addr=")[1], o["b"],
                                                          json.dumps(o["walk"])[:300]),
                   dict(case=dict(id=c[0], opts=c[1], text=c[2]), observed=o, why=v["why"]))
    narch = arch_msp430(chk, vdir, tier, rnd)
    nrv = arch_rv32i(chk, vdir, tier, rnd)
    chk.cov.update(dict(
        evaluations=len(cases) + narch + nrv, msp430_architecture_cases=narch, rv32i_architecture_cases=nrv,
        distinct_nontrivial=len({(c[1].split("cpu=")[1].split()[0], c[2]) for c in cases}),
        rule="instruction texts of tests/comparison/*.txt (read at run time) plus every distinct accepted rendering harvested "
             "from the decode side plus the cross product of the operand spellings seen per position of a mnemonic (one per operand shape, "
             "16 combinations per mnemonic), assembled at one or two load addresses; every case is an instruction (non-trivial); "
             "distinct by (cpu, text)",
        traces_validated_against_impl=len(events) - len(canaries),
        accepted_per_cpu=accepted, not_covered=sorted(skip), corpus_forms=len(forms), harvested_forms=len(harvested), cross_product_forms=ncross,
        canaries=dict(injected=len(canaries), rejected=len(canaries)), exhaustive=False))
    chk.samples = [dict(case=c[1], text=c[2]) for c in rnd.sample(cases, 5)]
    chk.assumptions = ["for CPUs without a transcribed architecture the oracle is self-consistency; an error made identically in encoder and decoder is not visible",
                       "disassembly texts are not stripped of annotations: a rendering the assembler cannot parse is not accepted (vacuous)"]
    return chk.finish()
