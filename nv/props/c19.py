"""C19: naken_util memory commands address the same bytes as loader and simulator.

Util.tla is the model (byte memory, address units, byte order, range syntax, row layout of
the dump).  GenUtil (TLC) draws sessions of write/write16/write32 and print/print16/print32
commands; each session is rendered with varying number spellings and fed to the real
naken_util on stdin (after loading a small hex file) for CPUs with 1/2/4 bytes per address
and both byte orders; the printed dumps are split into rows by a lexer and TraceUtil (TLC)
replays the session on the model and compares every dump."""
import json
import os
import random
import re
import subprocess
from concurrent.futures import ThreadPoolExecutor

from .. import common as C
from .. import memmodel as M

PROP = "C19"
# cpu, bytes per address, big endian
CARRIERS = [("msp430", 1, False), ("68000", 1, True), ("avr8", 2, False), ("propeller", 4, False)]
INIT = [(0, 0x11), (1, 0x22), (2, 0x33), (3, 0x44)]
HEXFILE = ":0400000011223344" + "%02X" % ((-(4 + 0x11 + 0x22 + 0x33 + 0x44)) & 0xff) + "\n:00000001FF\n"


def spell(n, style):
    if style == 0:
        return "0x%x" % n
    if style == 1:
        return "%xh" % n if ("%x" % n)[0].isdigit() else "0%xh" % n
    return str(n)


def render(cmds, bpa, variant):
    lines = []
    for i, c in enumerate(cmds):
        st = (variant + i) % 3
        a = c["a"] // bpa * 1
        if c["k"] == "asm":
            lines.append("asm" if c["a"] < 0 else "asm " + spell(c["a"], 0 if st == 1 else st))
            for it in c["items"]:
                if it["k"] == "org":
                    lines.append(".org " + spell(it["a"], 0 if st == 1 else st))
                elif it["k"] == "res":
                    lines.append(".resb %d" % it["cnt"])
                elif it["k"] == "insn":
                    lines.append(INSN[it["cpu"]] % it["imm"])
                elif it["k"] == "lab":
                    lines.append("%s:" % it["n"])
                elif it["k"] == "ref":
                    lines.append(".dc16 %s" % it["n"])
                else:
                    d = {1: ".db", 2: ".dc16", 4: ".dc32"}[it["w"]]
                    lines.append("%s %s" % (d, ", ".join(spell(int.from_bytes(bytes(v[:it["w"]]), "little"), 0 if (st + vi) % 3 == 1 else (st + vi) % 3)
                                                        for vi, v in enumerate(it["vals"]))))
            lines.append("")
            continue
        if c["k"] == "write":
            name = {1: "write", 2: "write16", 4: "write32"}[c["w"]]
            vals = []
            for vi, v in enumerate(c["vals"]):
                n = int.from_bytes(bytes(v[:c["w"]]), "little")
                vals.append(spell(n, (st + 1 + vi) % 3))
            lines.append("%s %s %s" % (name, c.get("sa") or spell(c["a"], st), " ".join(vals)))
        else:
            name = {1: "print", 2: "print16", 4: "print32"}[c["w"]]
            lines.append("%s %s-%s" % (name, c.get("sa") or spell(c["a"], st), c.get("sb") or spell(c["b"], (st + 2) % 3)))
    return "\n".join(lines) + "\nquit\n"


ROW = re.compile(r"^0x([0-9a-f]+):((?: [0-9a-f]{2}){1,16}|(?: [0-9a-f]{4}){1,8}|(?: [0-9a-f]{8}){1,4})(?: |$)")


def parse_dumps(out, cmds):
    """split stdout into one list of rows per print command: rows follow the echo of nothing, so split on the
    'Wrote' lines and prompts: every print produces consecutive row lines"""
    blocks = []
    cur = None
    for line in out.split("\n"):
        line = re.sub(r"^(?:[a-z0-9_]*> ?)+", "", line)      # prompt, if any
        m = ROW.match(line)
        if m:
            if cur is None:
                cur = []
            cur.append((int(m.group(1), 16), m.group(2).split()))
        else:
            if cur is not None:
                blocks.append(cur)
                cur = None
    if cur is not None:
        blocks.append(cur)
    return blocks


def run_one(a):
    exe, d, cid, cpu, script = a[:5]
    fname = a[5] if len(a) > 5 else "init.hex"
    opts = a[6] if len(a) > 6 else []
    try:
        p = subprocess.run([exe, "-" + cpu] + opts + [os.path.join(d, fname)], cwd=d, input=script.encode(), stdout=subprocess.PIPE,
                           stderr=subprocess.STDOUT, timeout=20)
        return cid, p.returncode, p.stdout.decode("latin-1")
    except subprocess.TimeoutExpired:
        return cid, -999, ""


# where `registers` shows the register the load-immediate instruction of Util.tla writes (pure lexing)
REGRX = {"msp430": re.compile(r" r5: 0x([0-9a-f]{4})"), "6502": re.compile(r"A=0x([0-9a-f]{2})"),
         "z80": re.compile(r" A: ([0-9a-f]{2}) "), "avr8": re.compile(r"r16: 0x([0-9a-f]{2})")}
BPA = {"msp430": 1, "6502": 1, "z80": 1, "avr8": 2}
# Util!LoadBytes is the reference; this table only renders the same bytes as `write` arguments and is checked
# against the model by the acceptor (IsLoadAt must hold for the written memory)
# the same instruction as source text for interactive asm (Util!LoadBytes is what it must assemble to)
INSN = {"msp430": "mov.w #%d, r5", "6502": "lda #%d", "z80": "ld a, %d", "avr8": "ldi r16, %d"}
LOADB = {"msp430": lambda v: [0x35, 0x40, v & 255, (v >> 8) & 255], "6502": lambda v: [0xa9, v & 255],
         "z80": lambda v: [0x3e, v & 255], "avr8": lambda v: [v & 15, 0xe0 | ((v >> 4) & 15)]}


def fetch_part(chk, vdir, rd, wd, tier, rnd):
    """the simulator fetches what write* stored: Util!FetchOk"""
    g = C.tlc("GenUtil", "gen_UtilFetch.cfg", os.path.join(rd, "genfetch"), workers=1, heap="2g", prefixes=("FETCH ",))
    chk.add_tlc(g)
    fc = C.parse_payload(g.lines, "FETCH ")
    if not fc or len(fc[0]) < 400:
        raise C.InfraError("no fetch cases")
    cases = sorted(fc[0], key=lambda c: json.dumps(c, sort_keys=True))
    if tier == "quick":
        cases = rnd.sample(cases, 160)
    exe = os.path.join(vdir, "naken_util")
    jobs, meta = [], {}
    for i, c in enumerate(cases):
        cpu, bpa = c["cpu"], BPA[c["cpu"]]
        pc = c["pc"] - c["pc"] % 2
        ib = LOADB[cpu](c["imm"])
        if c.get("via") == "asm":
            # the constant generator of the MSP430 gives #0 #1 #2 #4 #8 #-1 a one-word encoding; 8-bit immediates elsewhere
            if (cpu == "msp430" and c["imm"] in (0, 1, 2, 4, 8, 65535)) or (cpu != "msp430" and c["imm"] > 255):
                continue
            cmds = [dict(k="asm", a=pc, w=0, b=0, vals=[], out=[], items=[dict(k="insn", cpu=cpu, imm=c["imm"])])]
            lines = ["asm 0x%x" % pc, INSN[cpu] % c["imm"], ""]
        else:
            cmds = [dict(k="write", w=1, a=pc, b=0, vals=[[b, 0, 0, 0] for b in ib], out=[])]
            lines = ["write 0x%x %s" % (pc, " ".join("0x%x" % b for b in ib))]
        if c["ow"]:
            # overwrite the second half of the instruction with a 16 or 8 bit write (address in units)
            w = 2 if c["ow"] == 2 else 1
            if len(ib) == 4:
                oa = pc + 2 // bpa
            else:
                oa = pc if (w == 2 or bpa == 2) else pc + 1
                if bpa == 1 and w == 1:
                    oa = pc + 1
            cmds.append(dict(k="write", w=w, a=oa, b=0, vals=[c["ov"]], out=[]))
            lines.append("%s 0x%x 0x%x" % ("write16" if w == 2 else "write", oa, c["ov"][0] | (c["ov"][1] << 8) if w == 2 else c["ov"][0]))
        cid = "f%d" % i
        if c.get("via") == "write" and not c["ow"] and i % 2:
            # the program counter comes from the command line instead of `set pc`
            lines += ["step", "registers", "quit"]
            meta[cid] = (cpu, bpa, cmds, pc, "# -set_pc 0x%x\n" % pc + "\n".join(lines) + "\n")
            jobs.append((exe, wd, cid, cpu, "\n".join(lines) + "\n", "init.hex", ["-set_pc", "0x%x" % pc]))
            continue
        lines += ["set pc=0x%x" % pc, "step", "registers", "quit"]
        meta[cid] = (cpu, bpa, cmds, pc, "\n".join(lines) + "\n")
        jobs.append((exe, wd, cid, cpu, meta[cid][4]))
    events = []
    with ThreadPoolExecutor(C.NCPU) as ex:
        for cid, rc, out in ex.map(run_one, jobs):
            cpu, bpa, cmds, pc, script = meta[cid]
            tail = out[out.rfind("registers"):] if "registers" in out else out
            m = REGRX[cpu].search(tail)
            if rc != 0 or not m:
                chk.report("util19:fetch:%s:no register dump" % cpu, "naken_util -%s (rc %s) showed no register after\n%s" % (cpu, rc, script),
                           dict(script=script, rc=rc, out=out[-800:]))
                continue
            events.append({"id": cid, "cpu": cpu, "bpa": bpa, "big": False, "init": [{"a": a, "b": b} for a, b in INIT],
                           "cmds": cmds, "pc": pc, "reg": int(m.group(1), 16)})
    return events, meta


def run(tier, seed):
    chk = C.Check(PROP, tier, seed, "model_checking")
    rnd = random.Random(seed)
    vdir = C.ensure_build("rel")
    rd = chk.rundir
    g = C.tlc("GenUtil", "gen_Util.cfg", rd, workers=4, heap="4g", simulate=(150 if tier == "quick" else 3000), depth=10, seed=seed)
    chk.add_tlc(g)
    sessions = C.parse_payload(g.lines, "CASE ")
    if len(sessions) < 300:
        raise C.InfraError("only %d sessions" % len(sessions))
    gb = C.tlc("GenUtil", "gen_UtilFetch.cfg", os.path.join(rd, "genbound"), workers=1, heap="2g", prefixes=("BOUND ", "ASMS ", "SYMS "))
    bound = C.parse_payload(gb.lines, "BOUND ")
    if not bound or len(bound[0]) < 20:
        raise C.InfraError("no boundary sessions")
    asms = C.parse_payload(gb.lines, "ASMS ")
    if not asms or len(asms[0]) < 100:
        raise C.InfraError("no asm sessions")
    asess = sorted(asms[0], key=lambda x: json.dumps(x, sort_keys=True))
    if tier == "quick":
        # (the sessions of label blocks and of blocks that place nothing start with their asm command: always run)
        must = [x for x in asess if x[0]["k"] == "asm"]
        asess = must + rnd.sample([x for x in asess if x[0]["k"] != "asm"], 120)
    syp = C.parse_payload(gb.lines, "SYMS ")
    if not syp or len(syp[0]["sessions"]) < 30:
        raise C.InfraError("no symbol sessions")
    syms = syp[0]["syms"]
    ssess = sorted(syp[0]["sessions"], key=lambda x: json.dumps(x, sort_keys=True))
    if tier == "quick":
        ssess = rnd.sample(ssess, 24)
    # each boundary session on every carrier
    bsess = sorted(bound[0], key=lambda x: json.dumps(x, sort_keys=True)) + asess
    nrand = len(sessions)
    sessions = sessions + [b for b in bsess for _ in CARRIERS]
    wd = os.path.join(rd, "w")
    os.makedirs(wd)
    open(os.path.join(wd, "init.hex"), "w").write(HEXFILE)
    exe = os.path.join(vdir, "naken_util")
    jobs, meta = [], {}
    for i, s in enumerate(sessions):
        cpu, bpa, big = CARRIERS[i % len(CARRIERS)] if i < nrand else CARRIERS[(i - nrand) % len(CARRIERS)]
        # addresses in the model are unit addresses; keep write16/32 and print16/32 aligned for this carrier
        cm = []
        for c in s:
            c = dict(c)
            if c["k"] == "asm":
                cm.append(c)
                continue
            # naken_util insists on the CPU's alignment, not on the width of the access (msp430, 68000, avr8: 2 bytes,
            # propeller: 4): a write32 at 0xfffe is legal on msp430 and crosses a 64 KiB page
            ub = min(c["w"], {"propeller": 4}.get(cpu, 2))
            unit = max(1, ub // bpa)
            if not c.get("sa"):
                c["a"] -= c["a"] % unit
            if c["k"] == "print" and not c.get("sb"):
                c["b"] -= c["b"] % unit
            cm.append(c)
        cid = "u%d" % i
        script = render(cm, bpa, i)
        meta[cid] = (cpu, bpa, big, cm, script)
        jobs.append((exe, wd, cid, cpu, script))
    # symbol sessions: the real naken_asm writes an ELF file whose exported labels are the model's symbols (unit addresses),
    # the real loader reads it; the data behind the labels is position-derived
    extra = {}
    nasm = os.path.join(vdir, "naken_asm")
    order = sorted(syms, key=lambda y: y["a"])
    for cpu, bpa, big in CARRIERS:
        src, cells, pos = [".%s" % cpu, ".org 0x%x" % order[0]["a"]], [], order[0]["a"] * bpa
        for k, sy in enumerate(order):
            src.append("%s:" % sy["name"])
            n = ((order[k + 1]["a"] - sy["a"]) if k + 1 < len(order) else 4) * bpa
            bs = [((pos + j) * 7 + 3) & 0xff for j in range(n)]
            src.append(".db " + ", ".join(str(b) for b in bs))
            cells += [{"a": pos + j, "b": bs[j]} for j in range(n)]
            pos += n
        src += [".export %s" % sy["name"] for sy in order]
        open(os.path.join(wd, "sym_%s.asm" % cpu), "w").write("\n".join(src) + "\n")
        p = subprocess.run([nasm, "-type", "elf", "-o", "sym_%s.elf" % cpu, "sym_%s.asm" % cpu], cwd=wd, stdout=subprocess.PIPE, stderr=subprocess.STDOUT, timeout=20)
        if p.returncode != 0 or not os.path.exists(os.path.join(wd, "sym_%s.elf" % cpu)):
            raise C.InfraError("naken_asm could not write the symbol file for %s: %s" % (cpu, p.stdout.decode("latin-1")[-300:]))
        for k, s0 in enumerate(ssess):
            cid = "y%s.%d" % (cpu, k)
            cm = [dict(c) for c in s0]
            script = render(cm, bpa, k)
            meta[cid] = (cpu, bpa, big, cm, script)
            extra[cid] = dict(init=cells, syms=syms)
            jobs.append((exe, wd, cid, cpu, script, "sym_%s.elf" % cpu))
    # dedicated probe: an address spelled with the h suffix followed by values
    pc = [dict(k="write", w=1, a=16, b=0, vals=[[7, 0, 0, 0]]), dict(k="print", w=1, a=16, b=20, vals=[])]
    meta["probe_h"] = ("msp430", 1, False, pc, "write 10h 7\nprint 0x10-0x14\nquit\n")
    jobs.append((exe, wd, "probe_h", "msp430", meta["probe_h"][4]))
    events = []
    with ThreadPoolExecutor(C.NCPU) as ex:
        for cid, rc, out in ex.map(run_one, jobs):
            cpu, bpa, big, cm, script = meta[cid]
            if rc != 0:
                chk.report("util19:exit:%s" % cpu, "naken_util -%s exited with %s on\n%s" % (cpu, rc, script), dict(script=script, rc=rc, out=out[-500:]))
                continue
            blocks = parse_dumps(out, cm)
            prints = [c for c in cm if c["k"] == "print"]
            if len(blocks) != len(prints):
                chk.report("util19:dumps:%s" % cpu, "expected %d dumps, naken_util printed %d\n%s\n%s" % (len(prints), len(blocks), script, out[-600:]),
                           dict(script=script, out=out[-2000:]))
                continue
            bi = 0
            evc = []
            for c in cm:
                c = dict(c)
                if c["k"] == "print":
                    rows = []
                    for label, vals in blocks[bi]:
                        rows.append({"label": label, "vals": [list(int(v, 16).to_bytes(c["w"], "little")) for v in vals]})
                    bi += 1
                    c["out"] = rows
                    c["vals"] = []
                else:
                    c["b"] = 0
                    c["out"] = []
                evc.append(c)
            ev = {"id": cid, "bpa": bpa, "big": big, "init": [{"a": a, "b": b} for a, b in INIT], "cmds": evc}
            ev.update(extra.get(cid, {}))
            events.append(ev)
    fevents, fmeta = fetch_part(chk, vdir, rd, wd, tier, rnd)
    nimg, nimgcan = M.run_image(chk, tier, seed, rnd, PROP)
    events += fevents
    canaries = set()
    for e in rnd.sample([x for x in fevents if len(x["cmds"]) == 1], 6):
        c = json.loads(json.dumps(e))
        c["id"] = "canary." + e["id"]
        c["reg"] ^= 1
        canaries.add(c["id"])
        events.append(c)
    # binding of the asm model: a data item of an assembled block changed in the record (sessions on byte-addressed carriers
    # whose prints cover the block)
    apool = [e for e in events if e["id"].startswith("u") and e["bpa"] == 1 and len(e["cmds"]) == 7 and e["cmds"][2]["k"] == "asm"
             and e["cmds"][2]["a"] in (0, 16, 256) and e["cmds"][2]["items"][0]["k"] == "data"]
    if len(apool) < 4:
        raise C.InfraError("no asm sessions to corrupt")
    for e in rnd.sample(apool, 4):
        c = json.loads(json.dumps(e))
        c["id"] = "canary.asm." + e["id"]
        c["cmds"][2]["items"][0]["vals"][0][0] ^= 64
        canaries.add(c["id"])
        events.append(c)
    ypool = [e for e in events if e["id"].startswith("y")]
    if len(ypool) < 4:
        raise C.InfraError("no symbol sessions to corrupt")
    for e in rnd.sample(ypool, 4):
        c = json.loads(json.dumps(e))
        c["id"] = "canary.sym." + e["id"]
        c["syms"] = [dict(y, a=y["a"] + 4) if y["name"] == "foo" else y for y in c["syms"]]
        canaries.add(c["id"])
        events.append(c)
    pool = [e for e in events if any(c["k"] == "print" and c.get("out") for c in e["cmds"])
            and not any(c["k"] == "asm" and c["a"] < 0 for c in e["cmds"]) and not e["id"].startswith("canary")]
    for e in rnd.sample(pool, min(16, len(pool))):
        c = json.loads(json.dumps(e))
        c["id"] = "canary." + e["id"]
        pr = [x for x in c["cmds"] if x["k"] == "print" and x["out"]][0]
        pr["out"][0]["vals"][0][0] ^= 4
        canaries.add(c["id"])
        events.append(c)
    verdicts, runs = C.tlc_accept("TraceUtil", "trace_Util.cfg", events, rd, "c19", heap="3g")
    for r in runs:
        chk.add_tlc(r)
    bad = {v["id"]: v for v in verdicts}
    missed = [c for c in canaries if c not in bad]
    if missed:
        raise C.InfraError("canaries accepted: %s" % missed[:3])
    for vid, v in sorted(bad.items()):
        if vid in canaries:
            continue
        if vid in fmeta:
            cpu, bpa, cmds, pc, script = fmeta[vid]
            chk.report("util19:fetch:%s" % cpu, "naken_util -%s: after one step the register does not hold the immediate that write* stored (model: 0x%x)\n%s" % (cpu, v["expect"], script),
                       dict(script=script, expect=v["expect"]))
            continue
        cpu, bpa, big, cm, script = meta[vid]
        c = cm[v["at"] - 1]
        if vid == "probe_h":
            chk.report("util19:write-address-with-h-suffix", "write 10h 7 does not write address 0x10\n" + script, dict(script=script))
            continue
        chk.report("util19:%s:print%d" % (cpu, c["w"] * 8 if c["w"] > 1 else 8),
                   "naken_util -%s: the dump of command %d differs from the model\n%s" % (cpu, v["at"], script),
                   dict(script=script, at=v["at"], expect=v["expect"]))
    chk.cov.update(dict(
        evaluations=len(jobs) + len(fevents) + nimg, fetch_cases=len(fevents), image_scripts=nimg,
        distinct_nontrivial=len({m[4] for m in meta.values()}),
        rule="GenUtil draws sessions of 2-6 write/write16/write32/print/print16/print32/asm commands (8 addresses incl. row and page "
             "boundaries, 10 values, ranges a-b); rendered with rotating number spellings (0x10, 10h, 16) for msp430, 68000, avr8, "
             "propeller; every session is non-trivial; distinct by script",
        traces_validated_against_impl=len(events) - len(canaries) + nimg,
        canaries=dict(injected=len(canaries) + nimgcan, rejected=len(canaries) + nimgcan), exhaustive=False))
    chk.samples = [meta[c][4] for c in rnd.sample(sorted(meta), 3)]
    chk.assumptions = ["interactive asm blocks hold data directives (and one load-immediate instruction in the fetch cases); symbol names appear in ranges only; "
                       "disasm ranges and -address are exercised by C08",
                       "simulator fetch: one load-immediate instruction per CPU (msp430, 6502, z80, avr8), written with write/write16 and executed with set pc / step",
                       "the dump lexer takes lines of the form 0xADDR: v v v ..."]
    return chk.finish()
