"""C19: naken_util memory commands address the same bytes as loader and simulator.

Util.tla is the model (byte memory, address units, byte order, range syntax, row layout of
the dump).  GenUtil (TLC) draws sessions of write/write16/write32 and print/print16/print32
commands; each session is rendered with varying number spellings and fed to the real
naken_util on stdin (after loading a small hex file) for CPUs with 1/2/4 bytes per address
and both byte orders; the printed dumps are split into rows by a lexer and TraceUtil (TLC)
replays the session on the model and compares every dump."""
import json
import os
import random
import re
import subprocess
from concurrent.futures import ThreadPoolExecutor

from .. import common as C

PROP = "C19"
# cpu, bytes per address, big endian
CARRIERS = [("msp430", 1, False), ("68000", 1, True), ("avr8", 2, False), ("propeller", 4, False)]
INIT = [(0, 0x11), (1, 0x22), (2, 0x33), (3, 0x44)]
HEXFILE = ":0400000011223344" + "%02X" % ((-(4 + 0x11 + 0x22 + 0x33 + 0x44)) & 0xff) + "\n:00000001FF\n"


def spell(n, style):
    if style == 0:
        return "0x%x" % n
    if style == 1:
        return "%xh" % n if ("%x" % n)[0].isdigit() else "0%xh" % n
    return str(n)


def render(cmds, bpa, variant):
    lines = []
    for i, c in enumerate(cmds):
        st = (variant + i) % 3
        a = c["a"] // bpa * 1
        if c["k"] == "write":
            name = {1: "write", 2: "write16", 4: "write32"}[c["w"]]
            vals = []
            for vi, v in enumerate(c["vals"]):
                n = int.from_bytes(bytes(v[:c["w"]]), "little")
                vals.append(spell(n, (st + 1 + vi) % 3))
            lines.append("%s %s %s" % (name, spell(c["a"], st), " ".join(vals)))
        else:
            name = {1: "print", 2: "print16", 4: "print32"}[c["w"]]
            lines.append("%s %s-%s" % (name, spell(c["a"], st), spell(c["b"], (st + 2) % 3)))
    return "\n".join(lines) + "\nquit\n"


ROW = re.compile(r"^0x([0-9a-f]+):((?: [0-9a-f]{2}){1,16}|(?: [0-9a-f]{4}){1,8}|(?: [0-9a-f]{8}){1,4})(?: |$)")


def parse_dumps(out, cmds):
    """split stdout into one list of rows per print command: rows follow the echo of nothing, so split on the
    'Wrote' lines and prompts: every print produces consecutive row lines"""
    blocks = []
    cur = None
    for line in out.split("\n"):
        line = re.sub(r"^(?:[a-z0-9_]*> ?)+", "", line)      # prompt, if any
        m = ROW.match(line)
        if m:
            if cur is None:
                cur = []
            cur.append((int(m.group(1), 16), m.group(2).split()))
        else:
            if cur is not None:
                blocks.append(cur)
                cur = None
    if cur is not None:
        blocks.append(cur)
    return blocks


def run_one(a):
    exe, d, cid, cpu, script = a
    try:
        p = subprocess.run([exe, "-" + cpu, os.path.join(d, "init.hex")], cwd=d, input=script.encode(), stdout=subprocess.PIPE,
                           stderr=subprocess.STDOUT, timeout=20)
        return cid, p.returncode, p.stdout.decode("latin-1")
    except subprocess.TimeoutExpired:
        return cid, -999, ""


def run(tier, seed):
    chk = C.Check(PROP, tier, seed, "model_checking")
    rnd = random.Random(seed)
    vdir = C.ensure_build("rel")
    rd = chk.rundir
    g = C.tlc("GenUtil", "gen_Util.cfg", rd, workers=4, heap="4g", simulate=(150 if tier == "quick" else 3000), depth=10, seed=seed)
    chk.add_tlc(g)
    sessions = C.parse_payload(g.lines, "CASE ")
    if len(sessions) < 300:
        raise C.InfraError("only %d sessions" % len(sessions))
    wd = os.path.join(rd, "w")
    os.makedirs(wd)
    open(os.path.join(wd, "init.hex"), "w").write(HEXFILE)
    exe = os.path.join(vdir, "naken_util")
    jobs, meta = [], {}
    for i, s in enumerate(sessions):
        cpu, bpa, big = CARRIERS[i % len(CARRIERS)]
        # addresses in the model are unit addresses; keep write16/32 and print16/32 aligned for this carrier
        cm = []
        for c in s:
            c = dict(c)
            unit = max(1, c["w"] // bpa) if bpa < c["w"] else 1
            c["a"] -= c["a"] % unit
            if c["k"] == "print":
                c["b"] -= c["b"] % unit
            cm.append(c)
        cid = "u%d" % i
        script = render(cm, bpa, i)
        meta[cid] = (cpu, bpa, big, cm, script)
        jobs.append((exe, wd, cid, cpu, script))
    # dedicated probe: an address spelled with the h suffix followed by values
    pc = [dict(k="write", w=1, a=16, b=0, vals=[[7, 0, 0, 0]]), dict(k="print", w=1, a=16, b=20, vals=[])]
    meta["probe_h"] = ("msp430", 1, False, pc, "write 10h 7\nprint 0x10-0x14\nquit\n")
    jobs.append((exe, wd, "probe_h", "msp430", meta["probe_h"][4]))
    events = []
    with ThreadPoolExecutor(C.NCPU) as ex:
        for cid, rc, out in ex.map(run_one, jobs):
            cpu, bpa, big, cm, script = meta[cid]
            if rc != 0:
                chk.report("util19:exit:%s" % cpu, "naken_util -%s exited with %s on\n%s" % (cpu, rc, script), dict(script=script, rc=rc, out=out[-500:]))
                continue
            blocks = parse_dumps(out, cm)
            prints = [c for c in cm if c["k"] == "print"]
            if len(blocks) != len(prints):
                chk.report("util19:dumps:%s" % cpu, "expected %d dumps, naken_util printed %d\n%s\n%s" % (len(prints), len(blocks), script, out[-600:]),
                           dict(script=script, out=out[-2000:]))
                continue
            bi = 0
            evc = []
            for c in cm:
                c = dict(c)
                if c["k"] == "print":
                    rows = []
                    for label, vals in blocks[bi]:
                        rows.append({"label": label, "vals": [list(int(v, 16).to_bytes(c["w"], "little")) for v in vals]})
                    bi += 1
                    c["out"] = rows
                    c["vals"] = []
                else:
                    c["b"] = 0
                    c["out"] = []
                evc.append(c)
            events.append({"id": cid, "bpa": bpa, "big": big, "init": [{"a": a, "b": b} for a, b in INIT], "cmds": evc})
    canaries = set()
    pool = [e for e in events if any(c["k"] == "print" and c["out"] for c in e["cmds"])]
    for e in rnd.sample(pool, min(16, len(pool))):
        c = json.loads(json.dumps(e))
        c["id"] = "canary." + e["id"]
        pr = [x for x in c["cmds"] if x["k"] == "print" and x["out"]][0]
        pr["out"][0]["vals"][0][0] ^= 4
        canaries.add(c["id"])
        events.append(c)
    verdicts, runs = C.tlc_accept("TraceUtil", "trace_Util.cfg", events, rd, "c19", heap="3g")
    for r in runs:
        chk.add_tlc(r)
    bad = {v["id"]: v for v in verdicts}
    missed = [c for c in canaries if c not in bad]
    if missed:
        raise C.InfraError("canaries accepted: %s" % missed[:3])
    for vid, v in sorted(bad.items()):
        if vid in canaries:
            continue
        cpu, bpa, big, cm, script = meta[vid]
        c = cm[v["at"] - 1]
        if vid == "probe_h":
            chk.report("util19:write-address-with-h-suffix", "write 10h 7 does not write address 0x10\n" + script, dict(script=script))
            continue
        chk.report("util19:%s:print%d" % (cpu, c["w"] * 8 if c["w"] > 1 else 8),
                   "naken_util -%s: the dump of command %d differs from the model\n%s" % (cpu, v["at"], script),
                   dict(script=script, at=v["at"], expect=v["expect"]))
    chk.cov.update(dict(
        evaluations=len(jobs),
        distinct_nontrivial=len({m[4] for m in meta.values()}),
        rule="GenUtil draws sessions of 2-6 write/write16/write32/print/print16/print32 commands (8 addresses incl. row and page "
             "boundaries, 10 values, ranges a-b); rendered with rotating number spellings (0x10, 10h, 16) for msp430, 68000, avr8, "
             "propeller; every session is non-trivial; distinct by script",
        traces_validated_against_impl=len(events) - len(canaries),
        canaries=dict(injected=len(canaries), rejected=len(canaries)), exhaustive=False))
    chk.samples = [meta[c][4] for c in rnd.sample(sorted(meta), 3)]
    chk.assumptions = ["interactive asm, set/step (simulator fetch), disasm, symbol-name ranges, -address and -set_pc are not covered in this revision",
                       "the dump lexer takes lines of the form 0xADDR: v v v ..."]
    return chk.finish()
