"""C08: disassembly is total, local and tiles any range.  (single-instruction part and range part)"""
import json
import random

import os
import re
import subprocess
from concurrent.futures import ThreadPoolExecutor

from .. import common as C
from .. import codec as K

PROP = "C08"


def run(tier, seed):
    return run_prop(PROP, tier, seed)


# tms1000/tms1100 print "%03x|%d %x/%02x:" (address, position, page/lfsr)
ADDRCOL = {"tms1000": (re.compile(r"^([0-9a-f]{3,})\|"), 16), "tms1100": (re.compile(r"^([0-9a-f]{3,})\|"), 16), "agc": (re.compile(r"^0([0-7]{4,}):"), 8), "pdp8": (re.compile(r"^0([0-7]{4,}):"), 8),
           "pdp11": (re.compile(r"^0([0-9a-f]{4,}):"), 16)}
ADDRDEF = (re.compile(r"^0x([0-9a-f]+):"), 16)


def address_column(cpu, out):
    """pure lexer: the address column of `naken_util -disasm` output, in output order"""
    rx, radix = ADDRCOL.get(cpu, ADDRDEF)
    glued = re.compile(r"(?<=[0-9:?\s-])(?=0x[0-9a-f]{4,8}: {1,4}[0-9a-f]{2})")
    lines = []
    started = False
    for raw in out.split("\n"):
        if raw.startswith("Addr") or raw.startswith("----") or raw.startswith("Type help"):
            started = True
            continue
        if not started:
            continue
        for part in (glued.split(raw) if radix == 16 else [raw]):
            m = rx.match(part)
            if m:
                lines.append(int(m.group(1), radix))
    return lines


def hex_file(segs):
    """Intel HEX text of [(address, bytes)] segments (type 04 records for the upper address half)"""
    out = []
    for a, data in segs:
        for o in range(0, len(data), 16):
            chunk = data[o:o + 16]
            aa = a + o
            # a record must not cross a 64 KiB boundary
            parts = [(aa, chunk)] if (aa & 0xffff) + len(chunk) <= 0x10000 else [(aa, chunk[:0x10000 - (aa & 0xffff)]), ((aa | 0xffff) + 1, chunk[0x10000 - (aa & 0xffff):])]
            for pa, pc in parts:
                hi = pa >> 16
                rec = bytes([2, 0, 0, 4, hi >> 8, hi & 0xff])
                out.append(":" + rec.hex().upper() + "%02X" % ((-sum(rec)) & 0xff))
                rec = bytes([len(pc), (pa >> 8) & 0xff, pa & 0xff, 0]) + bytes(pc)
                out.append(":" + rec.hex().upper() + "%02X" % ((-sum(rec)) & 0xff))
    out.append(":00000001FF")
    return "\n".join(out) + "\n"


def long_leads(tb):
    return sorted({"%02x%02x%02x%02x" % (b, s2, tb, tb) for b in range(256) for s2 in (0x00, 0x80, 0xff)})


def walk_one(a):
    exe, cpu, path, args = a
    try:
        p = subprocess.run([exe, "-" + cpu] + ([] if path.endswith(".hex") else ["-bin"]) + args + [path], stdout=subprocess.PIPE, stderr=subprocess.STDOUT, timeout=20)
        return p.returncode, p.stdout.decode(errors="replace")
    except subprocess.TimeoutExpired:
        return -9, "timeout"


def range_part(chk, tier, seed, rnd):
    """second sentence of C08: naken_util's range disassembly tiles the range (Tiling.tla)"""
    vdir = C.ensure_build("rel")
    rd = chk.rundir
    for unit in (1, 2):
        cfg = C.tlc_cfg_with("mc_Tiling.cfg", rd, {"Unit": unit, "N": 4 if unit == 1 else 7})
        r = C.tlc("MCTiling", cfg, os.path.join(rd, "mct%d" % unit), workers=8, heap="6g")
        chk.add_tlc(r)
        if not r.ok:
            chk.report("model:Tiling:%s" % r.violated, "the range loop violates %s" % r.violated, dict(out=r.out[-2000:]))
    cpus = K.cpu_list(vdir)
    wd = os.path.join(rd, "walk")
    os.makedirs(wd)
    jobs, meta = [], {}
    nfiles = 4 if tier == "quick" else 24
    for c in cpus:
        cpu, bpa = c["name"], c["bpa"]
        if cpu in ("ps2_ee_vu0", "ps2_ee_vu1"):
            continue        # the range walk prints upper/lower pairs (8 bytes), the single decoder one half of a pair
        unit = max(bpa, 1)
        for k in range(nfiles):
            pat = (k * 7919 + seed * 104729 + c["type"] * 31) % 65536
            n = 24 + 4 * (k % 5)
            if k % 4 == 0:
                data = bytes([0] * n)
            elif k % 4 == 1:
                data = bytes([0xff] * n)
            else:
                data = bytes.fromhex("%04x" % pat + K.fill_for(pat | 1, c["type"]))[:16] * 3
                data = data[:n]
            n -= n % unit
            data = data[:n]
            start = [0, 0x100, 0xfff0][k % 3] * 1
            start -= start % unit
            path = os.path.join(wd, "%s_%d.bin" % (cpu, k))
            open(path, "wb").write(data)
            # whole image, or a sub-range that ends inside the image (possibly inside an instruction)
            if k % 2 == 0:
                args = ["-address", "0x%x" % start, "-disasm"]
                low, high = start, start + n - 1
            else:
                lo_u = start // unit + 1
                hi_u = start // unit + (n // unit) - 2
                args = ["-address", "0x%x" % start, "-disasm_range", "0x%x-0x%x" % (lo_u, hi_u)]
                low, high = lo_u * unit, hi_u * unit + unit - 1
            cid = "%s.%d" % (cpu, k)
            meta[cid] = (cpu, unit, start, data, low, high, args)
            jobs.append((os.path.join(vdir, "naken_util"), cpu, path, args))
    # images with a hole of one or two units at a 64 KiB page boundary (hex files; the unwritten units read as 0 and belong
    # to the range low..high of the whole-image disassembly): below the boundary, above it, on both sides
    for c in cpus:
        cpu, bpa = c["name"], c["bpa"]
        if cpu in ("ps2_ee_vu0", "ps2_ee_vu1"):
            continue
        unit = max(bpa, 1)
        ua = max(unit, c["align"], 1)            # holes and lengths are whole instruction slots
        for k, (lo_end, hi_start) in enumerate(((0x10000 - ua, 0x10000), (0x10000, 0x10000 + ua), (0x10000 - 2 * ua, 0x10000 + ua))):
            if tier == "quick" and k != (c["type"] + seed) % 3:
                continue
            pat = (k * 7919 + seed * 104729 + c["type"] * 31) % 65536
            body = (bytes.fromhex("%04x" % pat + K.fill_for(pat | 1, c["type"]))[:16] * (ua + 2))
            lo_start = 0x10000 - 8 * ua
            lo = body[:lo_end - lo_start]
            hi = body[8:8 + 8 * ua]
            path = os.path.join(wd, "%s_hole%d.hex" % (cpu, k))
            open(path, "w").write(hex_file([(lo_start, lo), (hi_start, hi)]))
            data = lo + bytes(hi_start - lo_end) + hi
            cid = "%s.h%d" % (cpu, k)
            meta[cid] = (cpu, unit, lo_start, data, lo_start, lo_start + len(data) - 1, ["-disasm"])
            jobs.append((os.path.join(vdir, "naken_util"), cpu, path, ["-disasm"]))
    # images made of instructions longer than 16 bytes (operands that are variable-length integers, switch tables): a scan
    # with every first byte, three second bytes and a tail of continuation bytes finds, per CPU, one 64-byte body per decoded
    # length; the walk over these runs on the sanitizer build, because the column of opcode bytes is formatted by the walk
    lcases = []
    for c in cpus:
        if c["name"] in ("ps2_ee_vu0", "ps2_ee_vu1"):
            continue
        for k, tb in enumerate((0xff, 0x80)):
            lcases.append(("l.%s.%d" % (c["name"], k), "kind=dsum cpu=%s addr=0 tail=%d total=64" % (c["name"], tb), "\n".join(long_leads(tb))))
    avdir = None
    nlong = 0
    for o in C.conform_parallel(vdir, "codec", lcases, rd, "walklong", 600, nproc=C.NCPU):
        cpu = o["case"].split(".")[1]
        unit = max(o.get("bpa", 1), 1)
        longs = sorted((cl for cl in o.get("classes", []) if cl["len"] > 16), key=lambda cl: -cl["len"])
        for q, cl in enumerate(longs[:2 if tier == "quick" else 8]):
            avdir = avdir or C.ensure_build("asan")
            data = bytes.fromhex(cl["w"])
            data = data[:len(data) - len(data) % unit]
            path = os.path.join(wd, "%s_long%s_%d.bin" % (cpu, o["case"].split(".")[2], q))
            open(path, "wb").write(data)
            cid = "%s.long%s.%d" % (cpu, o["case"].split(".")[2], q)
            meta[cid] = (cpu, unit, 0, data, 0, len(data) - 1, ["-disasm"])
            jobs.append((os.path.join(avdir, "naken_util"), cpu, path, ["-disasm"]))
            nlong += 1
    chk.cov["range_long_images"] = nlong
    with ThreadPoolExecutor(C.NCPU) as ex:
        outs = list(ex.map(walk_one, jobs))
    # decoder lengths at every unit of every file
    dcases = []
    for cid, (cpu, unit, start, data, low, high, args) in meta.items():
        padded = data + bytes(16)
        ctx = 100 if ".long" in cid else 16
        lines = ["%d %s" % (start + o, padded[o:o + ctx].hex()) for o in range(0, len(data), unit)]
        dcases.append((cid, "kind=dec cpu=%s" % cpu, "\n".join(lines)))
    dec = {o["case"]: o for o in C.conform_parallel(vdir, "codec", dcases, rd, "walkdec", 10, nproc=C.NCPU)}
    events = []
    for (cid, m), (rc, out) in zip(meta.items(), outs):
        cpu, unit, start, data, low, high, args = m
        if rc != 0:
            chk.report("C08:%s:range:naken_util %s" % (cpu, "timed out" if rc == -9 else "exit %d" % rc),
                       "naken_util -%s %s on %s" % (cpu, " ".join(args), data.hex()), dict(cpu=cpu, args=args, data=data.hex(), out=out[-500:]))
            continue
        d = dec.get(cid, {})
        if "res" not in d:
            continue            # no single-instruction decoder for this CPU
        dl = [dict(a=start + i * unit, n=r[0]) for i, r in enumerate(d["res"])]
        events.append(dict(id=cid, unit=unit, low=low, high=high, lines=address_column(cpu, out), dl=dl))
    canaries = set()
    good = [e for e in events if len(e["lines"]) >= 3]
    for e in rnd.sample(good, min(10, len(good))):
        c = json.loads(json.dumps(e))
        c["id"] = "canary." + e["id"]
        c["lines"].insert(1, c["lines"][0])          # the first address printed twice
        canaries.add(c["id"])
        events.append(c)
    verdicts, runs = C.tlc_accept("TraceTiling", "trace_Tiling.cfg", events, rd, "walk", heap="3g")
    for r in runs:
        chk.add_tlc(r)
    bad = {v["id"]: v["why"] for v in verdicts}
    outmap = {cid: o for (cid, m), (rc, o) in zip(meta.items(), outs)}
    for vid, why in sorted(bad.items()):
        if vid in canaries:
            continue
        cpu, unit, start, data, low, high, args = meta[vid]
        kind = "whole image" if "-disasm" in args else "sub-range"
        chk.report("C08:%s:range:%s:%s" % (cpu, why, kind),
                   "%s: naken_util -%s -bin %s on %s" % (why, cpu, " ".join(args), data.hex()),
                   dict(cpu=cpu, args=args, data=data.hex(), why=why, low=low, high=high, out=outmap[vid][-1500:]))
    # a canary may be accepted only if the original was rejected for an earlier reason
    missed = [c for c in canaries if c not in bad]
    if missed:
        raise C.InfraError("range canaries accepted: %s" % missed[:3])
    return len(events) - len(canaries)


def words_part(chk, tier, seed, rnd):
    """first sentence of C08 on field-corner words: GenWords.tla enumerates every 32-bit word that is a union of at most
    2 (thorough: 3) runs of one bits; each is decoded by every CPU's decoder in four byte arrangements; the observations
    are projected on (length, text length class, guard, local) and TLC judges every distinct projection"""
    vdir = C.ensure_build("rel")
    rd = chk.rundir
    cfg = C.tlc_cfg_with("gen_Words.cfg", rd, {"MaxRuns": 2 if tier == "quick" else 3})
    g = C.tlc("GenWords", cfg, os.path.join(rd, "genwords"), workers=8, heap="6g")
    chk.add_tlc(g)
    words = sorted({"%04x%04x" % (w[0], w[1]) for w in C.parse_payload(g.lines, "CASE ")})
    if len(words) < (40000 if tier == "quick" else 1100000):
        raise C.InfraError("GenWords gave %d words" % len(words))
    cpus = [c for c in K.cpu_list(vdir) if c["name"] not in K.out_of_scope("C08")]
    by_name = {c["name"]: c for c in cpus}
    step = 60000
    chunks = ["\n".join(words[i:i + step]) for i in range(0, len(words), step)]
    cases = []
    for c in cpus:
        for k, body in enumerate(chunks):
            cases.append(("w.%s.%d" % (c["name"], k), "kind=dsum cpu=%s addr=%d" % (c["name"], 0x1000 if k % 2 else 0), body))
    # variable-length operands: every leading 16-bit pattern with a zero third/fourth byte... no: every first byte and a few
    # second bytes, followed by 60 bytes that all have the continuation bit of a variable-length integer set (0xff, 0x80)
    lead = long_leads
    vcases = []
    for c in cpus:
        for k, tb in enumerate((0xff, 0x80)):
            vcases.append(("w.%s.v%d" % (c["name"], k), "kind=dsum cpu=%s addr=0 tail=%d total=64" % (c["name"], tb), "\n".join(lead(tb))))
    # these run on the sanitizer build: a decoder that formats an operand of any length into a buffer of its own overruns it
    # without touching the caller's
    obs = C.conform_parallel(vdir, "codec", cases, rd, "words", 600, nproc=C.NCPU)
    obs += C.conform_parallel(C.ensure_build("asan"), "codec", vcases, rd, "wordsv", 600, nproc=C.NCPU)
    cases = cases + vcases
    byid = {o["case"]: o for o in obs}
    if len(byid) != len(cases):
        raise C.InfraError("conform returned %d of %d word cases" % (len(byid), len(cases)))
    events, where, decodes = [], {}, 0
    for cs in cases:
        o = byid[cs[0]]
        cpu = cs[1].split("cpu=")[1].split()[0]
        if o.get("died") or "classes" not in o:
            chk.report("C08:%s:decoder died (%s)" % (cpu, (o.get("san") or "signal %s" % o.get("sig"))[:60]),
                       "decoder died on a field-corner word of case %s: %s" % (cs[0], {k: v for k, v in o.items() if k != "classes"}),
                       dict(case=cs[:2], observed={k: v for k, v in o.items() if k != "classes"}))
            continue
        decodes += o["total"]
        for q, cl in enumerate(o["classes"]):
            eid = "%s.%d" % (cs[0], q)
            where[eid] = (cs, cl)
            events.append({"id": eid, "kind": "dis", "cpu": cpu, "unit": by_name[cpu]["bpa"], "len": cl["len"], "tlen": cl["tlen"],
                           "guard": cl["guard"], "loc": cl["loc"], "acc": False, "n1": [], "n2": [], "len2": 0})
    canaries = set()
    good = [e for e in events if e["len"] >= e["unit"] and e["loc"] and e["guard"] and e["tlen"] < 128]
    for e in rnd.sample(good, min(8, len(good))):
        c = json.loads(json.dumps(e))
        c["id"] = "canary." + e["id"]
        c["len"] = 1000001
        canaries.add(c["id"])
        events.append(c)
    verdicts, runs = C.tlc_accept("TraceCodec", "trace_Codec.cfg", events, rd, "words", heap="2g", nchunks=4)
    for r in runs:
        chk.add_tlc(r)
    bad = {v["id"]: v["why"] for v in verdicts if v["p"] == "C08"}
    missed = [c for c in canaries if c not in bad]
    if missed:
        raise C.InfraError("word canaries accepted: %s" % missed[:3])
    # a rejected projection is listed instruction by instruction (one per distinct text shape) and reported like the sweep's cases
    again = []
    for eid, why in sorted(bad.items()):
        if eid in canaries:
            continue
        cs, cl = where[eid]
        again.append((eid, cs[1] + " expand=%d:%d:%d:%d" % (cl["len"], cl["tlen"], int(cl["guard"]), int(cl["loc"])), cs[2], why))
    if again:
        obs2 = {o["case"]: o for o in C.conform_parallel(vdir, "codec", [a[:3] for a in again], rd, "wordsx", 600, nproc=C.NCPU)}
        for eid, opts, body, why in again:
            cpu = opts.split("cpu=")[1].split()[0]
            for cl in obs2.get(eid, {}).get("classes", []):
                key = "C08:%s:%s:%s" % (cpu, why, K.shape(cl["text"]).split(" ")[0] if cl["len"] < 1 else K.shape(cl["text"]))
                chk.report(key, "%s: .%s bytes %s at %s -> len %d '%s'" % (why, cpu, cl["w"], opts.split("addr=")[1].split()[0], cl["len"], cl["text"]),
                           dict(case=dict(id=eid, opts=opts.split(" expand=")[0].replace("dsum", "dis"), bytes=cl["w"]), observed=cl, why=why))
    return decodes, len(events) - len(canaries), len(canaries), len(words)


def run_prop(prop, tier, seed):
    chk = C.Check(prop, tier, seed, "model_checking")
    rnd = random.Random(seed)
    vdir0 = C.ensure_build("rel")
    allcpus = [c["name"] for c in K.cpu_list(vdir0)]
    # the thorough tier (65,536 patterns per CPU) is processed in batches of CPUs to bound memory
    batches = [None] if tier == "quick" else [set(allcpus[i:i + 6]) for i in range(0, len(allcpus), 6)]
    stats = {}
    total_cases = 0
    total_events = 0
    distinct = set()
    ncan = 0
    sample_pool = []
    for bi, batch in enumerate(batches):
        n, ne, nc = run_batch(chk, prop, tier, seed, rnd, batch, "dis%d" % bi, stats, distinct, sample_pool)
        total_cases += n
        total_events += ne
        ncan += nc
    nrange = range_part(chk, tier, seed, rnd) if prop == "C08" else 0
    wdec, wev, wcan, nwords = words_part(chk, tier, seed, rnd) if prop == "C08" else (0, 0, 0, 0)
    ncan += wcan
    total_events += wev
    weak = sorted(k for k, s in stats.items() if s["decoded"] and s["accepted"] * 20 < s["decoded"])
    chk.cov.update(dict(
        evaluations=total_cases + nrange + wdec, range_walks=nrange, corner_words=nwords, corner_word_decodes=wdec,
        distinct_nontrivial=len(distinct),
        rule="for every CPU of cpu_list[]: leading 16-bit patterns (quick: 3000 seeded + boundary ones; thorough: all 65,536) "
             "followed by 14 fill bytes (zeros, ones, 55aa, seeded random), at address 0 or 0x1000; non-trivial = decodes "
             "to a non-empty text; distinct by (cpu, normalised text); C08 also: every 32-bit word that is a union of at most 2 "
             "(thorough: 3) runs of one bits (GenWords.tla), in four byte arrangements, projected on (length, text length class, guard, local)",
        traces_validated_against_impl=total_events,
        per_cpu=stats, weak=weak, cpus=len(allcpus), not_covered=sorted(K.out_of_scope(prop)),
        canaries=dict(injected=ncan, rejected=ncan),
        exhaustive=(tier == "thorough")))
    chk.samples = sample_pool[:5]
    chk.assumptions = ["the lexer nv/codec.py:normalise compares mnemonics case-insensitively and numbers as integers",
                       "MaxLenOf in spec/Codec.tla: documented maxima, 16 where unknown; java/dotnet/webasm unbounded (table instructions)"]
    return chk.finish()


def run_batch(chk, prop, tier, seed, rnd, batch, tag, stats, distinct, sample_pool):
    cpus, cases, byid, events, died = K.run_dis(chk, tier, seed, prop, only=batch, tag=tag)
    bodies = {c[0]: c for c in cases}
    for c, o in died:
        cpu = c[1].split("cpu=")[1].split()[0]
        chk.report("%s:%s:decoder died (%s)" % (prop if prop == "C08" else "C08", cpu, (o.get("san") or "signal %s" % o.get("sig"))[:60]),
                   "decoder died on %s bytes %s: %s" % (cpu, c[2], o), dict(case=c, observed=o))
    # canaries
    canaries = {}
    good = [e for e in events if e["acc"] and e["n1"] == e["n2"] and e["len"] >= e["unit"] and e["tlen"] < 128]
    for e in rnd.sample(good, min(20, len(good))):
        c = json.loads(json.dumps(e))
        c["id"] = "canary." + e["id"]
        if prop == "C08":
            k = rnd.randrange(3)
            if k == 0:
                c["len"] = 0
            elif k == 1:
                c["loc"] = False
            else:
                c["tlen"] = 128
        else:
            c["n2"] = c["n2"] + [{"k": "n", "v": 1}]
        canaries[c["id"]] = 1
        events.append(c)
    verdicts, runs = C.tlc_accept("TraceCodec", "trace_Codec.cfg", events, chk.rundir, tag, heap="2g",
                                  nchunks=C.NCPU)
    for r in runs:
        chk.add_tlc(r)
    mine = [v for v in verdicts if v["p"] == prop]
    seen = {v["id"] for v in mine}
    missed = [c for c in canaries if c not in seen]
    if missed:
        raise C.InfraError("canaries accepted: %s" % missed[:3])
    for e in events:
        if e["id"] in canaries:
            continue
        s = stats.setdefault(e["cpu"], dict(decoded=0, accepted=0, stable=0, short=0))
        s["decoded"] += 1
        s["accepted"] += 1 if e["acc"] else 0
        s["stable"] += 1 if (e["acc"] and e["n1"] == e["n2"]) else 0
        s["short"] += 1 if e["len"] < e["unit"] else 0
    for v in mine:
        if v["id"] in canaries:
            continue
        o = byid[v["id"]]
        c = bodies[v["id"]]
        if prop == "C08":
            key = "C08:%s:%s:%s" % (o["cpu"], v["why"], K.shape(o["text"]).split(" ")[0] if o["len"] < 1 else K.shape(o["text"]))
        else:
            key = "C07:%s:%s" % (o["cpu"], K.shape(o["text"]))
        chk.report(key, "%s: .%s bytes %s at %s -> len %d '%s'; assembled -> %s -> '%s'" % (
            v["why"], o["cpu"], c[2][:16], c[1].split("addr=")[1], o["len"], o["text"], o.get("b2"), o.get("text2")),
            dict(case=dict(id=c[0], opts=c[1], bytes=c[2]), observed=o, why=v["why"]))
    for e in events:
        if e["id"] not in canaries and e["n1"]:
            distinct.add((e["cpu"], json.dumps(e["n1"])))
    real = [e for e in events if e["id"] not in canaries]
    for e in rnd.sample(real, min(3, len(real))):
        sample_pool.append(dict(case=bodies[e["id"]][1], bytes=bodies[e["id"]][2], text=byid[e["id"]]["text"]))
    return len(cases), len(real), len(canaries)
