"""C08: disassembly is total, local and tiles any range.  (single-instruction part and range part)"""
import json
import random

from .. import common as C
from .. import codec as K

PROP = "C08"


def run(tier, seed):
    return run_prop(PROP, tier, seed)


def run_prop(prop, tier, seed):
    chk = C.Check(prop, tier, seed, "model_checking")
    rnd = random.Random(seed)
    vdir0 = C.ensure_build("rel")
    allcpus = [c["name"] for c in K.cpu_list(vdir0)]
    # the thorough tier (65,536 patterns per CPU) is processed in batches of CPUs to bound memory
    batches = [None] if tier == "quick" else [set(allcpus[i:i + 6]) for i in range(0, len(allcpus), 6)]
    stats = {}
    total_cases = 0
    total_events = 0
    distinct = set()
    ncan = 0
    sample_pool = []
    for bi, batch in enumerate(batches):
        n, ne, nc = run_batch(chk, prop, tier, seed, rnd, batch, "dis%d" % bi, stats, distinct, sample_pool)
        total_cases += n
        total_events += ne
        ncan += nc
    weak = sorted(k for k, s in stats.items() if s["decoded"] and s["accepted"] * 20 < s["decoded"])
    chk.cov.update(dict(
        evaluations=total_cases,
        distinct_nontrivial=len(distinct),
        rule="for every CPU of cpu_list[]: leading 16-bit patterns (quick: 3000 seeded + boundary ones; thorough: all 65,536) "
             "followed by 14 fill bytes (zeros, ones, 55aa, seeded random), at address 0 or 0x1000; non-trivial = decodes "
             "to a non-empty text; distinct by (cpu, normalised text)",
        traces_validated_against_impl=total_events,
        per_cpu=stats, weak=weak, cpus=len(allcpus), not_covered=sorted(K.out_of_scope(prop)),
        canaries=dict(injected=ncan, rejected=ncan),
        exhaustive=(tier == "thorough")))
    chk.samples = sample_pool[:5]
    chk.assumptions = ["the lexer nv/codec.py:normalise compares mnemonics case-insensitively and numbers as integers",
                       "MaxLenOf in spec/Codec.tla: documented maxima, 16 where unknown; java/dotnet/webasm unbounded (table instructions)"]
    return chk.finish()


def run_batch(chk, prop, tier, seed, rnd, batch, tag, stats, distinct, sample_pool):
    cpus, cases, byid, events, died = K.run_dis(chk, tier, seed, prop, only=batch, tag=tag)
    bodies = {c[0]: c for c in cases}
    for c, o in died:
        cpu = c[1].split("cpu=")[1].split()[0]
        chk.report("%s:%s:decoder died (%s)" % (prop if prop == "C08" else "C08", cpu, (o.get("san") or "signal %s" % o.get("sig"))[:60]),
                   "decoder died on %s bytes %s: %s" % (cpu, c[2], o), dict(case=c, observed=o))
    # canaries
    canaries = {}
    good = [e for e in events if e["acc"] and e["n1"] == e["n2"] and e["len"] >= e["unit"] and e["tlen"] < 128]
    for e in rnd.sample(good, min(20, len(good))):
        c = json.loads(json.dumps(e))
        c["id"] = "canary." + e["id"]
        if prop == "C08":
            k = rnd.randrange(3)
            if k == 0:
                c["len"] = 0
            elif k == 1:
                c["loc"] = False
            else:
                c["tlen"] = 128
        else:
            c["n2"] = c["n2"] + [{"k": "n", "v": 1}]
        canaries[c["id"]] = 1
        events.append(c)
    verdicts, runs = C.tlc_accept("TraceCodec", "trace_Codec.cfg", events, chk.rundir, tag, heap="2g",
                                  nchunks=C.NCPU)
    for r in runs:
        chk.add_tlc(r)
    mine = [v for v in verdicts if v["p"] == prop]
    seen = {v["id"] for v in mine}
    missed = [c for c in canaries if c not in seen]
    if missed:
        raise C.InfraError("canaries accepted: %s" % missed[:3])
    for e in events:
        if e["id"] in canaries:
            continue
        s = stats.setdefault(e["cpu"], dict(decoded=0, accepted=0, stable=0, short=0))
        s["decoded"] += 1
        s["accepted"] += 1 if e["acc"] else 0
        s["stable"] += 1 if (e["acc"] and e["n1"] == e["n2"]) else 0
        s["short"] += 1 if e["len"] < e["unit"] else 0
    for v in mine:
        if v["id"] in canaries:
            continue
        o = byid[v["id"]]
        c = bodies[v["id"]]
        if prop == "C08":
            key = "C08:%s:%s:%s" % (o["cpu"], v["why"], K.shape(o["text"]).split(" ")[0] if o["len"] < 1 else K.shape(o["text"]))
        else:
            key = "C07:%s:%s" % (o["cpu"], K.shape(o["text"]))
        chk.report(key, "%s: .%s bytes %s at %s -> len %d '%s'; assembled -> %s -> '%s'" % (
            v["why"], o["cpu"], c[2][:16], c[1].split("addr=")[1], o["len"], o["text"], o.get("b2"), o.get("text2")),
            dict(case=dict(id=c[0], opts=c[1], bytes=c[2]), observed=o, why=v["why"]))
    for e in events:
        if e["id"] not in canaries and e["n1"]:
            distinct.add((e["cpu"], json.dumps(e["n1"])))
    real = [e for e in events if e["id"] not in canaries]
    for e in rnd.sample(real, min(3, len(real))):
        sample_pool.append(dict(case=bodies[e["id"]][1], bytes=bodies[e["id"]][2], text=byid[e["id"]]["text"]))
    return len(cases), len(real), len(canaries)
