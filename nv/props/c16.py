"""C16: naken_asm never crashes, hangs or corrupts memory, whatever the source text.

Limits.tla models every fixed-size buffer as a resource with a capacity (invariant: never
overrun; over the limit = error) and gives the acceptance rule for one run (terminates,
status 0/1, diagnostic when 1).  GenLimits (TLC) enumerates resource x length at and around
each capacity; further inputs are the C12 corruption space, token-level mutations of the
repository's samples and seeded unstructured bytes.  Every input runs the sanitizer build
of the real naken_asm under a timeout; TraceLimits (TLC) accepts each run."""
import glob
import json
import os
import random
import re
import subprocess
from concurrent.futures import ThreadPoolExecutor

from .. import common as C
from . import c12

PROP = "C16"
DIAG = c12.DIAG


def render(res, n):
    """(resource, length) -> (source text, extra files, extra args); no expectation lives here"""
    files, args = {}, []
    h = ".msp430\n"
    if res == "ident":
        src = h + "a" * n + ":\n.db 1\n"
    elif res == "number":
        src = h + ".dc64 " + "1" * n + "\n"
    elif res == "string":
        src = h + '.db "' + "s" * n + '"\n'
    elif res == "ticks":
        src = h + ".db '" + "t" * n + "'\n"
    elif res == "macro_name":
        src = h + ".macro " + "m" * n + "\n.db 1\n.endm\n" + "m" * n + "\n"
    elif res == "macro_body":
        src = h + ".macro big\n" + "\n".join([".db 1, 2, 3, 4, 5"] * (n // 18 + 1)) + "\n.endm\nbig\n"
    elif res == "macro_params":
        k = max(1, n // 6)
        src = h + ".macro mp(" + ", ".join("p%04d" % i for i in range(k)) + ")\n.db p0000\n.endm\nmp(" + ", ".join("1" for _ in range(k)) + ")\n"
    elif res == "macro_arg":
        src = h + ".macro ma(x)\n.db x\n.endm\nma(" + " + ".join(["1"] * (n // 4 + 1)) + ")\n"
    elif res == "macro_args_total":
        k = max(1, n // 100)
        src = h + ".macro mt(" + ", ".join("q%d" % i for i in range(k)) + ")\n.db q0\n.endm\nmt(" + ", ".join("1" * 98 for _ in range(k)) + ")\n"
    elif res == "macro_call_commas":
        # n empty arguments: params_ptr[256]
        src = h + ".macro mcc(a)\n.db 1\n.endm\nmcc(" + "," * n + ")\n"
    elif res == "macro_param_count":
        # n parameters, the last one used (parameter numbers are stored in one byte)
        src = h + ".macro mpc(" + ", ".join("p%d" % i for i in range(n)) + ")\n.db p0, p%d\n.endm\nmpc(" % (n - 1) + ", ".join(str(i % 200) for i in range(n)) + ")\n"
    elif res == "empty_define_uses":
        # n uses of a define without a value on one line (every expansion is a nested read)
        src = h + ".define EMPTYQ\n.db 1 " + "EMPTYQ " * n + "\n"
    elif res == "equ_recursion":
        src = h + ("RQ equ RQ\n.db RQ\n" if n <= 1 else "RQ equ RS\nRS equ RQ\n.db RQ\n")
    elif res == "out_path":
        # an output path of n characters (components of at most 200), with a listing (its name is derived from it)
        comps = []
        left = n - len("/o.hex")
        while left > 0:
            comps.append("d" * min(200, left - 1 if left > 1 else 1))
            left -= len(comps[-1]) + 1
        path = "/".join(comps) + "/o.hex"
        files["/".join(comps) + "/keep"] = ""
        src = h + ".db 1\n"
        args = ["-l", "-o", path]
    elif res == "equ_text":
        src = h + "eq_name equ " + "1 + " * (n // 4) + "1\n.db 1\n"
    elif res == "define_value_exact":
        src = h + ".define A " + ("1+" * n)[:n - 1] + "1\n.db 0\n"
    elif res == "macro_body_exact":
        lines = ["  .db 1"] * (n // 8)
        rest = n - 8 * len(lines)
        if rest >= 7:
            lines.append("  .db " + "1" * (rest - 6))
        elif lines:
            lines[-1] += "1" * rest
        src = h + ".macro TABLE_A\n" + "\n".join(lines) + "\n.endm\n.db 0\n"
    elif res == "define_text":
        src = h + ".define DEFV " + "1 + " * (n // 4) + "1\n.dc32 DEFV\n"
    elif res == "include_name":
        src = h + '.include "' + "i" * n + '.inc"\n'
    elif res == "include_path":
        src = h + '.include "x.inc"\n'
        args = ["-I", "/" + "p" * n]
    elif res == "include_paths_total":
        src = h + '.include "x.inc"\n'
        for i in range(max(1, n // 100)):
            args += ["-I", "/" + "d" * 98]
    elif res == "operands":
        src = h + "  mov.w " + ", ".join("r%d" % (4 + i % 8) for i in range(n)) + "\n"
    elif res == "nest_macro":
        lines = [".macro n0\n.db 1\n.endm"]
        for i in range(1, n + 1):
            lines.append(".macro n%d\nn%d\n.endm" % (i, i - 1))
        src = h + "\n".join(lines) + "\nn%d\n" % n
    elif res == "nest_if":
        src = h + ".if 1\n" * n + ".db 1\n" + ".endif\n" * n
    elif res == "nest_include":
        for i in range(n):
            files["c%d.inc" % i] = '.include "c%d.inc"\n' % (i + 1)
        files["c%d.inc" % n] = ".db 1\n"
        src = h + '.include "c0.inc"\n'
    elif res == "nest_paren":
        src = h + ".dc32 " + "(" * n + "1" + ")" * n + "\n"
    elif res == "nest_unary":
        src = h + ".dc32 " + "-" * n + "1\n"
    elif res == "nest_unary_paren":
        src = h + ".dc32 1 + " + "-(" * n + "1" + ")" * n + "\n"
    elif res == "macro_arg_escapes":
        # n escaped pairs inside a quoted macro argument (2n bytes of a 1024 byte buffer)
        src = h + ".macro esc_q(a)\n.db a\n.endm\nesc_q(\"" + "\\\\" * n + "\")\n"
    elif res == "ident_dots":
        # CPUs whose names may contain dots (cpu_list[].strings_have_dots) take another path in tokens_get()
        src = ".xtensa\n" + "a" * (n // 2) + "." * (n - n // 2) + "\n"
    elif res == "ident_slashes":
        src = ".sh4\nbt" + "/" * n + "s\n"
    elif res == "nest_ifexpr_not":
        src = h + ".if " + "!" * n + "1\n.db 1\n.endif\n"
    elif res == "nest_ifexpr_paren":
        src = h + ".if " + "(" * n + "1" + ")" * n + "\n.db 1\n.endif\n"
    elif res == "nest_unary_operand":
        src = h + ".dc32 1 + " + "~" * n + "1\n"
    elif res == "repeat_count":
        src = h + ".repeat %d\n.db 1\n.endr\n" % n
    elif res == "resb":
        src = h + ".resb %d\n.db 1\n" % n
    elif res == "data_fill":
        src = h + ".data_fill 7, %d\n" % n
    elif res == "db_items":
        src = h + ".db " + ", ".join("1" for _ in range(n)) + "\n"
    elif res == "label_count":
        src = h + "".join("lab_%d_%s:\n" % (i, "z" * 60) for i in range(n)) + ".db 1\n"
    elif res == "line_length":
        src = h + ".db 1" + " " * n + "\n"
    elif res == "comment_length":
        src = h + "; " + "c" * n + "\n.db 1\n"
    elif res == "define_recursion":
        src = h + (".define RA RA\n.dc32 RA\n" if n <= 1 else ".define RA RB\n.define RB RA\n.dc32 RA\n")
    elif res == "define_chain":
        src = h + "".join(".define D%d D%d\n" % (i, i + 1) for i in range(n)) + ".define D%d 5\n.dc32 D0\n" % n
    elif res == "equ_name":
        src = h + "n" * n + " equ " + "1" * 123 + "\n.db 1\n"
    elif res == "define_name":
        src = h + ".define " + "d" * n + " " + "1" * 123 + "\n.dc32 " + "d" * n + "\n"
    elif res == "macro_name_value":
        src = h + ".macro " + "m" * n + "\n.db " + ", ".join(["1"] * 40) + "\n.endm\n" + "m" * n + "\n"
    elif res == "prod_include_if":
        files["self.inc"] = ".if 1\n" * n + '.include "self.inc"\n' + ".endif\n" * n
        src = h + '.include "self.inc"\n'
    elif res == "prod_macro_if":
        src = h + ".macro again_q\n" + ".if 1\n" * n + "again_q\n" + ".endif\n" * n + ".endm\nagain_q\n"
    elif res == "prod_include_macro_if":
        files["self.inc"] = ".macro inc_q\n" + ".if 1\n" * n + '.include "self.inc"\n' + ".endif\n" * n + ".endm\ninc_q\n"
        src = h + '.include "self.inc"\n'
    elif res == "prod_include_repeat1":
        files["self.inc"] = ".repeat 1\n" * min(n, 8) + ".if 1\n" * n + '.include "self.inc"\n' + ".endif\n" * n + ".endr\n" * min(n, 8)
        src = h + '.include "self.inc"\n'
    elif res == "include_self":
        files["self.inc"] = '.db 1\n.include "self.inc"\n'
        src = h + '.include "self.inc"\n'
    else:
        raise C.InfraError("no renderer for resource " + res)
    return src, files, args


EXTREME = [".org 0xffffffff\n.db 1\n", ".org 0xffff0000\n.db 1, 2\n", ".org 0x7fffffff\n.dw 1\n", ".org 0xfffffffe\n.dc32 1\n",
           ".org -1\n.db 1\n", ".align 1024\n.db 1\n", ".align_bytes 0\n.db 1\n", ".align 0\n", ".align -8\n", ".resb -1\n.db 1\n",
           ".resw 0x7fffffff\n.db 1\n", ".org 0x10\n.resb 0xffffffff\n.db 1\n", ".dc64 0x7fffffffffffffff + 1\n", ".dc32 1 << 64\n",
           ".dc32 1 << -1\n", ".dc32 1 / 0\n", ".dc32 5 % 0\n", ".dc64 (0 - 0x7fffffffffffffff - 1) / (0 - 1)\n",
           ".entry_point 0xffffffff\n.db 1\n", ".low_address 0xffffffff\n.db 1\n", ".high_address 0\n.db 1\n",
           ".set x = 0xffffffff\n.org x\n.db 1\n", ".export nothing\n", ".scope\n.scope\n", ".ends\n", ".endm\n", ".endr\n",
           ".repeat 0\n.endr\n", ".repeat -1\n.endr\n", ".binfile \"/dev/null\"\n", ".include \"/dev/null\"\n",
           ".macro\n.endm\n", ".define\n", ".define X(\n", ".macro m(a,\n.endm\n", "m(\n", "#\n", ".\n", "..\n", "\"\n", "'\n", "/*\n", "*/\n", "\\\n"]


SPARSE = [".msp430\n.db 1\n.org 0xffffffff\n.db 1\n", ".mips\n.org 0x1000\n  nop\n.org 0xbfc00000\n  nop\n.org 0xfffffffc\n.dc32 0x1000\n",
          ".65816\n.org 0x10\n.db 1, 2\n.org 0xfffff0\n.db 3\n"]

PASS_STMT = {
    "set": ".set px = 5\n", "set_existing": ".set first = 7\n", "label": "plabel:\n.db 1\n", "db": ".db 1, 2, 3\n", "insn": "  mov.w #1000, r5\n",
    "macro": ".macro pm(a)\n.db a\n.endm\npm(3)\n", "define": ".define PD 4\n.db PD\n", "equ": "pe equ 9\n.db pe\n", "org": ".org 0x200\n.db 1\n",
    "scope": ".scope\nploc:\n  jmp ploc\n.ends\n", "func": ".func pf\n  ret\n.endf\n", "export": ".export first\n",
    "include": '.include "p.inc"\n', "binfile": '.binfile "p.inc"\n', "repeat": ".repeat 3\n.db 1\n.endr\n", "align": ".align 32\n",
    "entry_point": ".entry_point first\n", "call_undefined": "  call #nowhere_defined\n", "undef": ".undef FIRSTDEF\n"}


def render_pass(guard, later, stmt):
    """a statement only one pass sees: the guard depends on a name defined after it"""
    body = PASS_STMT[stmt]
    g = {"p2_ifdef": ".ifdef later\n%s.endif\n", "p2_if_defined": ".if defined(later)\n%s.endif\n", "p2_else": ".ifndef later\n.db 9\n.else\n%s.endif\n",
         "p1_ifndef": ".ifndef later\n%s.endif\n", "p1_else": ".ifdef later\n.db 9\n.else\n%s.endif\n"}[guard] % body
    d = {"label": "later:\n", "set": ".set later = 3\n", "equ": "later equ 3\n"}[later]
    src = ".msp430\n.define FIRSTDEF 1\nfirst:\n  nop\n" + g + "  mov.w #first, r6\n" + d + "  nop\n"
    return src, {"p.inc": ".db 7, 7\n"}, []


def mutate(text, rnd):
    toks = re.findall(r"\s+|[A-Za-z_0-9.$#]+|.", text, re.S)
    if len(toks) < 4:
        return text
    k = rnd.randrange(8)
    i = rnd.randrange(len(toks))
    if k >= 6:
        # the file ends inside a statement, behind an opening parenthesis (no newline at the end)
        return "".join(toks[:i]) + ("(5" if k == 6 else " (")
    if k == 0:
        del toks[i]
    elif k == 1:
        toks.insert(i, toks[i])
    elif k == 2:
        toks[i] = toks[i] * 600
    elif k == 3:
        j = rnd.randrange(len(toks))
        toks[i], toks[j] = toks[j], toks[i]
    elif k == 4:
        toks[i] = rnd.choice(["(", ")", ",", "\"", "'", "#", "-", "0x", "\n", ".if", ".endm", ".macro", "/*", "$", "@", ":"])
    else:
        toks = toks[:i]
    return "".join(toks)


def run_one(a):
    exe, d, cid, src, files, args, to = a
    wd = os.path.join(d, cid)
    os.makedirs(wd, exist_ok=True)
    with open(os.path.join(wd, "t.asm"), "wb") as fh:
        fh.write(src if isinstance(src, bytes) else src.encode("latin-1"))
    for fn, body in files.items():
        os.makedirs(os.path.dirname(os.path.join(wd, fn)), exist_ok=True)
        with open(os.path.join(wd, fn), "w") as fh:
            fh.write(body)
    env = dict(os.environ)
    env["ASAN_OPTIONS"] = "detect_leaks=0:abort_on_error=0:exitcode=97:allocator_may_return_null=1"
    env["UBSAN_OPTIONS"] = "halt_on_error=1:exitcode=98"
    cmd = "exec " + " ".join([exe] + ["'%s'" % x for x in args] + ([] if "-o" in args else ["-o", "t.hex"]) + ["t.asm"])
    try:
        p = subprocess.run(["bash", "-c", cmd], cwd=wd, env=env, stdout=subprocess.PIPE, stderr=subprocess.PIPE, timeout=to)
        rc, out, err = p.returncode, p.stdout.decode("latin-1"), p.stderr.decode("latin-1")
        timed = False
    except subprocess.TimeoutExpired:
        rc, out, err, timed = -999, "", "", True
    san = ""
    m = re.search(r"(ERROR: AddressSanitizer[^\n]*|runtime error:[^\n]*|SUMMARY: [^\n]*)", err)
    if m:
        san = m.group(1)[:160]
        # where: source file of a UBSan report, innermost function of an ASan report
        w = re.search(r"([A-Za-z0-9_/]+\.(?:cpp|h)):\d+:\d+: runtime error", err)
        if w:
            san += " @" + os.path.basename(w.group(1))
        else:
            w = re.search(r"#0 0x[0-9a-f]+ in (\S+)", err)
            if w and w.group(1).startswith("__"):
                w2 = re.search(r"#1 0x[0-9a-f]+ in (\S+)", err)
                w = w2 or w
            if w:
                san += " @" + w.group(1).split("(")[0]
    died = timed or rc < 0 or rc in (97, 98) or bool(san)
    diag = sum(1 for l in out.splitlines() if DIAG.search(l))
    subprocess.run(["rm", "-rf", wd])
    return cid, {"status": rc if not died else -1, "died": died, "diag": min(diag, 3)}, (san or ("timeout" if timed else ("signal %d" % -rc if rc < 0 else ""))), out[-300:]


def site(san):
    """stable part of a sanitizer/death report: error kind and source location without numbers"""
    m = re.search(r"(AddressSanitizer: [a-z-]+|runtime error: [^0-9\n]{3,40}|timeout|signal \d+)", san)
    w = re.search(r" @(\S+)$", san)
    return (m.group(1) if m else san[:40]).strip() + (" in " + w.group(1) if w else "")


def run(tier, seed):
    chk = C.Check(PROP, tier, seed, "exploration")
    rnd = random.Random(seed)
    vdir = C.ensure_build("asan")
    rd = chk.rundir
    mc = C.tlc("Limits", "mc_Limits.cfg", rd, workers=2)
    chk.add_tlc(mc)
    if not mc.ok:
        raise C.InfraError("Limits: %s violated" % mc.violated)
    g = C.tlc("GenLimits", "gen_Limits.cfg", rd, workers=2)
    chk.add_tlc(g)
    lim = C.parse_payload(g.lines, "CASE ")
    if len(lim) < 200:
        raise C.InfraError("only %d limit cases" % len(lim))
    exe = os.path.join(vdir, "naken_asm")
    wd = os.path.join(rd, "w")
    os.makedirs(wd)
    jobs, meta = [], {}

    # option sets rotate over the cases: plain, with a listing (-l: every formatter and the data dump run on the
    # same input), with another output type (the writers walk the image), with -optimize
    OPTS = [[], ["-l"], ["-type", "elf"], ["-l", "-type", "srec"], ["-optimize"], ["-dump_symbols", "-dump_macros"]]

    def add(kind, key, src, files=None, args=None, to=20, rotate=True):
        cid = "j%d" % len(jobs)
        meta[cid] = (kind, key, src if isinstance(src, str) else repr(src[:200]))
        jobs.append((exe, wd, cid, src, files or {}, (args or []) + (OPTS[len(jobs) % len(OPTS)] if rotate else []), to))
    cpu_lim = [c for c in lim if c["res"].startswith("cpu_")]
    lim = [c for c in lim if not c["res"].startswith("cpu_")]
    if len(cpu_lim) < 10:
        raise C.InfraError("no per-CPU chain cases")
    from .. import codec as K
    mnems = {}
    for cpu, text in K.corpus({c["name"] for c in K.cpu_list(vdir)}):
        if ":" not in text:
            m0 = text.split()[0]
            if m0 not in mnems.setdefault(cpu, []):
                mnems[cpu].append(m0)
    # CPUs without a comparison corpus: the mnemonics their decoder prints for byte patterns (release build)
    rel = C.ensure_build("rel")
    dcases = []
    for cpuinfo in K.cpu_list(rel):
        if cpuinfo["name"] not in mnems:
            for pat in range(0, 65536, 97):
                dcases.append(("%s.%04x" % (cpuinfo["name"], pat), "kind=dis cpu=%s addr=256" % cpuinfo["name"], "%04x%s" % (pat, K.fill_for(pat, cpuinfo["type"]))))
    for o in C.conform_parallel(rel, "codec", dcases, rd, "mnem", 10, nproc=C.NCPU):
        t = (o.get("text") or "").split()
        if t and o.get("acc") and t[0] not in mnems.setdefault(o["cpu"], []):
            mnems[o["cpu"]].append(t[0])
    # some back ends handle single mnemonics on their own (pic18 tblrd, the vector unit's lq.xyz): quick takes the first
    # mnemonic of the corpus and five drawn ones, thorough every mnemonic of the corpus
    for ci, cpuinfo in enumerate(K.cpu_list(vdir)):
        cpu = cpuinfo["name"]
        ml = mnems.get(cpu, ["nop"])
        pick = ml if tier == "thorough" else ml[:1] + rnd.sample(ml[1:], min(5, len(ml) - 1))
        for mi, mn in enumerate(pick):
          for k, c in enumerate(sorted(cpu_lim, key=lambda x: (x["res"], x["len"]))):
            if c["len"] == 40 and (tier == "quick" or mi > 0):
                continue
            if mi > 0 and c["len"] == 3:
                continue
            n = c["len"]
            body = {"cpu_suffix_chain": "  %s%s r1, r2\n" % (mn, ".s" * n),
                    "cpu_symbol_chain": "  %s %s\n" % (mn, "*+" * n),
                    "cpu_operand_list": "  %s %s\n" % (mn, ", ".join("r%d" % (i % 8) for i in range(n))),
                    "cpu_open_paren_eof": "  %s r1, %s5" % (mn, "(" * min(n, 40)),
                    "cpu_open_bracket_eof": "  %s r1, %s5" % (mn, "[" * min(n, 40))}[c["res"]]
            add("limit", "%s:%s@%s%s" % (c["res"], "gt" if n > 16 else "le", cpu, "" if mi == 0 else ":" + mn), ".%s\n%s" % (cpu, body), to=20)
    for c in lim:
        if c["len"] > 70000 and c["res"] not in ("repeat_count", "resb", "data_fill", "empty_define_uses"):
            continue
        if c["res"] in ("nest_include",) and c["len"] > 600:
            continue
        if c["res"] == "out_path" and c["len"] > 3500:
            continue            # beyond PATH_MAX the file system refuses the path before naken_asm sees it
        if c["res"] == "pass_only":
            src, files, args = render_pass(c["guard"], c["later"], c["stmt"])
            add("limit", "pass_only:%s:%s:%s" % (c["guard"], c["later"], c["stmt"]), src, files, args, 30)
            continue
        src, files, args = render(c["res"], c["len"])
        rel = "lt" if c["len"] < c["cap"] else ("eq" if c["len"] == c["cap"] else "gt")
        add("limit", "%s:%s" % (c["res"], rel), src, files, args, 30)
    for i, e in enumerate(EXTREME):
        add("extreme", "extreme:%d:%s" % (i, e.split("\n")[0][:30]), ".msp430\n" + e)
    # time proportional to the input, not to the address range: a few bytes at both ends of the address space in the
    # record formats (bin, elf, uf2 hold the whole range by definition and are not asked for here)
    for i, e in enumerate(SPARSE):
        for o in ([], ["-l"], ["-type", "srec"], ["-type", "wdc"], ["-l", "-type", "srec"]):
            add("extreme", "sparse:%d:%s" % (i, " ".join(o)), e, args=o, rotate=False)
    # the C12 corruption space on the sanitizer build
    for base in (1, 2, 3):
        for kind in sorted(c12.BAD):
            for w in ("none", "if1", "macro"):
                if (kind, w) in c12.EXCLUDE:
                    continue
                add("corrupt", "corrupt:%s@%s" % (kind, w), c12.render(dict(base=base, kind=kind, pos="middle", wrap=w)))
    samples = sorted(glob.glob(os.path.join(C.REPO, "samples", "**", "*.asm"), recursive=True))
    nmut = 400 if tier == "quick" else 6000
    for i in range(nmut):
        f = samples[rnd.randrange(len(samples))]
        text = open(f, errors="replace").read()[:6000]
        add("mutate", "mutate:" + os.path.relpath(f, C.REPO), mutate(text, rnd), args=["-I", os.path.join(C.REPO, "include")])
    # every sample program cut behind a comma (an operand is expected next), ending in `(5` without a newline
    for f in samples:
        text = open(f, errors="replace").read()[:20000]
        cuts = [m.end() for m in re.finditer(r",[ \t]*", text)]
        for c0 in (cuts if tier == "thorough" else rnd.sample(cuts, min(len(cuts), 6))):
            add("mutate", "cut:" + os.path.relpath(f, C.REPO), text[:c0] + "(5", args=["-I", os.path.join(C.REPO, "include")])
    for i in range(200 if tier == "quick" else 3000):
        n = rnd.choice([1, 7, 64, 513, 2000])
        add("bytes", "bytes", bytes(rnd.getrandbits(8) for _ in range(n)))
    # every byte value inside the body of a macro with a parameter and inside a define (the stored text of a macro
    # uses byte values of its own: markers, terminators)
    for b in range(1, 256):
        if b in (10, 13):
            continue
        add("limit", "macro_body_byte:%s" % ("control" if b < 32 else ("ascii" if b < 127 else "high")),
            b".msp430\n.macro F(a)\n.db a, " + bytes([b, 0xff, 0x2c, 0x20, b, 0x35]) + b"\n.endm\nF(1)\n.define DV 1" + bytes([b]) + b"\n.db DV\n", to=20, rotate=False)
    # operand counts: every instruction text of the comparison corpus with 1..9 operands (its own, cut off or its last one
    # repeated), assembled in-process on the sanitizer build: whatever is wrong with the count must be a diagnostic
    ocases = []
    allcpus = {c["name"] for c in K.cpu_list(vdir)}
    forms = [(cpu, t) for cpu, t in K.corpus(allcpus) + K.template_extra(allcpus) if ":" not in t and len(t.split(None, 1)) == 2]
    if tier == "quick":
        forms = rnd.sample(forms, min(len(forms), 2500))
    for fi, (cpu, t) in enumerate(forms):
        mn, rest = t.split(None, 1)
        ops = [o.strip() for o in rest.split(",")]
        lines = []
        for n in range(1, 10):
            if n != len(ops):
                lines.append("  %s %s" % (mn, ", ".join((ops + [ops[-1]] * 9)[:n])))
        for li, line in enumerate(lines):
            ocases.append(("o%d.%d" % (fi, li), "imgmax=64", ".%s\n%s\n" % (cpu, line)))
    oobs = C.conform_parallel(vdir, "asm", ocases, rd, "opcount", 10, nproc=C.NCPU)
    osrc = {c[0]: c[2] for c in ocases}
    events = []
    for o in oobs:
        died = bool(o.get("died"))
        if died:
            why = "timeout" if o.get("timeout") else (o.get("san") or "signal %s" % o.get("sig"))
            src = osrc[o["case"]]
            cpu = src.split("\n")[0][1:]
            chk.report("asm:operand count:%s:%s" % (cpu, site(why) if not o.get("timeout") else "timeout"),
                       "the assembler died (%s) on\n%s" % (why[:200], src), dict(source=src, observed={k: v for k, v in o.items() if k != "img"}))
        # (the in-process run has no exit status; a refusal counts as status 1 with its diagnostic)
        events.append({"id": "op." + o["case"], "obs": {"died": died, "status": 0 if (o.get("r1") == 0 and o.get("r2") == 0) else 1, "diag": 1}})
    details = {}
    with ThreadPoolExecutor(C.NCPU) as ex:
        for cid, ob, san, out in ex.map(run_one, jobs):
            events.append({"id": cid, "obs": ob})
            details[cid] = (san, out)
    canaries = set()
    oks = [e for e in events if not e["obs"]["died"] and e["obs"]["status"] in (0, 1)]
    for e in rnd.sample(oks, min(12, len(oks))):
        c = json.loads(json.dumps(e))
        c["id"] = "canary." + e["id"]
        c["obs"]["died"] = True
        canaries.add(c["id"])
        events.append(c)
    verdicts, runs = C.tlc_accept("TraceLimits", "trace_Limits.cfg", events, rd, "c16", nchunks=4)
    for r in runs:
        chk.add_tlc(r)
    bad = {v["id"]: v for v in verdicts}
    missed = [c for c in canaries if c not in bad]
    if missed:
        raise C.InfraError("canaries accepted: %s" % missed[:3])
    for vid, v in sorted(bad.items()):
        if vid in canaries:
            continue
        if vid.startswith("op."):
            continue            # reported above
        kind, key, src = meta[vid]
        san, out = details[vid]
        k = "asm:%s:%s" % (site(san) if v["why"].startswith("died") else v["why"], key if kind in ("limit", "extreme", "corrupt") else kind)
        chk.report(k, "%s (%s) on %s input\n%s" % (v["why"], san, kind, src[:300]), dict(kind=kind, key=key, source=src[:4000], why=v["why"], report=san, output=out))
    kinds = {}
    for cid, (kind, key, src) in meta.items():
        kinds[kind] = kinds.get(kind, 0) + 1
    chk.cov.update(dict(
        evaluations=len(jobs) + len(ocases), operand_count_cases=len(ocases),
        distinct_nontrivial=len({m[2] for m in meta.values()}),
        rule="TLC enumerates 30 bounded resources x lengths {1, cap/2, cap-1, cap, cap+1, cap+2, 2cap, 2cap+1, 16cap}; plus 44 extreme "
             "address/argument programs, the C12 corruption space, seeded token mutations of the repository samples and seeded byte "
             "strings; every input is non-trivial; distinct by source text",
        kinds=kinds, traces_validated_against_impl=len(events) - len(canaries),
        canaries=dict(injected=len(canaries), rejected=len(canaries)), exhaustive=False))
    chk.samples = [m[2][:200] for m in rnd.sample(list(meta.values()), 4)]
    chk.assumptions = ["memory-safety oracle: AddressSanitizer + -fsanitize=bounds,... build; timeouts 20-30 s (no address-space limit: the sanitizer needs its shadow memory)",
                       "a diagnostic is a stdout line matching " + DIAG.pattern]
    return chk.finish()
