"""Builds ELF32 relocatable objects and ar archives from a description, for C20.

An object is dict(text=bytes, funcs=[(name, offset, size)], relocs=[(offset, symbol name)],
endian='little'|'big', extra_sections=int, local_relocs=[offset, ...], local_funcs=[name, ...]).
A relocation listed in local_relocs is made against the .text section symbol (the addend is in
the instruction), as compilers do for calls to static functions; local_funcs get LOCAL binding.  Symbols named in relocs that are not functions of
this object become undefined globals.  Layout follows what MIPS gcc writes: sections
null, .text, [.data ...], .rel.text, .symtab, .strtab, .shstrtab; R_MIPS_26 relocations."""
import struct

R_MIPS_26 = 4


def build_obj(obj):
    end = "<" if obj.get("endian", "little") == "little" else ">"
    text = bytes(obj["text"])
    funcs = obj["funcs"]
    relocs = obj["relocs"]

    strtab = b"\0"
    names = {}

    def name_off(n):
        nonlocal strtab
        if n not in names:
            names[n] = len(strtab)
            strtab += n.encode() + b"\0"
        return names[n]

    # symbol table: null, section symbol for .text, functions, undefined
    syms = [struct.pack(end + "IIIBBH", 0, 0, 0, 0, 0, 0)]
    syms.append(struct.pack(end + "IIIBBH", 0, 0, 0, 3, 0, 1))          # STT_SECTION, local
    index = {}
    locals_ = set(obj.get("local_funcs", []))
    for (n, off, size) in [f for f in funcs if f[0] in locals_ and not obj.get("strip_locals")]:
        index[n] = len(syms)
        syms.append(struct.pack(end + "IIIBBH", name_off(n), off, size, (0 << 4) | 2, 0, 1))   # LOCAL FUNC in .text
    first_global = len(syms)
    for (n, off, size) in [f for f in funcs if f[0] not in locals_]:
        index[n] = len(syms)
        syms.append(struct.pack(end + "IIIBBH", name_off(n), off, size, (1 << 4) | 2, 0, 1))   # GLOBAL FUNC in .text
    for (off, n) in relocs:
        if n not in index:
            index[n] = len(syms)
            syms.append(struct.pack(end + "IIIBBH", name_off(n), 0, 0, (1 << 4) | 0, 0, 0))    # GLOBAL NOTYPE UND
    symtab = b"".join(syms)
    local_relocs = set(obj.get("local_relocs", []))
    rel = b"".join(struct.pack(end + "II", off, ((1 if off in local_relocs else index[n]) << 8) | R_MIPS_26) for (off, n) in relocs)

    shstr = b"\0"
    shn = {}
    for n in [".text", ".data", ".rel.text", ".symtab", ".strtab", ".shstrtab"]:
        shn[n] = len(shstr)
        shstr += n.encode() + b"\0"

    nextra = obj.get("extra_sections", 0)
    body = b""
    off0 = 52

    def place(data, align=4):
        nonlocal body
        while (off0 + len(body)) % align:
            body += b"\0"
        o = off0 + len(body)
        body += data
        return o

    secs = [(0, 0, 0, 0, 0, 0, 0, 0, 0, 0)]
    o = place(text)
    secs.append((shn[".text"], 1, 6, 0, o, len(text), 0, 0, 4, 0))
    for i in range(nextra):
        d = bytes([0xd0 + i] * 8)
        o = place(d)
        secs.append((shn[".data"], 1, 3, 0, o, len(d), 0, 0, 4, 0))
    symtab_index = len(secs) + 1
    o = place(rel)
    secs.append((shn[".rel.text"], 9, 0, 0, o, len(rel), symtab_index, 1, 4, 8))
    o = place(symtab)
    secs.append((shn[".symtab"], 2, 0, 0, o, len(symtab), symtab_index + 1, first_global, 4, 16))
    o = place(strtab, 1)
    secs.append((shn[".strtab"], 3, 0, 0, o, len(strtab), 0, 0, 1, 0))
    o = place(shstr, 1)
    secs.append((shn[".shstrtab"], 3, 0, 0, o, len(shstr), 0, 0, 1, 0))
    while (off0 + len(body)) % 4:
        body += b"\0"
    shoff = off0 + len(body)
    sh = b"".join(struct.pack(end + "10I", *s) for s in secs)
    ident = b"\x7fELF" + bytes([1, 1 if end == "<" else 2, 1, 0]) + b"\0" * 8
    hdr = ident + struct.pack(end + "HHIIIIIHHHHHH", 1, 8, 1, 0, 0, shoff, 0x1000, 52, 0, 0, 40, len(secs), len(secs) - 1)
    return hdr + body + sh


def build_ar(members):
    """members: [(file name, object bytes, [global function names])]"""
    out_members = []
    # symbol table member: count, offsets (filled later), names
    names = b""
    owners = []
    for i, (fn, data, syms) in enumerate(members):
        for s in syms:
            names += s.encode() + b"\0"
            owners.append(i)
    symsize = 4 + 4 * len(owners) + len(names)
    pos = 8 + 60 + symsize + (symsize & 1)
    offs = []
    for (fn, data, syms) in members:
        offs.append(pos)
        pos += 60 + len(data) + (len(data) & 1)

    def header(name, size):
        return ("%-16s%-12s%-6s%-6s%-8s%-10d" % (name, "0", "0", "0", "644", size)).encode() + b"`\n"

    out = b"!<arch>\n"
    table = struct.pack(">I", len(owners)) + b"".join(struct.pack(">I", offs[o]) for o in owners) + names
    out += header("/", len(table)) + table + (b"\n" if len(table) & 1 else b"")
    for (fn, data, syms) in members:
        out += header(fn + "/", len(data)) + data + (b"\n" if len(data) & 1 else b"")
    return out
