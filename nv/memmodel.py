"""The memory image (core/Memory.cpp) against Image.tla: shared by the properties that observe the image
(C01 decode reads, C03 writers/loaders, C05 directives, C13 determinism, C19 naken_util commands).

MCImage (TLC) checks the paged machine against the flat reference and must reject its two named shortcuts;
GenImage (TLC) draws operation scripts and enumerates the boundary scripts; harness mode `mem` runs them on a
real Memory object; TraceImage (TLC) replays each script on Image.tla and compares every observation."""
import json
import os

from . import common as C


def render(ops):
    lines = []
    for o in ops:
        k = o["k"]
        if k == "clr":
            lines.append("clr")
        elif k == "w8":
            lines.append("w8 %d %d" % (o["a"], o["v"][0]))
        elif k == "w16":
            lines.append("w16 %d %d" % (o["a"], o["v"][0] | (o["v"][1] << 8)))
        elif k == "w32":
            lines.append("w32 %d %d %d %d %d" % (o["a"], o["v"][0], o["v"][1], o["v"][2], o["v"][3]))
        elif k == "w":
            lines.append("w %d %d %d" % (o["a"], o["v"][0], o["line"]))
        elif k == "wd":
            lines.append("wd %d %d" % (o["a"], o["line"]))
        else:
            lines.append("%s %d" % (k, o["a"]))
    return "\n".join(lines)


def run_image(chk, tier, seed, rnd, prop):
    """returns the number of scripts validated; reports violations under the calling property"""
    vdir = C.ensure_build("rel")
    rd = os.path.join(chk.rundir, "image")
    os.makedirs(rd, exist_ok=True)
    # the design: paged machine = flat reference; the two shortcuts are told apart
    for cfg, must_hold in (("mc_Image.cfg", True), ("mc_Image_dev1.cfg", False), ("mc_Image_dev2.cfg", False)):
        r = C.tlc("MCImage", cfg, os.path.join(rd, cfg[:-4]), workers=4, heap="3g")
        chk.add_tlc(r)
        if must_hold and not r.ok:
            chk.report("model:Image:%s" % r.violated, "the paged machine does not refine the flat image: %s" % r.violated, dict(out=r.out[-1500:]))
        if not must_hold and r.ok:
            raise C.InfraError("MCImage accepted the shortcut of %s: the model cannot tell it from the real lookup" % cfg)
    g = C.tlc("GenImage", "gen_Image.cfg", os.path.join(rd, "gen"), workers=4, heap="3g", simulate=(120 if tier == "quick" else 2500), depth=16, seed=seed)
    chk.add_tlc(g)
    scripts = C.parse_payload(g.lines, "CASE ")
    gb = C.tlc("GenImage", "gen_ImageBound.cfg", os.path.join(rd, "genb"), workers=1, heap="2g", prefixes=("BOUND ",))
    chk.add_tlc(gb)
    bound = C.parse_payload(gb.lines, "BOUND ")
    if len(scripts) < 200 or not bound or len(bound[0]) < 400:
        raise C.InfraError("GenImage gave %d scripts / %d boundary scripts" % (len(scripts), len(bound[0]) if bound else 0))
    bs = sorted(bound[0], key=lambda x: json.dumps(x, sort_keys=True))
    if tier == "quick":
        bs = rnd.sample(bs, 160) + [b for b in bs if len(b) in (4, 6, 12)]
    allscripts = scripts + bs
    cases, meta = [], {}
    for i, ops in enumerate(allscripts):
        big = i % 2 == 1
        cid = "m%d" % i
        meta[cid] = (ops, big)
        cases.append((cid, "endian=%s" % ("big" if big else "little"), render(ops)))
    obs = {o["case"]: o for o in C.conform_parallel(vdir, "mem", cases, rd, "mem", 5, nproc=8)}
    events = []
    for cid, (ops, big) in meta.items():
        o = obs.get(cid)
        if o is None or o.get("died") or "obs" not in o:
            chk.report("image:died", "the Memory object died on\n%s" % render(ops), dict(script=render(ops), observed=o))
            continue
        if len(o["obs"]) != len(ops):
            raise C.InfraError("mem harness returned %d observations for %d operations" % (len(o["obs"]), len(ops)))
        events.append({"id": cid, "big": big, "ops": ops, "obs": o["obs"]})
    canaries = set()
    pool = [e for e in events if any(x["k"] in ("r8", "r16", "r32") for x in e["ops"])]
    for e in rnd.sample(pool, min(8, len(pool))):
        c = json.loads(json.dumps(e))
        c["id"] = "canary." + e["id"]
        k = [i for i, x in enumerate(c["ops"]) if x["k"] in ("r8", "r16", "r32")][0]
        c["obs"][k]["v"][0] ^= 1
        canaries.add(c["id"])
        events.append(c)
    verdicts, runs = C.tlc_accept("TraceImage", "trace_Image.cfg", events, rd, "image", heap="3g", nchunks=4)
    for r in runs:
        chk.add_tlc(r)
    bad = {v["id"]: v for v in verdicts}
    missed = [c for c in canaries if c not in bad]
    if missed:
        raise C.InfraError("image canaries accepted: %s" % missed[:3])
    for vid, v in sorted(bad.items()):
        if vid in canaries:
            continue
        ops, big = meta[vid]
        chk.report("image:%s:%s" % (v["op"], "big" if big else "little"),
                   "Memory (%s endian): operation %d (%s) of the script returned something else than Image.tla: expected %s\n%s" % (
                       "big" if big else "little", v["at"], v["op"], json.dumps(v["expect"]), render(ops)),
                   dict(script=render(ops), big=big, at=v["at"], expect=v["expect"]))
    chk.cov["image_scripts"] = len(events) - len(canaries)
    chk.cov.setdefault("canaries", dict(injected=0, rejected=0))
    return len(events) - len(canaries), len(canaries)
