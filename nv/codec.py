"""Shared pipeline for C07/C08 (decode-first cases) and C01/C06 (encode-first)."""
import json
import os
import random
import re
import subprocess

from . import common as C

TOK = re.compile(r"0x[0-9a-fA-F]+|\d+|[A-Za-z_.$%@][A-Za-z0-9_.$%@']*|\S")


def normalise(text):
    """pure lexer: words lower-cased, numbers as integers (strings '#big<hex>' from 2^31 up),
    punctuation one token each; a '-' directly after an opening token is folded into the number"""
    out = []
    for t in TOK.findall(text):
        v = None
        if t[:2] in ("0x", "0X"):
            v = int(t, 16)
        elif t.isdigit():
            v = int(t, 10)
        if v is None:
            out.append(t.lower())
            continue
        if out and out[-1] == "-" and (len(out) == 1 or out[-2] in (",", "(", "#", "[", "+", "=", ":")
                                       or (isinstance(out[-2], str) and out[-2].isalpha())):
            out.pop()
            v = -v
        out.append(v if -(1 << 31) < v < (1 << 31) else "#big%x" % (v & ((1 << 64) - 1)))
    return out


def tlc_tokens(toks):
    """TLC cannot test the type of a value: numbers and words become records"""
    return [{"k": "n", "v": t} if isinstance(t, int) else {"k": "w", "v": t} for t in toks]


def cpu_list(vdir):
    return json.loads(subprocess.check_output([os.path.join(vdir, "conform"), "cpulist"]))


def out_of_scope(prop):
    if os.environ.get("NV_NO_SCOPE"):          # triage runs: see what the excluded CPUs would report
        return set()
    return set(json.load(open(os.path.join(C.VERIF, "codec_scope.json"))).get(prop, []))


FILLS = ["00" * 14, "ff" * 14, "55aa" * 7]


def fill_for(p, cpu_index):
    """the 14 bytes after a leading pattern: a function of the pattern only, so that the
    quick tier (a seeded subset of patterns) explores a subset of what the thorough tier explores"""
    if p % 4:
        return FILLS[p % 3]
    x = (p * 2654435761 + cpu_index * 40503 + 12345) & 0xffffffff
    out = []
    for _ in range(14):
        x = (x * 1103515245 + 12345) & 0x7fffffff
        out.append("%02x" % ((x >> 16) & 0xff))
    return "".join(out)


def dis_cases(cpus, tier, seed, every=1):
    rnd = random.Random(seed)
    cases = []
    for ci, cpu in enumerate(cpus):
        if tier == "thorough":
            pats = range(0, 65536, every)
        else:
            pats = sorted(set(rnd.sample(range(65536), 3000) + [0, 0xffff, 0x00ff, 0xff00, 0x8000, 0x0080]))
        for p in pats:
            addr = 0 if (p >> 3) % 2 == 0 else 0x1000
            cases.append(("%s.%04x" % (cpu["name"], p), "kind=dis cpu=%s addr=%d" % (cpu["name"], addr),
                          "%04x%s" % (p, fill_for(p, cpu["type"]))))
    return cases


def dis_event(o, cpu_by_name):
    cpu = o["cpu"]
    e = {"id": o["case"], "kind": "dis", "cpu": cpu, "unit": cpu_by_name[cpu]["bpa"], "len": o["len"],
         "tlen": o["tlen"], "guard": o["guard"], "loc": o["loc"], "acc": o["acc"],
         "n1": tlc_tokens(normalise(o["text"])), "n2": tlc_tokens(normalise(o.get("text2", ""))), "len2": o.get("len2", 0)}
    return e


def shape(text):
    """mnemonic + operand kinds with numbers abstracted: the class key of a finding"""
    toks = normalise(text)
    out = []
    for t in toks:
        if isinstance(t, int) or t.startswith("#"):
            out.append("#")
        elif not t.isascii() or not t.isprintable():
            out.append("<junk>")
        else:
            out.append(re.sub(r"\d+", "#", t))
    txt = " ".join(out)
    # register lists and repeated operands collapse: one defect, not one class per list length
    txt = re.sub(r"(, (\S+))( , \2)+", r"\1 ..", txt)
    return txt[:80]


def run_dis(chk, tier, seed, want, only=None, tag="dis"):
    """runs the decode-first pipeline for the CPUs in `only` (all when None)"""
    vdir = C.ensure_build("rel")
    cpus = cpu_list(vdir)
    by_name = {c["name"]: c for c in cpus}
    skip = out_of_scope(want)
    sel = [c for c in cpus if (only is None or c["name"] in only) and c["name"] not in skip]
    cases = dis_cases(sel, tier, seed + (hash(tuple(sorted(only))) % 1000 if only else 0))
    obs = C.conform_parallel(vdir, "codec", cases, chk.rundir, tag, 5, nproc=C.NCPU)
    byid = {o["case"]: o for o in obs}
    if len(byid) != len(cases):
        raise C.InfraError("conform returned %d of %d" % (len(byid), len(cases)))
    nodec = sorted({c[1].split("cpu=")[1].split()[0] for c in cases if byid[c[0]].get("nodecoder")})
    if nodec:
        raise C.InfraError("no single-instruction decoder found for CPUs %s (harness table out of date)" % nodec)
    events, died = [], []
    for c in cases:
        o = byid[c[0]]
        if o.get("died"):
            died.append((c, o))
            continue
        events.append(dis_event(o, by_name))
    return cpus, cases, byid, events, died


# ---------------------------------------------------------------------------
# encode-first side (C01, C06)
# ---------------------------------------------------------------------------

def corpus(cpu_names):
    """instruction texts of tests/comparison/*.txt, read from /repo at run time"""
    out = []
    d = os.path.join(C.REPO, "tests", "comparison")
    for f in sorted(os.listdir(d)):
        if not f.endswith(".txt"):
            continue
        cpu = f[:-4]
        if cpu not in cpu_names:
            continue
        for line in open(os.path.join(d, f), errors="replace"):
            if "|" not in line:
                continue
            text = line.split("|")[0].strip()
            if text and "\t" not in text and len(text) < 100:
                out.append((cpu, text))
    return out


def template_extra(cpu_names):
    """instruction texts of tests/comparison/template/*.txt that are not in the comparison file of the CPU (the lines the
    test generator leaves out, many of them commented out with a ';'): forms the repository names but does not test"""
    out = []
    d = os.path.join(C.REPO, "tests", "comparison")
    have = set(corpus(cpu_names))
    td = os.path.join(d, "template")
    if not os.path.isdir(td):
        return out
    for f in sorted(os.listdir(td)):
        cpu = f[:-4]
        if not f.endswith(".txt") or cpu not in cpu_names:
            continue
        for line in open(os.path.join(td, f), errors="replace"):
            text = line.strip().lstrip(";").strip()
            if not text or text.startswith(("//", ".", "#")) or "\t" in text or len(text) >= 100 or "  (" in text:
                continue
            if (cpu, text) not in have:
                have.add((cpu, text))
                out.append((cpu, text))
    return out


def enc_event(o, by_name):
    cpu = o["cpu"]
    base = None
    walk = []
    for s in o.get("walk", []):
        if base is None:
            base = s["a"]
        walk.append({"off": s["a"] - base, "len": s["len"], "racc": s["racc"], "rb": list(bytes.fromhex(s["rb"]))})
    return {"id": o["case"], "kind": "enc", "cpu": cpu, "unit": by_name[cpu]["bpa"], "acc": o["acc"],
            "b": list(bytes.fromhex(o["b"])), "walk": walk}


NUM = re.compile(r"(?<![A-Za-z0-9_.$%@'])(0x[0-9a-fA-F]+|\d+)(?![A-Za-z0-9_'])")


def probe_texts(text, probes):
    """for each numeric operand position of `text`: the texts with that number replaced by each probe value"""
    out = []
    ms = list(NUM.finditer(text))
    for pi, m in enumerate(ms[:2]):
        s, e = m.span()
        pre = text[:s]
        # a sign directly in front of the number belongs to it
        if pre.rstrip().endswith("-") and (len(pre.rstrip()) == 1 or pre.rstrip()[-2] in ",(#[ +"):
            pre = pre.rstrip()[:-1]
        out.append((pi, [pre + str(v) + text[e:] for v in probes]))
    return out
