"""Shared machinery: build cache, TLC runner, known findings, evidence, verdicts.

Everything a registered check needs lives under /verif; scratch data goes to
/verif/.build/run/<tag>/ and is removed at the end of the run.
"""
import fcntl
import fnmatch
import hashlib
import json
import os
import re
import shutil
import subprocess
import sys
import time

VERIF = os.path.dirname(os.path.dirname(os.path.abspath(__file__)))
REPO = os.environ.get("NAKEN_REPO", "/repo")
BUILD = os.path.join(VERIF, ".build")
SPEC = os.path.join(VERIF, "spec")
GUARD = "NAKEN_ASM_VERIF"
NCPU = os.cpu_count() or 4

SRC_DIRS = ["asm", "common", "core", "disasm", "fileio", "simulate", "table",
            "main", "library", "build", "include"]
SRC_FILES = ["Makefile", "configure"]


class InfraError(Exception):
    pass


def log(*a):
    print(*a, flush=True)


# --------------------------------------------------------------------------
# build cache
# --------------------------------------------------------------------------

def _source_files():
    out = []
    for d in SRC_DIRS:
        top = os.path.join(REPO, d)
        for root, dirs, files in os.walk(top):
            dirs.sort()
            for f in sorted(files):
                if f.endswith((".o", ".a", ".so")):
                    continue
                out.append(os.path.join(root, f))
    for f in SRC_FILES:
        out.append(os.path.join(REPO, f))
    return out


def repo_hash():
    h = hashlib.sha256()
    for p in _source_files():
        try:
            with open(p, "rb") as fh:
                data = fh.read()
        except OSError:
            continue
        h.update(os.path.relpath(p, REPO).encode())
        h.update(b"\0")
        h.update(hashlib.sha256(data).digest())
    for p in sorted(os.listdir(os.path.join(VERIF, "harness"))):
        if p.endswith((".cpp", ".h")):
            with open(os.path.join(VERIF, "harness", p), "rb") as fh:
                h.update(hashlib.sha256(fh.read()).digest())
    return h.hexdigest()[:16]


VARIANTS = {
    # the repository's own flags (-Wall -DREADLINE -O3) at -O2 plus the guard
    "rel": dict(cflags="-Wall -DREADLINE -O2 -D%s" % GUARD, ldflags="",
                cxx="g++"),
    "asan": dict(cflags="-Wall -DREADLINE -O1 -g -fsanitize=address "
                        "-fsanitize=bounds,integer-divide-by-zero,null,return,unreachable,vla-bound "
                        "-fno-sanitize-recover=all "
                        "-fno-omit-frame-pointer -D%s" % GUARD,
                 ldflags="-fsanitize=address,undefined", cxx="g++"),
}


def _run(cmd, cwd=None, env=None, timeout=1800, check=True, capture=True):
    p = subprocess.run(cmd, cwd=cwd, env=env, timeout=timeout, shell=isinstance(cmd, str),
                       stdout=subprocess.PIPE if capture else None,
                       stderr=subprocess.STDOUT if capture else None)
    if check and p.returncode != 0:
        raise InfraError("command failed (%d): %s\n%s" % (
            p.returncode, cmd, (p.stdout or b"").decode(errors="replace")[-4000:]))
    return p


def gen_disasm_table(vdir):
    """cpu_list[] only knows the range printers; the single-instruction decoders
    (same signature for all CPUs) are found by name in disasm/*.h and *.cpp."""
    ddir = os.path.join(vdir, "disasm")
    pairs = []
    for h in sorted(os.listdir(ddir)):
        if not h.endswith(".h"):
            continue
        txt = open(os.path.join(ddir, h)).read()
        cpp = os.path.join(ddir, h[:-2] + ".cpp")
        ctxt = open(cpp).read() if os.path.exists(cpp) else ""
        ranges = re.findall(r"void\s+disasm_range_(\w+)\s*\(", txt)
        singles = set(re.findall(r"int\s+disasm_(\w+)\s*\(", txt))
        defined = set(re.findall(r"(?m)^int\s+disasm_(\w+)\s*\(", ctxt))
        for r in ranges:
            if r in singles:
                pairs.append((h, r, False))
            elif r in defined:
                pairs.append((h, r, True))
    with open(os.path.join(vdir, "disasm_table.h"), "w") as fh:
        fh.write("#include <stdint.h>\n#include \"core/Memory.h\"\n#include \"core/cpu_list.h\"\n"
                 "typedef int (*disasm_one_t)(Memory *, uint32_t, char *, int, int, int *, int *);\n"
                 "struct NvDisasmEntry { disasm_range_t range; disasm_one_t one; const char *name; };\n"
                 "extern NvDisasmEntry nv_disasm_table[];\n")
    with open(os.path.join(vdir, "disasm_table.cpp"), "w") as fh:
        fh.write("#include \"disasm_table.h\"\n")
        for h in sorted({p[0] for p in pairs}):
            fh.write("#include \"disasm/%s\"\n" % h)
        for h, r, ext in pairs:
            if ext:
                fh.write("int disasm_%s(Memory *, uint32_t, char *, int, int, int *, int *);\n" % r)
        fh.write("NvDisasmEntry nv_disasm_table[] = {\n")
        for h, r, ext in pairs:
            fh.write("  { disasm_range_%s, disasm_%s, \"%s\" },\n" % (r, r, r))
        fh.write("  { 0, 0, 0 }\n};\n")
    return pairs


def ensure_build(variant="rel"):
    """Build /repo's current working tree out of tree; returns the directory
    holding naken_asm, naken_util, build/naken_asm.a and conform."""
    os.makedirs(BUILD, exist_ok=True)
    h = repo_hash()
    lock = open(os.path.join(BUILD, ".lock"), "w")
    fcntl.flock(lock, fcntl.LOCK_EX)
    try:
        root = os.path.join(BUILD, h)
        vdir = os.path.join(root, variant)
        stamp = os.path.join(vdir, ".ok")
        if os.path.exists(stamp):
            os.utime(root, None)
            return vdir
        t0 = time.time()
        if os.path.exists(vdir):
            shutil.rmtree(vdir)
        os.makedirs(vdir)
        for d in SRC_DIRS:
            src = os.path.join(REPO, d)
            if os.path.isdir(src):
                shutil.copytree(src, os.path.join(vdir, d), ignore=shutil.ignore_patterns(
                    "*.o", "*.a", "*.so"))
        for f in SRC_FILES:
            shutil.copy2(os.path.join(REPO, f), os.path.join(vdir, f))
        os.makedirs(os.path.join(vdir, "tests", "unit", "common"), exist_ok=True)
        v = VARIANTS[variant]
        _run("bash ./configure", cwd=vdir)
        _run(["make", "-j%d" % NCPU, "CFLAGS=" + v["cflags"], "LDFLAGS=" + v["ldflags"]],
             cwd=vdir)
        for exe in ("naken_asm", "naken_util"):
            if not os.path.exists(os.path.join(vdir, exe)):
                raise InfraError("build did not produce " + exe)
        # conformance driver
        gen_disasm_table(vdir)
        hsrc = os.path.join(VERIF, "harness")
        srcs = [os.path.join(hsrc, f) for f in sorted(os.listdir(hsrc)) if f.endswith(".cpp")]
        _run([v["cxx"]] + v["cflags"].split() + ["-std=c++17", "-Wno-unused", "-I" + vdir, "-I" + hsrc,
              "-o", os.path.join(vdir, "conform")] + srcs + [os.path.join(vdir, "disasm_table.cpp")] +
             [os.path.join(vdir, "build", "naken_asm.a")] + v["ldflags"].split() + ["-lreadline"],
             cwd=vdir)
        open(stamp, "w").write("%s %.1fs\n" % (h, time.time() - t0))
        log("[build] %s/%s built in %.1fs" % (h, variant, time.time() - t0))
        # prune old hashes (keep 2 newest)
        ents = [os.path.join(BUILD, e) for e in os.listdir(BUILD)
                if re.fullmatch(r"[0-9a-f]{16}", e)]
        ents.sort(key=lambda p: os.path.getmtime(p), reverse=True)
        for e in ents[2:]:
            # a build younger than half an hour may belong to a check that is still running
            if e != root and time.time() - os.path.getmtime(e) > 1800:
                shutil.rmtree(e, ignore_errors=True)
        return vdir
    finally:
        fcntl.flock(lock, fcntl.LOCK_UN)
        lock.close()


# --------------------------------------------------------------------------
# run directories
# --------------------------------------------------------------------------

def run_dir(tag):
    d = os.path.join(BUILD, "run", "%s.%d" % (tag, os.getpid()))
    if os.path.exists(d):
        shutil.rmtree(d)
    os.makedirs(d)
    return d


def cleanup(d):
    if os.environ.get("NV_KEEP"):
        return
    shutil.rmtree(d, ignore_errors=True)


# --------------------------------------------------------------------------
# TLC
# --------------------------------------------------------------------------

TLC_JARS = "/opt/veriftools/tla/tla2tools.jar:/opt/veriftools/tla/CommunityModules-deps.jar"


class TlcResult:
    def __init__(self):
        self.states = 0
        self.distinct = 0
        self.lines = []       # PrintT payload lines, unescaped
        self.ok = False
        self.violated = None  # name of a violated invariant/property
        self.out = ""
        self.wall = 0.0
        self.name = ""

    def summary(self):
        return dict(name=self.name, states=self.states, distinct=self.distinct,
                    wall_s=round(self.wall, 2))


_unq = re.compile(r'^"(.*)"$')


def _unescape_tla(s):
    m = _unq.match(s)
    if not m:
        return s
    body = m.group(1)
    out = []
    i = 0
    while i < len(body):
        c = body[i]
        if c == "\\" and i + 1 < len(body):
            n = body[i + 1]
            out.append({"n": "\n", "t": "\t", '"': '"', "\\": "\\"}.get(n, "\\" + n))
            i += 2
        else:
            out.append(c)
            i += 1
    return "".join(out)


def tlc(module, cfg, rundir, env=None, workers=1, simulate=None, depth=None, seed=None,
        heap="4g", timeout=1500, prefixes=("CASE ", "VERDICT ", "NOTE "), deadlock=False,
        extra=None, expect_violation=None):
    """Run TLC on spec/<module>.tla with spec/<cfg>.  Returns TlcResult.
    Lines printed with PrintT that start with one of `prefixes` are collected."""
    meta = os.path.join(rundir, "meta.%s.%d" % (cfg.replace("/", "_"), int(time.time() * 1000) % 100000000))
    os.makedirs(meta, exist_ok=True)
    cmd = ["java", "-XX:+UseParallelGC", "-Xss32m", "-Xmx" + heap, "-cp", TLC_JARS, "tlc2.TLC",
           "-workers", str(workers), "-metadir", meta, "-config", os.path.join(SPEC, cfg),
           "-noGenerateSpecTE"]
    if not deadlock:
        cmd.append("-deadlock")   # -deadlock disables deadlock checking
    if simulate:
        cmd += ["-simulate", "num=%d" % simulate]
        if depth:
            cmd += ["-depth", str(depth)]
    if seed is not None:
        cmd += ["-seed", str(seed)]
    if extra:
        cmd += extra
    cmd.append(os.path.join(SPEC, module + ".tla"))
    e = dict(os.environ)
    if env:
        e.update(env)
    t0 = time.time()
    res = TlcResult()
    res.name = cfg
    outpath = os.path.join(rundir, "tlc.%s.out" % cfg.replace("/", "_"))
    with open(outpath, "wb") as fh:
        try:
            p = subprocess.run(cmd, cwd=SPEC, env=e, stdout=fh, stderr=subprocess.STDOUT,
                               timeout=timeout)
            rc = p.returncode
        except subprocess.TimeoutExpired:
            rc = -9
    res.wall = time.time() - t0
    with open(outpath, "r", errors="replace") as fh:
        for line in fh:
            line = line.rstrip("\n")
            if line.startswith('"'):
                u = _unescape_tla(line)
                if u.startswith(prefixes):
                    res.lines.append(u)
                    continue
            m = re.match(r"(\d+) states generated, (\d+) distinct states found", line)
            if m:
                res.states = int(m.group(1))
                res.distinct = int(m.group(2))
            m = re.match(r"The number of states generated: (\d+)", line)
            if m:
                res.states = int(m.group(1))
                res.distinct = max(res.distinct, 1)
            m = re.match(r"Error: Invariant (\S+) is violated", line)
            if m:
                res.violated = m.group(1)
            m = re.match(r"Error: Action property (\S+) is violated", line)
            if m:
                res.violated = m.group(1)
            if "Temporal properties were violated" in line:
                res.violated = res.violated or "temporal"
    shutil.rmtree(meta, ignore_errors=True)
    with open(outpath, "r", errors="replace") as fh:
        txt = fh.read()
    res.out = txt[-6000:]
    res.outpath = outpath
    if res.violated:
        if expect_violation and res.violated == expect_violation:
            res.ok = True
            return res
        res.ok = False
        return res
    if rc != 0:
        # anything that is not a property violation is infrastructure
        m = re.search(r"(?s)(Error:.{0,1800})", txt)
        raise InfraError("TLC failed rc=%s on %s/%s\n%s\n...\n%s" % (
            rc, module, cfg, m.group(1) if m else "", res.out[-800:]))
    res.ok = True
    return res


def parse_payload(lines, prefix):
    out = []
    for l in lines:
        if l.startswith(prefix):
            out.append(json.loads(l[len(prefix):]))
    return out


# --------------------------------------------------------------------------
# known findings
# --------------------------------------------------------------------------

def load_findings(prop):
    path = os.path.join(VERIF, "known_findings.jsonl")
    out = []
    if os.path.exists(path):
        for line in open(path):
            line = line.strip()
            if not line or line.startswith("#"):
                continue
            if line.startswith("fixed:"):
                continue
            try:
                r = json.loads(line)
            except ValueError:
                continue
            if r.get("property") == prop and r.get("status") == "open":
                out.append(r)
    return out


# --------------------------------------------------------------------------
# a check run: collects violations / findings / evidence and exits
# --------------------------------------------------------------------------

class Check:
    def __init__(self, prop, tier, seed, level):
        self.prop = prop
        self.tier = tier
        self.seed = seed
        self.level = level
        self.t0 = time.time()
        self.rundir = run_dir(prop)
        self.tlc_runs = []
        self.violations = []     # dicts with 'what' and 'replay' payload
        self.findings_seen = {}  # key -> count
        self.cov = {}
        self.assumptions = []
        self.samples = []
        self.findings = load_findings(prop)

    def add_tlc(self, r):
        self.tlc_runs.append(r.summary())

    def known(self, key):
        """Return the open finding whose key equals `key` (or, for a finding whose key
        contains '*', matches it as a shell-style pattern), if any."""
        for f in self.findings:
            k = f.get("key", "")
            if k == key or ("*" in k and fnmatch.fnmatchcase(key, k)):
                return f
        return None

    def report(self, key, what, replay_payload):
        """A disagreement between the code and the specification.  `key`
        identifies it for the known-findings file."""
        f = self.known(key)
        if f is not None:
            self.findings_seen[f["key"]] = self.findings_seen.get(f["key"], 0) + 1
            return False
        self.violations.append(dict(key=key, what=what, replay=replay_payload))
        return True

    def finish(self):
        wall = time.time() - self.t0
        states = sum(r["states"] for r in self.tlc_runs)
        distinct = sum(r["distinct"] for r in self.tlc_runs)
        cov = dict(self.cov)
        cov.setdefault("states", distinct)
        cov.setdefault("transitions", states)
        cov["tlc_runs"] = self.tlc_runs
        cov.setdefault("samples", self.samples[:8] or ["(none)"])
        cov["known_findings_seen"] = self.findings_seen
        ev = dict(property_id=self.prop, tier=self.tier, seed=self.seed, level=self.level,
                  coverage=cov, assumptions=self.assumptions, wall_s=round(wall, 2),
                  violations=len(self.violations))
        os.makedirs(os.path.join(VERIF, "evidence"), exist_ok=True)
        with open(os.path.join(VERIF, "evidence", self.prop + ".json"), "w") as fh:
            json.dump(ev, fh, indent=1, sort_keys=True)
            fh.write("\n")
        for f in self.findings:
            k = f.get("key")
            if k in self.findings_seen:
                log("KNOWN-FINDING: property=%s %s [%s; seen %d]" % (
                    self.prop, f.get("what", ""), k, self.findings_seen[k]))
        rc = 0
        if self.violations:
            rdir = os.path.join(VERIF, "replays", self.prop)
            os.makedirs(rdir, exist_ok=True)
            for old in os.listdir(rdir):
                if old.endswith(".json"):
                    os.unlink(os.path.join(rdir, old))
            seen = set()
            n = 0
            for v in self.violations:
                if v["key"] in seen:
                    continue
                seen.add(v["key"])
                n += 1
                if n > (200 if os.environ.get("NV_CLASSES") else 20):
                    break
                name = re.sub(r"[^A-Za-z0-9_.-]+", "_", v["key"])[:80]
                path = os.path.join(rdir, "%s.json" % name)
                with open(path, "w") as fh:
                    json.dump(v, fh, indent=1, default=str)
                log("VIOLATION property=%s replay=%s" % (self.prop, path))
                log("  " + str(v["what"])[:400])
            allk = {}
            for v in self.violations:
                allk[v["key"]] = allk.get(v["key"], 0) + 1
            log("[%s] %d violating cases in %d classes" % (self.prop, len(self.violations), len(allk)))
            if os.environ.get("NV_TRIAGE"):
                first = {}
                for v in self.violations:
                    first.setdefault(v["key"], dict(count=0, what=str(v["what"])[:600]))
                    first[v["key"]]["count"] += 1
                with open(os.environ["NV_TRIAGE"], "w") as fh:
                    json.dump(first, fh, indent=1)
            if os.environ.get("NV_CLASSES"):
                for k in sorted(allk):
                    log("  CLASS %6d %s" % (allk[k], k[:200]))
            rc = 1
        log("[%s] tier=%s seed=%d wall=%.1fs states=%d violations=%d" % (
            self.prop, self.tier, self.seed, wall, distinct, len(self.violations)))
        cleanup(self.rundir)
        return rc


def infra_exit(prop, e):
    log("INFRA-ERROR property=%s %s" % (prop, str(e)[:3000]))
    sys.exit(2)


# --------------------------------------------------------------------------
# helpers shared by property modules
# --------------------------------------------------------------------------

def tlc_cfg_with(cfg, rundir, subst):
    """Copy spec/<cfg> into rundir with `NAME = value` constant lines replaced."""
    src = open(os.path.join(SPEC, cfg)).read()
    for k, v in subst.items():
        src, n = re.subn(r"(?m)^(\s*%s\s*=\s*).*$" % re.escape(k), lambda m: m.group(1) + str(v), src)
        if n == 0:
            raise InfraError("constant %s not in %s" % (k, cfg))
    out = os.path.join(rundir, os.path.basename(cfg))
    open(out, "w").write(src)
    return out


def write_cases(path, cases):
    """cases: iterable of (id, opts, body-bytes-or-str)"""
    with open(path, "wb") as fh:
        for cid, opts, body in cases:
            if isinstance(body, str):
                body = body.encode("latin-1")
            fh.write(("@CASE %s %d %s\n" % (cid, len(body), opts)).encode())
            fh.write(body)
            fh.write(b"\n")


def read_ndjson(path):
    out = []
    with open(path, "r", errors="replace") as fh:
        for line in fh:
            line = line.strip()
            if not line:
                continue
            try:
                out.append(json.loads(line))
            except ValueError:
                # a worker that died mid-line leaves a fragment; the parent's
                # record for that case follows on its own line
                continue
    return out


def conform(vdir, mode, cases_path, out_path, *args, timeout=3000, fresh=False):
    cmd = [os.path.join(vdir, "conform"), mode, cases_path, out_path] + [str(a) for a in args]
    env = dict(os.environ)
    if fresh:
        env["NV_FRESH"] = "1"
    env["ASAN_OPTIONS"] = "detect_leaks=0:abort_on_error=0:halt_on_error=1:allocator_may_return_null=1"
    env["UBSAN_OPTIONS"] = "print_stacktrace=0:halt_on_error=1"
    p = subprocess.run(cmd, env=env, stdout=subprocess.PIPE, stderr=subprocess.STDOUT, timeout=timeout)
    if p.returncode != 0:
        raise InfraError("conform %s failed rc=%d: %s" % (mode, p.returncode, p.stdout.decode(errors="replace")[-2000:]))
    return read_ndjson(out_path)


def conform_parallel(vdir, mode, cases, rundir, tag, *args, nproc=None, timeout=3000, fresh=False):
    """Split cases over processes; returns all observation records."""
    from concurrent.futures import ThreadPoolExecutor
    nproc = nproc or min(NCPU, max(1, len(cases) // 200))
    chunks = [cases[i::nproc] for i in range(nproc)]
    def one(i):
        cp = os.path.join(rundir, "%s.cases.%d" % (tag, i))
        op = os.path.join(rundir, "%s.obs.%d" % (tag, i))
        write_cases(cp, chunks[i])
        return conform(vdir, mode, cp, op, *args, timeout=timeout, fresh=fresh)
    out = []
    with ThreadPoolExecutor(nproc) as ex:
        for r in ex.map(one, range(nproc)):
            out.extend(r)
    return out


def tlc_accept(module, cfg, events, rundir, tag, nchunks=None, env=None, heap="3g", timeout=1500):
    """Run the acceptor over ndjson events split in chunks (one TLC each, in
    parallel).  Returns (verdict records, [TlcResult])."""
    from concurrent.futures import ThreadPoolExecutor
    n = len(events)
    if n == 0:
        raise InfraError("empty trace for " + tag)
    lines = [json.dumps(e, separators=(",", ":")) for e in events]
    total = sum(len(x) for x in lines)
    nchunks = nchunks or max(1, min(NCPU, max(n // 400, total // 4000000)))
    # balance by size (the acceptor's cost per event grows with it): largest first, to the lightest chunk
    parts, plines, load = [[] for _ in range(nchunks)], [[] for _ in range(nchunks)], [0] * nchunks
    for k in sorted(range(n), key=lambda k: -len(lines[k])):
        c = load.index(min(load))
        parts[c].append(events[k])
        plines[c].append(lines[k])
        load[c] += len(lines[k]) + 200
    keep = [c for c in range(nchunks) if parts[c]]
    parts, plines = [parts[c] for c in keep], [plines[c] for c in keep]

    def one(i):
        tp = os.path.join(rundir, "%s.trace.%d.ndjson" % (tag, i))
        with open(tp, "w") as fh:
            for ln in plines[i]:
                fh.write(ln + "\n")
        d = os.path.join(rundir, "%s.tlc.%d" % (tag, i))
        os.makedirs(d, exist_ok=True)
        e2 = dict(env or {})
        e2["TRACE"] = tp
        r = tlc(module, cfg, d, env=e2, workers=1, heap=heap, timeout=timeout)
        if not r.ok:
            raise InfraError("acceptor %s stopped on %s: %s" % (module, r.violated, r.out[-2000:]))
        vs = parse_payload(r.lines, "VERDICT ")
        done = [v for v in vs if "done" in v]
        if len(done) != 1 or done[0]["done"] != len(parts[i]):
            raise InfraError("acceptor %s did not consume its trace (%s of %d)\n%s" % (
                module, done, len(parts[i]), r.out[-1500:]))
        return [v for v in vs if "done" not in v], r

    verdicts, runs = [], []
    with ThreadPoolExecutor(len(parts)) as ex:
        for vs, r in ex.map(one, range(len(parts))):
            verdicts.extend(vs)
            runs.append(r)
    return verdicts, runs
