"""Pure lexers: object files -> field records (no interpretation, no repair).
32-bit quantities become {"h": hi16, "l": lo16} because TLC integers are 32 bit."""
import struct


def hl(v):
    v &= 0xffffffff
    return {"h": v >> 16, "l": v & 0xffff}


def runs_hl(runs):
    """[[addr, hex], ...] -> [{"a": {h,l}, "d": [bytes]}]"""
    return [{"a": hl(a), "d": list(bytes.fromhex(h))} for a, h in runs]


def lex_hex(data):
    recs = []
    for line in data.decode("latin-1").split("\n"):
        line = line.rstrip("\r")
        if line == "":
            continue
        try:
            if line[0] != ":" or len(line) < 11 or len(line) % 2 == 0:
                raise ValueError
            b = bytes.fromhex(line[1:])
            recs.append({"len": b[0], "ah": b[1], "al": b[2], "typ": b[3], "data": list(b[4:-1]), "cks": b[-1]})
        except ValueError:
            recs.append({"bad": True, "len": 0, "ah": 0, "al": 0, "typ": 9, "data": [], "cks": 0})
    return recs


def lex_srec(data):
    recs = []
    alen = {"0": 2, "1": 2, "9": 2, "5": 2, "2": 3, "8": 3, "6": 3, "3": 4, "7": 4}
    for line in data.decode("latin-1").split("\n"):
        line = line.rstrip("\r")
        if line == "":
            continue
        try:
            if line[0] != "S" or line[1] not in alen or len(line) % 2 == 1:
                raise ValueError
            b = bytes.fromhex(line[2:])
            n = alen[line[1]]
            if len(b) < n + 2:
                raise ValueError
            recs.append({"t": int(line[1]), "count": b[0], "addr": list(b[1:1 + n]), "data": list(b[1 + n:-1]), "cks": b[-1]})
        except ValueError:
            recs.append({"bad": True, "t": 4, "count": 0, "addr": [], "data": [], "cks": 0})
    return recs


def lex_wdc(data):
    f = {"magic": data[0] if data else -1, "blocks": [], "rest": 0}
    p = 1
    while p + 6 <= len(data):
        a = list(data[p:p + 3])
        n = list(data[p + 3:p + 6])
        ln = n[0] + 256 * n[1] + 65536 * n[2]
        d = list(data[p + 6:p + 6 + ln])
        f["blocks"].append({"a": a, "n": n, "data": d})
        p += 6 + ln
    f["rest"] = max(0, len(data) - p) if p <= len(data) else 1
    return f


def lex_uf2(data):
    f = {"blocks": [], "rest": len(data) % 512}
    for p in range(0, len(data) - 511, 512):
        w = struct.unpack("<8I", data[p:p + 32])
        f["blocks"].append({"m0": hl(w[0]), "m1": hl(w[1]), "flags": hl(w[2]), "addr": hl(w[3]), "size": hl(w[4]),
                            "no": hl(w[5]), "total": hl(w[6]), "family": hl(w[7]),
                            "data": list(data[p + 32:p + 508]), "m2": hl(struct.unpack("<I", data[p + 508:p + 512])[0])})
    return f


def lex_bin(data):
    return {"data": list(data)}


def lex_elf(data):
    """ELF32/64 header, section table, .symtab; per the ELF specification."""
    bad = {"ok": False, "entry": hl(0), "secs": [], "syms": [], "hdr": {"cls": 0, "ehsize": 0, "phoff": 0, "phentsize": 0, "phnum": 0, "shentsize": 0, "shnum": 0, "shoff": 0, "size": 0}}
    try:
        if data[:4] != b"\x7fELF":
            return bad
        cls, enc = data[4], data[5]
        e = "<" if enc == 1 else ">"
        if cls == 1:
            (etype, mach, ver, entry, phoff, shoff, flags, ehsize, phentsize, phnum, shentsize, shnum, shstrndx) = \
                struct.unpack(e + "HHIIIIIHHHHHH", data[16:52])
        elif cls == 2:
            (etype, mach, ver, entry, phoff, shoff, flags, ehsize, phentsize, phnum, shentsize, shnum, shstrndx) = \
                struct.unpack(e + "HHIQQQIHHHHHH", data[16:64])
        else:
            return bad
        secs = []
        for i in range(shnum):
            o = shoff + i * shentsize
            if cls == 1:
                name, typ, fl, addr, off, size, link, info, align, entsize = struct.unpack(e + "IIIIIIIIII", data[o:o + 40])
            else:
                name, typ, fl, addr, off, size, link, info, align, entsize = struct.unpack(e + "IIQQQQIIQQ", data[o:o + 64])
            secs.append(dict(name=name, type=typ, flags=fl, addr=addr, off=off, size=size, link=link, entsize=entsize))
        if shstrndx >= len(secs):
            return bad
        st = secs[shstrndx]
        strtab = data[st["off"]:st["off"] + st["size"]]

        def cstr(tab, o):
            z = tab.find(b"\0", o)
            return tab[o:z if z >= 0 else len(tab)].decode("latin-1")
        out_secs = []
        for s in secs:
            if s["type"] != 8 and s["off"] + s["size"] > len(data):
                return bad
            body = data[s["off"]:s["off"] + s["size"]] if (s["type"] == 1 and s["flags"] & 2) else b""
            if s["addr"] >> 32:
                return bad
            out_secs.append({"name": cstr(strtab, s["name"]), "type": s["type"] & 0xffff, "flags": s["flags"] & 0xffff,
                             "addr": hl(s["addr"]), "data": list(body)})
        syms = []
        for s in secs:
            if s["type"] != 2:
                continue
            if s["link"] >= len(secs) or s["entsize"] == 0:
                return bad
            ls = secs[s["link"]]
            tab = data[ls["off"]:ls["off"] + ls["size"]]
            for o in range(s["off"], s["off"] + s["size"], s["entsize"]):
                if cls == 1:
                    name, value, size, info, other, shndx = struct.unpack(e + "IIIBBH", data[o:o + 16])
                else:
                    name, info, other, shndx, value, size = struct.unpack(e + "IBBHQQ", data[o:o + 24])
                if value >> 32:
                    return bad
                syms.append({"name": cstr(tab, name), "value": hl(value), "shndx": shndx})
        if entry >> 32:
            return bad
        cap = lambda v: min(v, (1 << 31) - 1)
        hdr = {"cls": cls, "ehsize": ehsize, "phoff": cap(phoff), "phentsize": phentsize, "phnum": phnum, "shentsize": shentsize,
               "shnum": shnum, "shoff": cap(shoff), "size": cap(len(data))}
        return {"ok": True, "entry": hl(entry), "secs": out_secs, "syms": syms, "hdr": hdr}
    except (struct.error, IndexError):
        return bad


LEXERS = {"hex": lex_hex, "srec": lex_srec, "wdc": lex_wdc, "uf2": lex_uf2, "bin": lex_bin, "elf": lex_elf}
