#!/bin/sh
# Offline set-up: builds /repo's current working tree (release + sanitizer
# variants, with -DNAKEN_ASM_VERIF) and the conformance driver into .build/.
set -e
cd "$(dirname "$0")"
python3 - <<'PY'
import sys
sys.path.insert(0, '.')
from nv import common
print(common.ensure_build('rel'))
print(common.ensure_build('asan'))
PY
java -cp /opt/veriftools/tla/tla2tools.jar:/opt/veriftools/tla/CommunityModules-deps.jar tlc2.TLC -h >/dev/null 2>&1 || true
echo setup ok
