// mode file: assemble a source in-process (two passes, as main does), write every
// requested output type with file_write(), and load each file back with file_read()
// into a fresh UtilContext.  Emits the assembled image, the file paths and the
// loaded-back images; interpretation of the files is done elsewhere (tokenizers + TLC).

#include <stdlib.h>
#include <string.h>
#include <unistd.h>
#include <algorithm>

#include "conform.h"

#include "core/AsmContext.h"
#include "core/Memory.h"
#include "core/MemoryPage.h"
#include "core/UtilContext.h"
#include "core/tokens.h"
#include "fileio/file.h"

static int type_of(const std::string &t)
{
  if (t == "hex") return FILE_TYPE_HEX;
  if (t == "bin") return FILE_TYPE_BIN;
  if (t == "elf") return FILE_TYPE_ELF;
  if (t == "srec") return FILE_TYPE_SREC;
  if (t == "wdc") return FILE_TYPE_WDC;
  if (t == "uf2") return FILE_TYPE_UF2;
  if (t == "amiga") return FILE_TYPE_AMIGA;
  if (t == "macho") return FILE_TYPE_MACHO;
  if (t == "ti_txt") return FILE_TYPE_TI_TXT;
  return -100;
}

// all bytes with a written marker (assembler side)
static void dump_marked(Memory &memory, FILE *out, const char *key, size_t maxbytes)
{
  std::vector<MemoryPage *> pages;
  for (MemoryPage *p = memory.pages; p != NULL; p = p->next) { pages.push_back(p); }
  std::sort(pages.begin(), pages.end(),
    [](MemoryPage *a, MemoryPage *b) { return a->address < b->address; });
  size_t total = 0;
  bool first = true;
  fprintf(out, "\"%s\":[", key);
  for (MemoryPage *p : pages)
  {
    int n = 0;
    while (n < PAGE_SIZE && total < maxbytes)
    {
      if (p->debug_line[n] == DL_EMPTY) { n++; continue; }
      int s = n;
      while (n < PAGE_SIZE && p->debug_line[n] != DL_EMPTY && total + (n - s) < maxbytes) { n++; }
      fprintf(out, "%s[%u,\"%s\"]", first ? "" : ",", p->address + s, hex_bytes(p->bin + s, n - s).c_str());
      first = false;
      total += n - s;
    }
  }
  fprintf(out, "],");
}

// loader side: readers use write8 (no marker), so report every page between its
// offset_min and offset_max with zero runs longer than 32 removed
static void dump_loaded(Memory &memory, FILE *out, size_t maxbytes)
{
  std::vector<MemoryPage *> pages;
  for (MemoryPage *p = memory.pages; p != NULL; p = p->next) { pages.push_back(p); }
  std::sort(pages.begin(), pages.end(),
    [](MemoryPage *a, MemoryPage *b) { return a->address < b->address; });
  size_t total = 0;
  bool first = true;
  fprintf(out, "[");
  for (MemoryPage *p : pages)
  {
    if (p->offset_min > p->offset_max) { continue; }
    uint32_t n = p->offset_min;
    while (n <= p->offset_max && total < maxbytes)
    {
      // skip zero runs
      uint32_t z = n;
      while (z <= p->offset_max && p->bin[z] == 0) { z++; }
      if (z - n > 32 || z > p->offset_max) { n = z; if (n > p->offset_max) { break; } }
      uint32_t s = n;
      uint32_t zeros = 0;
      while (n <= p->offset_max && total + (n - s) < maxbytes)
      {
        if (p->bin[n] == 0) { zeros++; if (zeros > 32) { break; } } else { zeros = 0; }
        n++;
      }
      uint32_t e = n;
      if (zeros > 32) { e = n - zeros + 1; n = n - zeros + 1; }
      if (e > s)
      {
        fprintf(out, "%s[%u,\"%s\"]", first ? "" : ",", p->address + s, hex_bytes(p->bin + s, e - s).c_str());
        first = false;
        total += e - s;
      }
      if (e == s) { n++; }
    }
  }
  fprintf(out, "]");
}

static void file_case(const Case &c, FILE *out)
{
  std::vector<std::string> types = split(opt_get(c.opts, "types"), ',');
  std::string prefix = opt_get(c.opts, "prefix");
  std::vector<std::string> names = split(opt_get(c.opts, "syms"), ';');
  size_t imgmax = (size_t)atol(opt_get(c.opts, "imgmax", "300000").c_str());

  capture_begin();

  AsmContext *ctxp = new AsmContext();
  AsmContext &ctx = *ctxp;
  ctx.quiet_output = 1;
  ctx.tokens.filename = "case.asm";
  ctx.pass = 1;
  ctx.init();
  tokens_open_buffer(&ctx, c.body.c_str());
  tokens_reset(&ctx);
  int r1 = ctx.assemble();
  int r2 = -99;
  if (r1 == 0)
  {
    ctx.symbols.lock();
    ctx.symbols.scope_reset();
    ctx.pass = 2;
    ctx.init();
    r2 = ctx.assemble();
  }

  fprintf(out, "{\"case\":\"%s\",\"r1\":%d,\"r2\":%d,", c.id.c_str(), r1, r2);

  if (r1 == 0 && r2 == 0)
  {
    dump_marked(ctx.memory, out, "img", imgmax);
    fprintf(out, "\"low\":%u,\"high\":%u,\"entry\":%u,\"bpa\":%d,\"endian\":%d,\"sym\":{",
      ctx.memory.low_address, ctx.memory.high_address, ctx.memory.entry_point,
      ctx.bytes_per_address, ctx.memory.endian);
    bool first = true;
    for (const std::string &n : names)
    {
      uint32_t a = 0;
      if (ctx.symbols.lookup(n.c_str(), &a) == 0)
      {
        fprintf(out, "%s\"%s\":%u", first ? "" : ",", n.c_str(), a);
        first = false;
      }
    }
    fprintf(out, "},\"files\":{");
    first = true;
    for (const std::string &t : types)
    {
      std::string path = prefix + c.id + "." + t;
      int ft = type_of(t);
      int w = file_write(path.c_str(), &ctx, ft);
      fprintf(out, "%s\"%s\":{\"path\":\"%s\",\"w\":%d,", first ? "" : ",", t.c_str(), path.c_str(), w);
      first = false;

      // read it back the way naken_util does
      UtilContext *u = new UtilContext();
      int rt = ft;
      uint32_t start = (t == "bin") ? ctx.memory.low_address : 0;
      int rr = file_read(path.c_str(), u, &rt, cpu_list[ctx.cpu_list_index >= 0 ? ctx.cpu_list_index : 0].name, start);
      fprintf(out, "\"rr\":%d,\"rlow\":%u,\"rhigh\":%u,\"rentry\":%u,\"rb\":", rr,
        u->memory.low_address, u->memory.high_address, u->memory.entry_point);
      if (rr == 0) { dump_loaded(u->memory, out, imgmax); } else { fprintf(out, "[]"); }
      fprintf(out, "}");
      delete u;
    }
    fprintf(out, "},");
  }

  std::string text = capture_end(2000);
  fprintf(out, "\"out\":\"%s\"}\n", json_escape(text.substr(0, 300)).c_str());
  delete ctxp;
}

int mode_file(int argc, char **argv)
{
  if (argc < 3) { fprintf(stderr, "file <cases> <out> [timeout]\n"); return 2; }
  std::vector<Case> cases = read_cases(argv[1]);
  int to = argc > 3 ? atoi(argv[3]) : 20;
  return run_cases(cases, file_case, argv[2], to);
}
