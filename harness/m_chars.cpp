// mode chars: the character source of the tokenizer, driven operation by operation.
// The case body is "<file bytes as hex>\n" followed by one operation per line:
//   G            tokens_get_char()
//   U <code>     tokens_unget_char(code)
//   P <hex>      macros_push_define(text) followed by the mark push that tokens_get() does
//                (tokens.unget_stack[++unget_stack_ptr] = unget_ptr)
// Output: the characters the G operations delivered (-1 = EOF).

#include <stdlib.h>
#include <string.h>

#include "conform.h"

#include "core/AsmContext.h"
#include "core/Macros.h"
#include "core/tokens.h"

static void chars_case(const Case &c, FILE *out)
{
  std::vector<std::string> lines = split(c.body, '\n');
  std::vector<uint8_t> file = lines.empty() ? std::vector<uint8_t>() : unhex(lines[0]);
  std::string text((const char *)file.data(), file.size());

  AsmContext *ctx = new AsmContext();
  ctx->quiet_output = 1;
  ctx->pass = 1;
  ctx->init();
  tokens_open_buffer(ctx, text.c_str());
  tokens_reset(ctx);

  // expansion texts must stay alive while they are on the stack
  std::vector<char *> keep;

  fprintf(out, "{\"case\":\"%s\",\"got\":[", c.id.c_str());
  bool first = true;
  int failed = 0;

  for (size_t i = 1; i < lines.size(); i++)
  {
    const std::string &l = lines[i];
    if (l.empty()) { continue; }

    if (l[0] == 'G')
    {
      int ch = tokens_get_char(ctx);
      fprintf(out, "%s%d", first ? "" : ",", ch == EOF ? -1 : (ch & 0xff));
      first = false;
    }
    else if (l[0] == 'U')
    {
      tokens_unget_char(ctx, atoi(l.c_str() + 2));
    }
    else if (l[0] == 'P')
    {
      std::vector<uint8_t> t = l.size() > 2 ? unhex(l.substr(2)) : std::vector<uint8_t>();
      char *copy = (char *)malloc(t.size() + 1);
      memcpy(copy, t.data(), t.size());
      copy[t.size()] = 0;
      keep.push_back(copy);
      if (macros_push_define(&ctx->macros, copy) != 0) { failed = 1; break; }
      ctx->tokens.unget_stack[++ctx->tokens.unget_stack_ptr] = ctx->tokens.unget_ptr;
    }
  }

  fprintf(out, "],\"failed\":%d}\n", failed);

  delete ctx;
  for (char *p : keep) { free(p); }
}

int mode_chars(int argc, char **argv)
{
  if (argc < 3) { fprintf(stderr, "chars <cases> <out> [timeout]\n"); return 2; }
  std::vector<Case> cases = read_cases(argv[1]);
  int to = argc > 3 ? atoi(argv[3]) : 5;
  return run_cases(cases, chars_case, argv[2], to);
}
