// mode cpulist: dumps core/cpu_list.cpp as one JSON array.
#include <stdio.h>
#include "conform.h"
#include "core/cpu_list.h"

int mode_cpulist(int argc, char **argv)
{
  printf("[");
  for (int n = 0; cpu_list[n].name != NULL; n++)
  {
    printf("%s{\"name\":\"%s\",\"type\":%d,\"endian\":%d,\"bpa\":%d,\"align\":%d,\"dollar_hex\":%d,"
      "\"tick_end\":%d,\"p1wd\":%d,\"dots\":%d,\"slashes\":%d,\"nopostfix\":%d,\"nodots\":%d,"
      "\"srec\":%d,\"flags\":%u,\"sim\":%d,\"link\":%d}",
      n == 0 ? "" : ",", cpu_list[n].name, cpu_list[n].type, cpu_list[n].default_endian,
      cpu_list[n].bytes_per_address, cpu_list[n].alignment, cpu_list[n].is_dollar_hex,
      cpu_list[n].can_tick_end_string, cpu_list[n].pass_1_write_disable,
      cpu_list[n].strings_have_dots, cpu_list[n].strings_have_slashes,
      cpu_list[n].ignore_number_postfix, cpu_list[n].numbers_dont_have_dots,
      cpu_list[n].srec_size, cpu_list[n].flags, cpu_list[n].simulate_init != NULL ? 1 : 0,
      cpu_list[n].link_function != NULL ? 1 : 0);
  }
  printf("]\n");
  return 0;
}
