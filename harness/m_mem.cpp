// mode mem: the Memory class (core/Memory.cpp), driven operation by operation.
// The case body is one operation per line, opts has endian=little|big:
//   w8 <addr> <byte>        Memory::write8
//   w16 <addr> <value>      Memory::write16
//   w32 <addr> <b0> <b1> <b2> <b3>   Memory::write32 (value given as its four bytes, least significant first)
//   w <addr> <byte> <line>  Memory::write (data and line marker)
//   wd <addr> <line>        Memory::write_debug
//   clr                     Memory::clear
//   lo <addr> / hi <addr>   low_address / high_address assigned directly, as the file loaders do
//   r8 / r16 / r32 <addr>   reads; the value is logged as bytes, least significant first
//   rd <addr>               Memory::read_debug
//   use <addr>              Memory::in_use
//   pmin / pmax <addr>      Memory::get_page_address_min / max (only issued for pages in use)
// Output: per operation the observed value (reads) and low_address / high_address afterwards
// (0xffffffff is logged as -1).  No expected values here; verdicts come from TLC.

#include <stdlib.h>
#include <string.h>

#include "conform.h"

#include "core/Memory.h"

static long addr_out(uint32_t a) { return a == 0xffffffff ? -1 : (long)a; }

static void mem_case(const Case &c, FILE *out)
{
  std::vector<std::string> lines = split(c.body, '\n');
  Memory *m = new Memory();
  m->endian = opt_get(c.opts, "endian", "little") == "big" ? ENDIAN_BIG : ENDIAN_LITTLE;

  capture_begin();
  fprintf(out, "{\"case\":\"%s\",\"obs\":[", c.id.c_str());
  bool first = true;
  for (size_t i = 0; i < lines.size(); i++)
  {
    std::vector<std::string> f = split(lines[i], ' ');
    if (f.empty() || f[0].empty()) { continue; }
    uint32_t a = f.size() > 1 ? (uint32_t)strtoul(f[1].c_str(), NULL, 0) : 0;
    uint32_t v[4] = { 0, 0, 0, 0 };
    for (size_t k = 2; k < f.size() && k < 6; k++) { v[k - 2] = (uint32_t)strtoul(f[k].c_str(), NULL, 0); }
    long val[4] = { 0, 0, 0, 0 };
    int nval = 0;
    const std::string &op = f[0];
    if (op == "w8") { m->write8(a, v[0]); }
    else if (op == "w16") { m->write16(a, v[0]); }
    else if (op == "w32") { m->write32(a, v[0] | (v[1] << 8) | (v[2] << 16) | (v[3] << 24)); }
    else if (op == "w") { m->write(a, v[0], (int)v[1]); }
    else if (op == "wd") { m->write_debug(a, (int)v[0]); }
    else if (op == "clr") { m->clear(); }
    else if (op == "lo") { m->low_address = a; }
    else if (op == "hi") { m->high_address = a; }
    else if (op == "r8") { val[0] = m->read8(a); nval = 1; }
    else if (op == "r16") { uint16_t x = m->read16(a); val[0] = x & 0xff; val[1] = x >> 8; nval = 2; }
    else if (op == "r32")
    {
      uint32_t x = m->read32(a);
      for (int k = 0; k < 4; k++) { val[k] = (x >> (8 * k)) & 0xff; }
      nval = 4;
    }
    else if (op == "rd") { val[0] = m->read_debug(a); nval = 1; }
    else if (op == "use") { val[0] = m->in_use(a) ? 1 : 0; nval = 1; }
    else if (op == "pmin") { val[0] = addr_out(m->get_page_address_min(a)); nval = 1; }
    else if (op == "pmax") { val[0] = addr_out(m->get_page_address_max(a)); nval = 1; }
    fprintf(out, "%s{\"v\":[", first ? "" : ",");
    for (int k = 0; k < nval; k++) { fprintf(out, "%s%ld", k == 0 ? "" : ",", val[k]); }
    fprintf(out, "],\"low\":%ld,\"high\":%ld}", addr_out(m->low_address), addr_out(m->high_address));
    first = false;
  }
  capture_end(100);
  fprintf(out, "]}\n");
  delete m;
}

int mode_mem(int argc, char **argv)
{
  if (argc < 3) { fprintf(stderr, "mem <cases> <out> [timeout]\n"); return 2; }
  std::vector<Case> cases = read_cases(argv[1]);
  int to = argc > 3 ? atoi(argv[3]) : 5;
  return run_cases(cases, mem_case, argv[2], to);
}
