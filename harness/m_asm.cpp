// mode asm: two real passes over a source buffer, exactly as main/naken_asm.cpp
// drives them (init, assemble, link, lock, scope_reset, pass 2), through the
// same seam tests/symbol_address uses (tokens_open_buffer).

#include <stdlib.h>
#include <string.h>
#include <algorithm>

#include "conform.h"

#include "core/AsmContext.h"
#include "core/Memory.h"
#include "core/MemoryPage.h"
#include "core/tokens.h"

static void dump_image(AsmContext &ctx, FILE *out, size_t maxbytes)
{
  // collect pages sorted by address
  std::vector<MemoryPage *> pages;
  for (MemoryPage *p = ctx.memory.pages; p != NULL; p = p->next) { pages.push_back(p); }
  std::sort(pages.begin(), pages.end(),
    [](MemoryPage *a, MemoryPage *b) { return a->address < b->address; });

  size_t total = 0;
  bool first = true;
  bool truncated = false;
  fprintf(out, "\"img\":[");
  for (MemoryPage *p : pages)
  {
    int n = 0;
    while (n < PAGE_SIZE)
    {
      if (p->debug_line[n] == DL_EMPTY) { n++; continue; }
      int s = n;
      while (n < PAGE_SIZE && p->debug_line[n] != DL_EMPTY) { n++; }
      size_t len = n - s;
      if (total + len > maxbytes) { len = maxbytes - total; truncated = true; }
      if (len > 0)
      {
        // read the bytes the way every output writer does: ascending addresses through read8()
        std::vector<uint8_t> bytes;
        for (size_t k = 0; k < len; k++) { bytes.push_back(ctx.memory.read8(p->address + s + k)); }
        fprintf(out, "%s[%u,\"%s\"]", first ? "" : ",", p->address + s,
          hex_bytes(bytes.data(), len).c_str());
        first = false;
      }
      total += (n - s);
      if (truncated) { break; }
    }
    if (truncated) { break; }
  }
  fprintf(out, "],\"trunc\":%d,", truncated ? 1 : 0);
}

static void dump_syms(AsmContext &ctx, const std::vector<std::string> &names, FILE *out,
                      const char *key)
{
  fprintf(out, "\"%s\":{", key);
  bool first = true;
  for (const std::string &n : names)
  {
    uint32_t address = 0;
    int r = ctx.symbols.lookup(n.c_str(), &address);
    fprintf(out, "%s\"%s\":", first ? "" : ",", json_escape(n).c_str());
    if (r == 0) { fprintf(out, "%u", address); } else { fprintf(out, "null"); }
    first = false;
  }
  fprintf(out, "},");
}

static void asm_one(const Case &c, const std::string &source, FILE *out);

// body may hold several sources separated by lines "@@@NEXT@@@": they are assembled one
// after the other in this process (each with a fresh AsmContext, as assemble_code() of
// naken_util and library users do); only the last one is reported
static void asm_case(const Case &c, FILE *out)
{
  const std::string sep = "\n@@@NEXT@@@\n";
  std::string body = c.body;
  size_t p;
  while ((p = body.find(sep)) != std::string::npos)
  {
    std::string first = body.substr(0, p + 1);
    body = body.substr(p + sep.size());
    capture_begin();
    AsmContext *ctx = new AsmContext();
    ctx->quiet_output = 1;
    ctx->pass = 1;
    ctx->init();
    tokens_open_buffer(ctx, first.c_str());
    tokens_reset(ctx);
    if (ctx->assemble() == 0)
    {
      ctx->symbols.lock();
      ctx->symbols.scope_reset();
      ctx->pass = 2;
      ctx->init();
      ctx->assemble();
    }
    delete ctx;
    capture_end(10);
  }
  asm_one(c, body, out);
}

static void asm_one(const Case &c, const std::string &source, FILE *out)
{
  std::vector<std::string> names = split(opt_get(c.opts, "syms"), ';');
  size_t imgmax = (size_t)atol(opt_get(c.opts, "imgmax", "4096").c_str());
  bool optimize = opt_get(c.opts, "optimize", "0") == "1";

  capture_begin();

  AsmContext *ctxp = new AsmContext();
  AsmContext &ctx = *ctxp;
  ctx.optimize = optimize;
  ctx.quiet_output = 1;

  int r1 = 0, r2 = -99;

  ctx.pass = 1;
  ctx.init();
  tokens_open_buffer(&ctx, source.c_str());
  tokens_reset(&ctx);
  r1 = ctx.assemble();
  if (r1 == 0 && ctx.link() != 0) { r1 = -2; }

  fprintf(out, "{\"case\":\"%s\",", c.id.c_str());
  dump_syms(ctx, names, out, "sym1");
  fprintf(out, "\"end1\":%u,", ctx.address);

  const int SENTINEL = -77;
  bool leftover = opt_get(c.opts, "leftover", "0") == "1";
  if (r1 == 0)
  {
    if (leftover)
    {
      // re-mark what pass 1 wrote: a byte that still carries this mark after pass 2 is in
      // the image only because pass 1 put it there
      for (MemoryPage *p = ctx.memory.pages; p != NULL; p = p->next)
      {
        for (int n = 0; n < PAGE_SIZE; n++) { if (p->debug_line[n] != DL_EMPTY) { p->debug_line[n] = SENTINEL; } }
      }
    }
    ctx.symbols.lock();
    ctx.symbols.scope_reset();
    ctx.pass = 2;
    ctx.init();
    r2 = ctx.assemble();
    if (r2 == 0 && ctx.link() != 0) { r2 = -2; }
    dump_syms(ctx, names, out, "sym2");
    fprintf(out, "\"end2\":%u,", ctx.address);
  }

  std::string text = capture_end(3000);

  if (r1 == 0 && r2 == 0) { dump_image(ctx, out, imgmax); }
  else { fprintf(out, "\"img\":[],\"trunc\":0,"); }

  if (leftover)
  {
    fprintf(out, "\"left\":[");
    int nleft = 0;
    for (MemoryPage *p = ctx.memory.pages; p != NULL; p = p->next)
    {
      for (int n = 0; n < PAGE_SIZE; n++)
      {
        if (p->debug_line[n] == SENTINEL && nleft < 16) { fprintf(out, "%s%u", nleft ? "," : "", p->address + n); nleft++; }
      }
    }
    fprintf(out, "],");
  }

  int errs = 0;
  for (size_t p = 0; (p = text.find("rror", p)) != std::string::npos; p += 4) { errs++; }

  fprintf(out, "\"r1\":%d,\"r2\":%d,\"low\":%u,\"high\":%u,\"bpa\":%d,\"endian\":%d,\"errs\":%d,\"out\":\"%s\"}\n",
    r1, r2, ctx.memory.low_address, ctx.memory.high_address, ctx.bytes_per_address,
    ctx.memory.endian, errs, json_escape(text.substr(0, 400)).c_str());

  delete ctxp;
}

int mode_asm(int argc, char **argv)
{
  if (argc < 3) { fprintf(stderr, "asm <cases> <out> [timeout]\n"); return 2; }
  std::vector<Case> cases = read_cases(argv[1]);
  int to = argc > 3 ? atoi(argv[3]) : 5;
  return run_cases(cases, asm_case, argv[2], to);
}
