// Conformance driver for naken_asm: replays specification-generated cases into
// the real code (linked from build/naken_asm.a of /repo's current tree) and
// records observation events as ndjson.  No expected values live here: the
// verdict is computed by TLC from the recorded events.

#include <errno.h>
#include <fcntl.h>
#include <signal.h>
#include <stdlib.h>
#include <string.h>
#include <sys/stat.h>
#include <sys/types.h>
#include <sys/wait.h>
#include <unistd.h>

#include "conform.h"

std::vector<Case> read_cases(const char *path)
{
  std::vector<Case> cases;
  FILE *in = fopen(path, "rb");
  if (in == NULL) { perror(path); exit(2); }

  char line[65536];
  while (fgets(line, sizeof(line), in) != NULL)
  {
    if (strncmp(line, "@CASE ", 6) != 0) { continue; }
    Case c;
    char id[256];
    long n = 0;
    int used = 0;
    if (sscanf(line + 6, "%255s %ld%n", id, &n, &used) < 2) { continue; }
    c.id = id;
    c.opts = line + 6 + used;
    while (!c.opts.empty() && (c.opts.back() == '\n' || c.opts.back() == ' ')) { c.opts.pop_back(); }
    while (!c.opts.empty() && c.opts[0] == ' ') { c.opts.erase(0, 1); }
    c.body.resize(n);
    if (n > 0 && fread(&c.body[0], 1, n, in) != (size_t)n) { break; }
    fgetc(in);
    cases.push_back(c);
  }
  fclose(in);
  return cases;
}

std::string opt_get(const std::string &opts, const char *key, const char *dflt)
{
  std::string k = std::string(key) + "=";
  size_t p = 0;
  while (p < opts.size())
  {
    size_t e = opts.find(' ', p);
    if (e == std::string::npos) { e = opts.size(); }
    if (opts.compare(p, k.size(), k) == 0) { return opts.substr(p + k.size(), e - p - k.size()); }
    p = e + 1;
  }
  return dflt;
}

std::vector<std::string> split(const std::string &s, char sep)
{
  std::vector<std::string> out;
  if (s.empty()) { return out; }
  size_t p = 0;
  while (true)
  {
    size_t e = s.find(sep, p);
    if (e == std::string::npos) { out.push_back(s.substr(p)); break; }
    out.push_back(s.substr(p, e - p));
    p = e + 1;
  }
  return out;
}

std::string json_escape(const std::string &s)
{
  std::string o;
  char b[8];
  for (unsigned char ch : s)
  {
    switch (ch)
    {
      case '"': o += "\\\""; break;
      case '\\': o += "\\\\"; break;
      case '\n': o += "\\n"; break;
      case '\r': o += "\\r"; break;
      case '\t': o += "\\t"; break;
      default:
        if (ch < 0x20 || ch >= 0x7f) { snprintf(b, sizeof(b), "\\u%04x", ch); o += b; }
        else { o += (char)ch; }
    }
  }
  return o;
}

std::string hex_bytes(const uint8_t *p, size_t n)
{
  static const char *d = "0123456789abcdef";
  std::string o;
  o.reserve(n * 2);
  for (size_t i = 0; i < n; i++) { o += d[p[i] >> 4]; o += d[p[i] & 15]; }
  return o;
}

std::vector<uint8_t> unhex(const std::string &s)
{
  std::vector<uint8_t> o;
  auto v = [](char c) -> int {
    if (c >= '0' && c <= '9') return c - '0';
    if (c >= 'a' && c <= 'f') return c - 'a' + 10;
    if (c >= 'A' && c <= 'F') return c - 'A' + 10;
    return 0; };
  for (size_t i = 0; i + 1 < s.size(); i += 2) { o.push_back((v(s[i]) << 4) | v(s[i + 1])); }
  return o;
}

// ---- stdout capture --------------------------------------------------------

static int cap_fd = -1;

static void capture_init()
{
  char path[] = "/dev/shm/nvcapXXXXXX";
  cap_fd = mkstemp(path);
  if (cap_fd < 0)
  {
    char p2[] = "/tmp/nvcapXXXXXX";
    cap_fd = mkstemp(p2);
    if (cap_fd >= 0) { unlink(p2); }
  }
  else { unlink(path); }
  if (cap_fd < 0) { perror("mkstemp"); exit(2); }
  fflush(stdout);
  dup2(cap_fd, 1);
}

void capture_begin()
{
  fflush(stdout);
  if (ftruncate(cap_fd, 0) != 0) { }
  lseek(cap_fd, 0, SEEK_SET);
}

std::string capture_end(size_t max_bytes)
{
  fflush(stdout);
  off_t size = lseek(cap_fd, 0, SEEK_END);
  std::string s;
  if (size > 0)
  {
    size_t n = (size_t)size < max_bytes ? (size_t)size : max_bytes;
    s.resize(n);
    ssize_t r = pread(cap_fd, &s[0], n, 0);
    if (r < 0) { r = 0; }
    s.resize(r);
  }
  return s;
}

// ---- forked workers ----------------------------------------------------------

int run_cases(const std::vector<Case> &cases, CaseFn fn, const char *outpath,
              int per_case_timeout_s)
{
  FILE *out = fopen(outpath, "wb");
  if (out == NULL) { perror(outpath); return 2; }
  fclose(out);

  std::string errpath = std::string(outpath) + ".stderr";
  size_t next = 0;
  // NV_FRESH=1: every case in a process of its own (what a case leaves behind in static storage must not reach the next)
  const bool fresh = getenv("NV_FRESH") != NULL;

  while (next < cases.size())
  {
    int pfd[2];
    if (pipe(pfd) != 0) { perror("pipe"); return 2; }
    pid_t pid = fork();
    if (pid < 0) { perror("fork"); return 2; }

    if (pid == 0)
    {
      close(pfd[0]);
      int efd = open(errpath.c_str(), O_WRONLY | O_CREAT | O_TRUNC, 0644);
      if (efd >= 0) { dup2(efd, 2); }
      FILE *o = fopen(outpath, "ab");
      capture_init();
      for (size_t i = next; i < cases.size(); i++)
      {
        alarm(per_case_timeout_s);
        fn(cases[i], o);
        alarm(0);
        fflush(o);
        uint32_t done = (uint32_t)i;
        if (write(pfd[1], &done, sizeof(done)) != sizeof(done)) { _exit(3); }
        if (fresh) { break; }
      }
      fclose(o);
      _exit(0);
    }

    close(pfd[1]);
    long last = (long)next - 1;
    uint32_t done;
    while (read(pfd[0], &done, sizeof(done)) == (ssize_t)sizeof(done)) { last = done; }
    close(pfd[0]);
    int status = 0;
    waitpid(pid, &status, 0);

    if ((size_t)(last + 1) >= cases.size() && WIFEXITED(status) && WEXITSTATUS(status) == 0)
    {
      next = cases.size();
      break;
    }

    if (fresh && last >= (long)next && WIFEXITED(status) && WEXITSTATUS(status) == 0)
    {
      next = (size_t)(last + 1);
      continue;
    }

    // the worker died on case last+1
    size_t bad = (size_t)(last + 1);
    if (bad >= cases.size()) { next = cases.size(); break; }
    int sig = WIFSIGNALED(status) ? WTERMSIG(status) : 0;
    int code = WIFEXITED(status) ? WEXITSTATUS(status) : -1;
    std::string san;
    FILE *e = fopen(errpath.c_str(), "rb");
    if (e != NULL)
    {
      char buf[8192];
      size_t n = fread(buf, 1, sizeof(buf) - 1, e);
      buf[n] = 0;
      fclose(e);
      const char *p = strstr(buf, "ERROR: AddressSanitizer");
      if (p == NULL) { p = strstr(buf, "runtime error"); }
      if (p == NULL) { p = strstr(buf, "Sanitizer"); }
      if (p == NULL && n > 0) { p = buf; }
      if (p != NULL)
      {
        san.assign(p, strnlen(p, 400));
      }
    }
    out = fopen(outpath, "ab");
    // truncate a partial line the dead worker may have left
    fprintf(out, "\n{\"case\":\"%s\",\"died\":1,\"sig\":%d,\"exit\":%d,\"timeout\":%d,\"san\":\"%s\"}\n",
      cases[bad].id.c_str(), sig, code, sig == SIGALRM ? 1 : 0, json_escape(san).c_str());
    fclose(out);
    next = bad + 1;
  }

  unlink(errpath.c_str());
  return 0;
}

#define WEAK __attribute__((weak))
WEAK int mode_disasm(int, char **) { fprintf(stderr, "mode not built\n"); return 2; }
WEAK int mode_codec(int, char **) { fprintf(stderr, "mode not built\n"); return 2; }
WEAK int mode_sim(int, char **) { fprintf(stderr, "mode not built\n"); return 2; }
WEAK int mode_file(int, char **) { fprintf(stderr, "mode not built\n"); return 2; }
WEAK int mode_util(int, char **) { fprintf(stderr, "mode not built\n"); return 2; }
WEAK int mode_chars(int, char **) { fprintf(stderr, "mode not built\n"); return 2; }
WEAK int mode_mem(int, char **) { fprintf(stderr, "mode not built\n"); return 2; }

int main(int argc, char *argv[])
{
  if (argc < 2)
  {
    fprintf(stderr, "usage: conform <asm|disasm|codec|sim|file|util> <cases> <out> [options]\n");
    return 2;
  }
  signal(SIGPIPE, SIG_IGN);
  if (strcmp(argv[1], "cpulist") == 0) { return mode_cpulist(argc - 1, argv + 1); }
  if (strcmp(argv[1], "asm") == 0) { return mode_asm(argc - 1, argv + 1); }
  if (strcmp(argv[1], "disasm") == 0) { return mode_disasm(argc - 1, argv + 1); }
  if (strcmp(argv[1], "codec") == 0) { return mode_codec(argc - 1, argv + 1); }
  if (strcmp(argv[1], "sim") == 0) { return mode_sim(argc - 1, argv + 1); }
  if (strcmp(argv[1], "file") == 0) { return mode_file(argc - 1, argv + 1); }
  if (strcmp(argv[1], "util") == 0) { return mode_util(argc - 1, argv + 1); }
  if (strcmp(argv[1], "chars") == 0) { return mode_chars(argc - 1, argv + 1); }
  if (strcmp(argv[1], "mem") == 0) { return mode_mem(argc - 1, argv + 1); }
  fprintf(stderr, "unknown mode %s\n", argv[1]);
  return 2;
}
