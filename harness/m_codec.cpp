// mode codec: encode/decode round trips through the real assembler and the real
// per-CPU single-instruction decoders (the functions naken_util -disasm and the
// .lst writer call).  Two kinds of cases:
//   kind=dis  body = hex bytes            decode -> assemble the text -> decode again
//   kind=enc  body = one instruction text assemble -> walk the decoder over the bytes -> re-assemble each text
// No expected values here; verdicts come from TLC.

#include <ctype.h>
#include <stdlib.h>
#include <string.h>

#include "conform.h"
#include "disasm_table.h"

#include "core/AsmContext.h"
#include "core/Memory.h"
#include "core/cpu_list.h"
#include "core/tokens.h"

static int find_cpu(const std::string &name)
{
  for (int n = 0; cpu_list[n].name != NULL; n++)
  {
    if (name == cpu_list[n].name) { return n; }
  }
  return -1;
}

static disasm_one_t find_decoder(int cpu)
{
  for (int n = 0; nv_disasm_table[n].range != NULL; n++)
  {
    if (nv_disasm_table[n].range == cpu_list[cpu].disasm_range) { return nv_disasm_table[n].one; }
  }
  return NULL;
}

struct Decoded
{
  int len;
  int tlen;
  bool guard;
  std::string text;
};

static Decoded decode(disasm_one_t fn, int cpu, Memory *memory, uint32_t addr)
{
  // 128 bytes are what UtilContext::disasm / list_output give the decoder; a guard
  // zone behind it shows overruns even without a sanitizer
  char buf[128 + 256];
  memset(buf, 0xa5, sizeof(buf));
  int cmin = 0, cmax = 0;
  Decoded d;
  d.len = fn(memory, addr, buf, 128, cpu_list[cpu].flags, &cmin, &cmax);
  d.guard = true;
  for (int i = 128; i < 128 + 256; i++) { if ((unsigned char)buf[i] != 0xa5) { d.guard = false; } }
  size_t n = strnlen(buf, 128 + 256);
  d.tlen = (int)n;
  d.text.assign(buf, n < 200 ? n : 200);
  return d;
}

struct Assembled
{
  bool ok;
  int r1, r2;
  std::vector<uint8_t> bytes;
};

static Assembled assemble_at(int cpu, uint32_t addr, const std::string &text)
{
  Assembled a;
  a.ok = false; a.r1 = -9; a.r2 = -9;
  int bpa = cpu_list[cpu].bytes_per_address;
  char head[128];
  snprintf(head, sizeof(head), ".%s\n.org %u\n", cpu_list[cpu].name, addr / bpa);
  std::string src = std::string(head) + text + "\n";

  AsmContext *ctx = new AsmContext();
  ctx->quiet_output = 1;
  ctx->pass = 1;
  ctx->init();
  tokens_open_buffer(ctx, src.c_str());
  tokens_reset(ctx);
  a.r1 = ctx->assemble();
  if (a.r1 == 0)
  {
    ctx->symbols.lock();
    ctx->symbols.scope_reset();
    ctx->pass = 2;
    ctx->init();
    a.r2 = ctx->assemble();
    if (a.r2 == 0 && ctx->address > addr && ctx->address - addr <= 64)
    {
      bool all = true;
      for (uint32_t p = addr; p < ctx->address; p++)
      {
        if (ctx->memory.read_debug(p) == DL_EMPTY) { all = false; }
        a.bytes.push_back(ctx->memory.read8(p));
      }
      // an instruction must place its bytes at the requested address
      a.ok = all && ctx->memory.low_address == addr;
    }
  }
  delete ctx;
  return a;
}

static void put_bytes(Memory *m, uint32_t addr, const std::vector<uint8_t> &b)
{
  for (size_t i = 0; i < b.size(); i++) { m->write8(addr + i, b[i]); }
}

static void codec_case(const Case &c, FILE *out)
{
  std::string kind = opt_get(c.opts, "kind", "dis");
  int cpu = find_cpu(opt_get(c.opts, "cpu"));
  uint32_t addr = (uint32_t)strtoul(opt_get(c.opts, "addr", "0").c_str(), NULL, 0);
  disasm_one_t fn = cpu >= 0 ? find_decoder(cpu) : NULL;

  fprintf(out, "{\"case\":\"%s\",\"kind\":\"%s\",", c.id.c_str(), kind.c_str());
  if (fn == NULL)
  {
    fprintf(out, "\"nodecoder\":1}\n");
    return;
  }
  int bpa = cpu_list[cpu].bytes_per_address;

  capture_begin();

  if (kind == "dis")
  {
    std::vector<uint8_t> bytes = unhex(c.body);
    Memory *m1 = new Memory();
    m1->endian = cpu_list[cpu].default_endian;
    put_bytes(m1, addr, bytes);
    Decoded d1 = decode(fn, cpu, m1, addr);

    // locality: same bytes up to the returned length, everything after inverted
    bool loc = true;
    if (d1.len >= 1 && d1.len < (int)bytes.size())
    {
      std::vector<uint8_t> b2 = bytes;
      for (size_t i = d1.len; i < b2.size(); i++) { b2[i] ^= 0xff; }
      Memory *m2 = new Memory();
      m2->endian = cpu_list[cpu].default_endian;
      put_bytes(m2, addr, b2);
      Decoded d2 = decode(fn, cpu, m2, addr);
      loc = d2.len == d1.len && d2.text == d1.text;
      delete m2;
    }
    delete m1;

    fprintf(out, "\"len\":%d,\"tlen\":%d,\"guard\":%s,\"loc\":%s,\"text\":\"%s\",", d1.len, d1.tlen,
      d1.guard ? "true" : "false", loc ? "true" : "false", json_escape(d1.text).c_str());

    Assembled a;
    a.ok = false; a.r1 = -9; a.r2 = -9;
    if (!d1.text.empty() && d1.tlen < 128) { a = assemble_at(cpu, addr, d1.text); }
    fprintf(out, "\"acc\":%s,\"r1\":%d,\"r2\":%d,\"b2\":\"%s\",", a.ok ? "true" : "false", a.r1, a.r2,
      hex_bytes(a.bytes.data(), a.bytes.size()).c_str());
    if (a.ok)
    {
      // decode what the assembler produced, followed by the original tail
      std::vector<uint8_t> b3 = a.bytes;
      for (size_t i = b3.size(); i < bytes.size(); i++) { b3.push_back(bytes[i]); }
      Memory *m3 = new Memory();
      m3->endian = cpu_list[cpu].default_endian;
      put_bytes(m3, addr, b3);
      Decoded d3 = decode(fn, cpu, m3, addr);
      delete m3;
      fprintf(out, "\"len2\":%d,\"text2\":\"%s\",", d3.len, json_escape(d3.text).c_str());
    }
  }
  else if (kind == "dsum")
  {
    // many 32-bit words (one "hhhhllll" per line), each decoded in four byte arrangements followed by zeros, and again
    // with everything behind the returned length inverted (locality).  The observations are projected on
    // (length, text length, guard intact, local) and one record per distinct projection is written, with the
    // number of decodes it stands for and the first bytes that gave it.
    std::vector<std::string> lines = split(c.body, '\n');
    struct Cls { int len; int tlen; bool guard; bool loc; long n; std::string w; std::string text; };
    std::vector<Cls> classes;
    long total = 0;
    // expand=<len>:<tlen class>:<guard>:<loc> lists the decodes of one projection, one per distinct text with its
    // digits blanked, so that a rejected projection can be reported instruction by instruction
    std::string expand = opt_get(c.opts, "expand", "");
    int xl = 0, xt = 0, xg = 0, xo = 0;
    if (!expand.empty()) { sscanf(expand.c_str(), "%d:%d:%d:%d", &xl, &xt, &xg, &xo); }
    std::vector<std::string> seen;
    std::vector<Cls> listed;
    // tail=<byte> total=<n>: the word is followed by that byte up to n bytes (default: zeros up to 16), e.g. 60 bytes with
    // the continuation bit of a variable-length integer set
    const int tailbyte = (int)strtoul(opt_get(c.opts, "tail", "0").c_str(), NULL, 0);
    int total_len = atoi(opt_get(c.opts, "total", "16").c_str());
    if (total_len < 16) { total_len = 16; }
    if (total_len > 96) { total_len = 96; }
    Memory *m = new Memory();
    m->endian = cpu_list[cpu].default_endian;
    for (size_t i = 0; i < lines.size(); i++)
    {
      if (lines[i].size() < 8) { continue; }
      uint32_t w = (uint32_t)strtoul(lines[i].c_str(), NULL, 16);
      uint8_t b0 = w >> 24, b1 = (w >> 16) & 0xff, b2 = (w >> 8) & 0xff, b3 = w & 0xff;
      uint8_t arr[4][4] = { { b0, b1, b2, b3 }, { b3, b2, b1, b0 }, { b1, b0, b3, b2 }, { b2, b3, b0, b1 } };
      for (int a = 0; a < 4; a++)
      {
        if (a > 0 && memcmp(arr[a], arr[0], 4) == 0) { continue; }
        uint8_t bytes[96];
        memset(bytes, tailbyte, sizeof(bytes));
        memcpy(bytes, arr[a], 4);
        for (int k = 0; k < total_len; k++) { m->write8(addr + k, bytes[k]); }
        Decoded d1 = decode(fn, cpu, m, addr);
        bool loc = true;
        if (d1.len >= 1 && d1.len < total_len)
        {
          for (int k = d1.len; k < total_len; k++) { m->write8(addr + k, bytes[k] ^ 0xff); }
          Decoded d2 = decode(fn, cpu, m, addr);
          loc = d2.len == d1.len && d2.text == d1.text;
        }
        total++;
        int tl = d1.tlen >= 128 ? 128 : (d1.tlen == 0 ? 0 : 1);
        size_t q;
        for (q = 0; q < classes.size(); q++)
        {
          if (classes[q].len == d1.len && classes[q].tlen == tl && classes[q].guard == d1.guard && classes[q].loc == loc) { break; }
        }
        if (!expand.empty() && d1.len == xl && tl == xt && (int)d1.guard == xg && (int)loc == xo && listed.size() < 4000)
        {
          std::string blank = d1.text;
          for (size_t z = 0; z < blank.size(); z++) { if (isxdigit((unsigned char)blank[z])) { blank[z] = '#'; } }
          bool dup = false;
          for (size_t z = 0; z < seen.size(); z++) { if (seen[z] == blank) { dup = true; break; } }
          if (!dup)
          {
            seen.push_back(blank);
            Cls n; n.len = d1.len; n.tlen = d1.tlen; n.guard = d1.guard; n.loc = loc; n.n = 1;
            n.w = hex_bytes(bytes, total_len); n.text = d1.text;
            listed.push_back(n);
          }
        }
        if (q == classes.size())
        {
          Cls n; n.len = d1.len; n.tlen = tl; n.guard = d1.guard; n.loc = loc; n.n = 0;
          n.w = hex_bytes(bytes, total_len); n.text = d1.text;
          classes.push_back(n);
        }
        classes[q].n++;
      }
    }
    delete m;
    if (!expand.empty()) { classes = listed; }
    fprintf(out, "\"total\":%ld,\"classes\":[", total);
    for (size_t q = 0; q < classes.size(); q++)
    {
      fprintf(out, "%s{\"len\":%d,\"tlen\":%d,\"guard\":%s,\"loc\":%s,\"n\":%ld,\"w\":\"%s\",\"text\":\"%s\"}", q == 0 ? "" : ",",
        classes[q].len, classes[q].tlen, classes[q].guard ? "true" : "false", classes[q].loc ? "true" : "false",
        classes[q].n, classes[q].w.c_str(), json_escape(classes[q].text).c_str());
    }
    fprintf(out, "],");
  }
  else if (kind == "dec")
  {
    // several "<address> <hex bytes>" lines: the bytes are placed at the address and one instruction is decoded there
    std::vector<std::string> lines = split(c.body, '\n');
    fprintf(out, "\"res\":[");
    for (size_t i = 0; i < lines.size(); i++)
    {
      std::vector<std::string> f = split(lines[i], ' ');
      if (f.size() < 2) { fprintf(out, "%s[-99,\"\"]", i == 0 ? "" : ","); continue; }
      uint32_t a = (uint32_t)strtoul(f[0].c_str(), NULL, 0);
      Memory *m = new Memory();
      m->endian = cpu_list[cpu].default_endian;
      put_bytes(m, a, unhex(f[1]));
      Decoded d = decode(fn, cpu, m, a);
      delete m;
      fprintf(out, "%s[%d,\"%s\"]", i == 0 ? "" : ",", d.len, json_escape(d.text).c_str());
    }
    fprintf(out, "],");
  }
  else if (kind == "asm")
  {
    // several texts (one per line), each assembled alone at the same address
    std::vector<std::string> lines = split(c.body, '\n');
    fprintf(out, "\"res\":[");
    for (size_t i = 0; i < lines.size(); i++)
    {
      Assembled a = assemble_at(cpu, addr, lines[i]);
      fprintf(out, "%s[%s,\"%s\"]", i == 0 ? "" : ",", a.ok ? "true" : "false",
        hex_bytes(a.bytes.data(), a.bytes.size()).c_str());
    }
    fprintf(out, "],");
  }
  else
  {
    Assembled a = assemble_at(cpu, addr, c.body);
    fprintf(out, "\"acc\":%s,\"r1\":%d,\"r2\":%d,\"b\":\"%s\",\"walk\":[", a.ok ? "true" : "false", a.r1, a.r2,
      hex_bytes(a.bytes.data(), a.bytes.size()).c_str());
    if (a.ok)
    {
      Memory *m = new Memory();
      m->endian = cpu_list[cpu].default_endian;
      put_bytes(m, addr, a.bytes);
      uint32_t cur = addr;
      uint32_t end = addr + a.bytes.size();
      int steps = 0;
      while (cur < end && steps < 40)
      {
        Decoded d = decode(fn, cpu, m, cur);
        Assembled r;
        r.ok = false; r.r1 = -9; r.r2 = -9;
        if (!d.text.empty() && d.tlen < 128) { r = assemble_at(cpu, cur, d.text); }
        fprintf(out, "%s{\"a\":%u,\"len\":%d,\"text\":\"%s\",\"racc\":%s,\"rb\":\"%s\"}", steps == 0 ? "" : ",",
          cur, d.len, json_escape(d.text).c_str(), r.ok ? "true" : "false",
          hex_bytes(r.bytes.data(), r.bytes.size()).c_str());
        steps++;
        if (d.len < 1) { break; }
        cur += d.len;
      }
      delete m;
    }
    fprintf(out, "],");
  }

  std::string text = capture_end(600);
  fprintf(out, "\"bpa\":%d,\"cpu\":\"%s\"}\n", bpa, cpu_list[cpu].name);
}

int mode_codec(int argc, char **argv)
{
  if (argc < 3) { fprintf(stderr, "codec <cases> <out> [timeout]\n"); return 2; }
  std::vector<Case> cases = read_cases(argv[1]);
  int to = argc > 3 ? atoi(argv[3]) : 5;
  return run_cases(cases, codec_case, argv[2], to);
}
