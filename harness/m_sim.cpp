// mode sim: one simulator step from a prepared state.
//   opts: cpu=<name> pc=<n> regs=<name>:<value>;...  bg=1 (fill 64 KiB with (a*7+3)%256)  rep=<n>
//   body: "<addr>:<hexbytes>,<addr>:<hexbytes>"  (explicit memory cells)
// Output: result of run(-1, 1), register dump text, named registers, bytes that differ
// from the prepared memory, and the same again for a second run from the same state.

#include <stdlib.h>
#include <string.h>
#include <string>

#include "conform.h"

#include "core/Memory.h"
#include "core/MemoryPage.h"
#include "core/cpu_list.h"
#include "simulate/Simulate.h"

static uint8_t bg(uint32_t a) { return (uint8_t)((a * 7 + 3) & 0xff); }

struct SimRun
{
  int ret;
  uint32_t top;   // highest page address the simulator allocated
  std::string dump;
  std::string pre;
  std::vector<std::pair<std::string, uint32_t> > regs;
  std::vector<std::pair<uint32_t, uint8_t> > diff;
};

static void prepare(Memory *m, const Case &c, bool fill, uint32_t span)
{
  if (fill) { for (uint32_t a = 0; a < span; a++) { m->write8(a, bg(a)); } }
  for (const std::string &part : split(c.body, ','))
  {
    size_t p = part.find(':');
    if (p == std::string::npos) { continue; }
    uint32_t a = (uint32_t)strtoul(part.substr(0, p).c_str(), NULL, 0);
    std::vector<uint8_t> b = unhex(part.substr(p + 1));
    for (size_t i = 0; i < b.size(); i++) { m->write8(a + i, b[i]); }
  }
}

static void set_state(Simulate *sim, const Case &c)
{
  for (const std::string &kv : split(opt_get(c.opts, "regs"), ';'))
  {
    size_t p = kv.find(':');
    if (p == std::string::npos) { continue; }
    std::string n = kv.substr(0, p);
    sim->set_reg(n.c_str(), (uint32_t)strtoul(kv.substr(p + 1).c_str(), NULL, 0));
  }
  std::string pc = opt_get(c.opts, "pc");
  if (!pc.empty()) { sim->set_pc((uint32_t)strtoul(pc.c_str(), NULL, 0)); }
}

// with_hist: another instruction (opts hist=<hex bytes>, placed at the same pc) is executed first in the same simulator
// object; then memory is put back, the simulator is reset and the registers are set again, so the step that is
// observed starts from the same prepared state as a fresh object's.  r.pre is the register dump before that step.
static SimRun one_run(int cpu, const Case &c, bool with_hist = false)
{
  SimRun r;
  bool fill = opt_get(c.opts, "bg", "1") == "1";
  uint32_t span = (uint32_t)strtoul(opt_get(c.opts, "span", "65536").c_str(), NULL, 0);
  Memory *m = new Memory();
  m->endian = cpu_list[cpu].default_endian;
  prepare(m, c, fill, span);
  Memory *ref = new Memory();
  prepare(ref, c, fill, span);

  Simulate *sim = cpu_list[cpu].simulate_init(m);
  sim->reset();
  sim->enable_step_mode();
  sim->set_delay(0);
  sim->set_show(false);
  std::string hist = opt_get(c.opts, "hist");
  if (with_hist && !hist.empty())
  {
    set_state(sim, c);
    std::vector<uint8_t> hb = unhex(hist);
    uint32_t at = (uint32_t)strtoul(opt_get(c.opts, "pc", "0").c_str(), NULL, 0);
    for (size_t i = 0; i < hb.size(); i++) { m->write8(at + i, hb[i]); }
    capture_begin();
    sim->run(-1, 1);
    capture_end(100);
    // back to the prepared state
    prepare(m, c, fill, span);
    // ... everywhere: the earlier instruction may have stored far outside the prepared span (stm8: SP + offset above 64 KiB)
    for (MemoryPage *p = m->pages; p != NULL; p = p->next)
    {
      if (p->address + PAGE_SIZE <= span) { continue; }
      for (uint32_t n = 0; n < PAGE_SIZE; n++)
      {
        uint32_t a = p->address + n;
        if (a >= span && m->read8(a) != ref->read8(a)) { m->write8(a, ref->read8(a)); }
      }
    }
    sim->reset();
    sim->enable_step_mode();
    sim->set_delay(0);
    sim->set_show(false);
  }
  set_state(sim, c);
  capture_begin();
  sim->dump_registers();
  r.pre = capture_end(3000);

  capture_begin();
  r.ret = sim->run(-1, 1);
  capture_end(100);
  capture_begin();
  sim->dump_registers();
  r.dump = capture_end(3000);
  for (const std::string &n : split(opt_get(c.opts, "show"), ';'))
  {
    r.regs.push_back(std::make_pair(n, sim->get_reg(n.c_str())));
  }
  for (uint32_t a = 0; a < span + 16; a++)
  {
    uint8_t v = m->read8(a);
    if (v != ref->read8(a)) { r.diff.push_back(std::make_pair(a, v)); if (r.diff.size() > 64) { break; } }
  }
  r.top = 0;
  // pages the simulator allocated itself (the prepared state already owns the pages of `ref`)
  for (MemoryPage *p = m->pages; p != NULL; p = p->next)
  {
    if (!ref->in_use(p->address) && p->address > r.top) { r.top = p->address; }
  }
  delete sim;
  delete m;
  delete ref;
  return r;
}

static void print_run(FILE *out, const char *key, const SimRun &r)
{
  fprintf(out, "\"%s\":{\"ret\":%d,\"top\":%u,\"regs\":{", key, r.ret, r.top);
  for (size_t i = 0; i < r.regs.size(); i++)
  {
    fprintf(out, "%s\"%s\":%u", i ? "," : "", r.regs[i].first.c_str(), r.regs[i].second);
  }
  fprintf(out, "},\"diff\":[");
  for (size_t i = 0; i < r.diff.size(); i++) { fprintf(out, "%s[%u,%u]", i ? "," : "", r.diff[i].first, r.diff[i].second); }
  fprintf(out, "],\"dump\":\"%s\",\"pre\":\"%s\"}", json_escape(r.dump).c_str(), json_escape(r.pre).c_str());
}

static void sim_case(const Case &c, FILE *out)
{
  std::string name = opt_get(c.opts, "cpu");
  int cpu = -1;
  for (int n = 0; cpu_list[n].name != NULL; n++) { if (name == cpu_list[n].name) { cpu = n; } }
  fprintf(out, "{\"case\":\"%s\",", c.id.c_str());
  if (cpu < 0 || cpu_list[cpu].simulate_init == NULL) { fprintf(out, "\"nosim\":1}\n"); return; }
  SimRun a = one_run(cpu, c, true);
  print_run(out, "a", a);
  if (opt_get(c.opts, "rep", "1") == "1")
  {
    SimRun b = one_run(cpu, c);
    fprintf(out, ",");
    print_run(out, "b", b);
  }
  fprintf(out, ",\"cpu\":\"%s\"}\n", name.c_str());
}

int mode_sim(int argc, char **argv)
{
  if (argc < 3) { fprintf(stderr, "sim <cases> <out> [timeout]\n"); return 2; }
  std::vector<Case> cases = read_cases(argv[1]);
  int to = argc > 3 ? atoi(argv[3]) : 5;
  return run_cases(cases, sim_case, argv[2], to);
}
