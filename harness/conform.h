// Conformance driver: shared declarations.
#ifndef NV_CONFORM_H
#define NV_CONFORM_H

#include <stdint.h>
#include <stdio.h>
#include <string>
#include <vector>
#include <map>

struct Case
{
  std::string id;
  std::string opts;   // free-form, mode specific ("k=v k=v")
  std::string body;   // bytes (source text, command script, raw bytes)
};

typedef void (*CaseFn)(const Case &c, FILE *out);

// Reads "@CASE <id> <nbytes> <opts...>\n<body>\n" records.
std::vector<Case> read_cases(const char *path);

// Runs fn over all cases inside forked workers.  A worker that dies or times
// out is recorded for the case it was working on ({"case":id,"sig":N} or
// {"case":id,"timeout":1}) and a fresh worker continues with the next case.
int run_cases(const std::vector<Case> &cases, CaseFn fn, const char *outpath,
              int per_case_timeout_s);

std::string opt_get(const std::string &opts, const char *key, const char *dflt = "");
std::vector<std::string> split(const std::string &s, char sep);
std::string json_escape(const std::string &s);
std::string hex_bytes(const uint8_t *p, size_t n);
std::vector<uint8_t> unhex(const std::string &s);

// stdout capture around calls into naken_asm (which printf()s diagnostics)
void capture_begin();
std::string capture_end(size_t max_bytes);

int mode_cpulist(int argc, char **argv);
int mode_asm(int argc, char **argv);
int mode_disasm(int argc, char **argv);
int mode_codec(int argc, char **argv);
int mode_sim(int argc, char **argv);
int mode_file(int argc, char **argv);
int mode_util(int argc, char **argv);
int mode_chars(int argc, char **argv);
int mode_mem(int argc, char **argv);

#endif
