---------------------------- MODULE TraceListing ----------------------------
(* Acceptor for C18.  One line per run of the real naken_asm -l -type hex:   *)
(*  {"id","bpa","stmts" (the program, with sizes, as Listing.tla reads it),  *)
(*   "file" (records of the .hex output, nv/tokenize.py), "claims" (one per   *)
(*   printed line: address and the bytes of its opcode column), "entries"    *)
(*   (one per instruction: the lines that belong together), "rows",          *)
(*   "syms","low","high" (fields of the .lst file, nv/lst.py), and for each  *)
(*   entry "dt"/"dl": text and length the real decoder gives for the bytes   *)
(*   at that address}                                                        *)
EXTENDS Listing, ObjFormats, Json, IOUtils
Tr == ndJsonDeserialize(IOEnv.TRACE)
VARIABLE l
TInit == l = 1
TNext == l <= Len(Tr) /\ l' = l + 1

ImgOf(e) == {<<c.h * 65536 + c.l, c.b>> : c \in HexDecode(e.file)}

\* addresses of the entries whose text or length is not what the decoder says about the bytes there
Mistext(e) == UNION {Span(e.entries[i].a * e.bpa, Len(e.entries[i].b)) :
                       i \in {j \in 1..Len(e.entries) : \/ e.entries[j].t # e.entries[j].dt
                                                        \/ e.entries[j].dl # Len(e.entries[j].b)}}

\* a failing clause is named together with the kind of statement all its failing addresses belong to
Clause(name, off, lay) ==
  IF off = {} THEN <<>>
  ELSE IF off \subseteq Addrs(lay.hidden) THEN <<name \o ":code of an include file without .list">>
  ELSE IF off \subseteq Addrs(lay.copies) THEN <<name \o ":copies of instructions made by .repeat">>
  ELSE <<name>>

Why(e) ==
  LET img == ImgOf(e)
      lay == Layout(e.stmts, e.bpa) IN
  IF ~HexValid(e.file) \/ img = {} THEN <<"skip:output file unreadable">>
  ELSE IF ~Disjoint(lay) THEN <<"skip:program overwrites itself">>
  ELSE IF ImgAddrs(img) # Written(lay) THEN
    \* the output file is not what the model of the statements places (that is C05's and C03's subject); the listing is
    \* still held against the file it was written with: these two clauses need no layout
    LET c == Clause("ListedBytesTrue", FalseClaims(img, e.claims, e.rows, e.bpa), lay)
             \o Clause("EveryByteListed", Unlisted(img, e.claims, e.rows, e.bpa), lay)
    IN IF c = <<>> THEN <<"skip:layout differs from the model">> ELSE c
  ELSE
    Clause("ListedBytesTrue", FalseClaims(img, e.claims, e.rows, e.bpa), lay)
    \o Clause("EveryByteListed", Unlisted(img, e.claims, e.rows, e.bpa), lay)
    \o Clause("EntriesTileCode", Untiled(lay, e.entries, e.bpa), lay)
    \o Clause("RowsAreData", Misfiled(lay, e.rows, e.bpa), lay)
    \o Clause("TextIsDisasm", Mistext(e), lay)
    \o (IF SymbolsTrue(lay, e.syms) THEN <<>> ELSE <<"SymbolsTrue">>)
    \o (IF LowHighTrue(img, e.low, e.high, e.bpa) THEN <<>> ELSE <<"LowHighTrue">>)

Report ==
  IF l > Len(Tr) THEN PrintT("VERDICT " \o ToJson([done |-> Len(Tr)]))
  ELSE LET e == Tr[l] w == Why(e) IN
       w = <<>> \/ PrintT("VERDICT " \o ToJson([id |-> e.id, why |-> w]))
=============================================================================
