INIT Init
NEXT Next
INVARIANT Emit
