----------------------------- MODULE ObjFormats -----------------------------
(***************************************************************************)
(* Object file formats written and read by naken_asm (fileio), decoded     *)
(* according to their published specifications:                            *)
(*   Intel HEX (record types 00 01 04, two's complement checksum),         *)
(*   Motorola S-record (S0 S1 S2 S3 S7 S8 S9, one's complement checksum),  *)
(*   WDC binary ('Z', 24-bit address, 24-bit length, data),                *)
(*   UF2 (512-byte blocks, three magic words, payload <= 476),             *)
(*   raw binary, ELF32/ELF64 (PROGBITS sections with SHF_ALLOC, .symtab).  *)
(*                                                                         *)
(* A file arrives as records split into fields by a lexer that does not    *)
(* interpret them.  32-bit quantities are pairs [h, l] of 16-bit halves    *)
(* (TLC integers are 32 bit).  An image is a set of cells [h, l, b].       *)
(***************************************************************************)
EXTENDS Integers, Sequences, FiniteSets, TLC

A(h, l) == [h |-> h, l |-> l]
AddrAdd(a, k) == LET s == a.l + k IN [h |-> (a.h + s \div 65536) % 65536, l |-> s % 65536]
Cell(a, b) == [h |-> a.h, l |-> a.l, b |-> b]
Cells(a, d) == {Cell(AddrAdd(a, i - 1), d[i]) : i \in 1..Len(d)}
\* TLC's UNION is quadratic in the size of the result (65 KiB runs take minutes): sets of cells are
\* built as one image over (index of the piece) \X (offset in the piece) instead
IMax(a, b) == IF a > b THEN a ELSE b
IMin(a, b) == IF a < b THEN a ELSE b
RECURSIVE MaxLenFrom(_, _, _)
MaxLenFrom(ds, i, m) == IF i > Len(ds) THEN m ELSE MaxLenFrom(ds, i + 1, IMax(m, Len(ds[i])))
\* ds = sequence of byte sequences: all <<piece, offset>> pairs
Pairs(ds) == {p \in (1..Len(ds)) \X (1..MaxLenFrom(ds, 1, 0)) : p[2] <= Len(ds[p[1]])}
AddrLe(x, y) == x.h < y.h \/ (x.h = y.h /\ x.l <= y.l)

RECURSIVE SumSeq(_, _)
SumSeq(s, i) == IF i > Len(s) THEN 0 ELSE s[i] + SumSeq(s, i + 1)
Sum(s) == SumSeq(s, 1)

\* image recorded from the assembler: sequence of runs [a |-> [h, l], d |-> bytes]
RunData(runs) == [j \in 1..Len(runs) |-> runs[j].d]
RunIdx(runs) == Pairs(RunData(runs))
RunsImage(runs) == {Cell(AddrAdd(runs[p[1]].a, p[2] - 1), runs[p[1]].d[p[2]]) : p \in RunIdx(runs)}
AddrSet(img) == {A(c.h, c.l) : c \in img}

-----------------------------------------------------------------------------
(* Intel HEX.  rec = [len, ah, al, typ, data, cks] or [bad |-> TRUE]       *)
HexWellFormed(r) == /\ "bad" \notin DOMAIN r
                    /\ r.len = Len(r.data)
                    /\ (r.len + r.ah + r.al + r.typ + Sum(r.data) + r.cks) % 256 = 0
                    /\ r.typ \in {0, 1, 4}
                    /\ (r.typ = 4 => r.len = 2 /\ r.ah = 0 /\ r.al = 0)
                    /\ (r.typ = 1 => r.len = 0)

\* up[i] = the upper 16 address bits in force at record i (set by the type 4 records before it)
RECURSIVE HexUppers(_, _, _)
HexUppers(rs, i, upper) ==
  IF i > Len(rs) THEN <<>>
  ELSE LET u == IF rs[i].typ = 4 THEN rs[i].data[1] * 256 + rs[i].data[2] ELSE upper
       IN IF u = u THEN <<u>> \o HexUppers(rs, i + 1, u) ELSE <<>>

HexValid(rs) == /\ Len(rs) >= 1
                /\ \A i \in 1..Len(rs) : HexWellFormed(rs[i])
                /\ rs[Len(rs)].typ = 1
                /\ \A i \in 1..(Len(rs) - 1) : rs[i].typ # 1
HexDecode(rs) == LET up == HexUppers(rs, 1, 0) IN
                 {Cell(AddrAdd(A(up[p[1]], rs[p[1]].ah * 256 + rs[p[1]].al), p[2] - 1), rs[p[1]].data[p[2]])
                    : p \in {q \in Pairs([j \in 1..Len(rs) |-> rs[j].data]) : rs[q[1]].typ = 0}}

-----------------------------------------------------------------------------
(* Motorola S-record.  rec = [t, count, addr (bytes, big endian), data, cks] *)
SrecAddrLen(t) == CASE t \in {0, 1, 9, 5} -> 2 [] t \in {2, 8, 6} -> 3 [] t \in {3, 7} -> 4 [] OTHER -> 0
SrecWellFormed(r) == /\ "bad" \notin DOMAIN r
                     /\ r.t \in {0, 1, 2, 3, 5, 6, 7, 8, 9}
                     /\ Len(r.addr) = SrecAddrLen(r.t)
                     /\ r.count = Len(r.addr) + Len(r.data) + 1
                     /\ (r.count + Sum(r.addr) + Sum(r.data) + r.cks) % 256 = 255
SrecAddr(r) == IF Len(r.addr) = 2 THEN A(0, r.addr[1] * 256 + r.addr[2])
               ELSE IF Len(r.addr) = 3 THEN A(r.addr[1], r.addr[2] * 256 + r.addr[3])
               ELSE A(r.addr[1] * 256 + r.addr[2], r.addr[3] * 256 + r.addr[4])
SrecValid(rs) == \A i \in 1..Len(rs) : SrecWellFormed(rs[i])
SrecDecode(rs) == {Cell(AddrAdd(SrecAddr(rs[p[1]]), p[2] - 1), rs[p[1]].data[p[2]])
                     : p \in {q \in Pairs([j \in 1..Len(rs) |-> rs[j].data]) : rs[q[1]].t \in {1, 2, 3}}}
SrecEntries(rs) == {SrecAddr(rs[i]) : i \in {j \in 1..Len(rs) : rs[j].t \in {7, 8, 9}}}

-----------------------------------------------------------------------------
(* WDC.  f = [magic, blocks (seq of [a (3 bytes LE), n (3 bytes LE), data]), rest] *)
Le24(b) == b[1] + 256 * b[2] + 65536 * b[3]
WdcValid(f) == /\ f.magic = 90        \* 'Z'
               /\ f.rest = 0
               /\ \A i \in 1..Len(f.blocks) : Le24(f.blocks[i].n) = Len(f.blocks[i].data)
WdcAddr(b) == A(b.a[3], b.a[1] + 256 * b.a[2])
WdcDecode(f) == {Cell(AddrAdd(WdcAddr(f.blocks[p[1]]), p[2] - 1), f.blocks[p[1]].data[p[2]])
                   : p \in Pairs([j \in 1..Len(f.blocks) |-> f.blocks[j].data])}

-----------------------------------------------------------------------------
(* UF2.  blk = [m0, m1, flags, addr, size, no, total, family (all [h,l]), data (476 bytes), m2] *)
Uf2BlockOk(b) == /\ b.m0 = A(2610, 18005)      \* 0x0A324655
                 /\ b.m1 = A(40541, 20823)     \* 0x9E5D5157
                 /\ b.m2 = A(2737, 28464)      \* 0x0AB16F30
                 /\ b.size.h = 0 /\ b.size.l <= 476
                 /\ Len(b.data) = 476
PicoAbsolute(b) == b.family = A(58507, 65367)  \* 0xe48bff57: the fixed block the writer prepends
NotPicoBlock(b) == ~PicoAbsolute(b)
Uf2Valid(f) == /\ f.rest = 0
               /\ \A i \in 1..Len(f.blocks) : Uf2BlockOk(f.blocks[i])
               \* the program blocks (everything but the fixed block) are one family, numbered
               \* 0 .. total-1 in file order
               /\ LET sub == SelectSeq(f.blocks, NotPicoBlock) IN
                  \A c \in 1..Len(sub) :
                     /\ sub[c].family = sub[1].family
                     /\ sub[c].total.h = 0 /\ sub[c].total.l = Len(sub)
                     /\ sub[c].no.h = 0 /\ sub[c].no.l = c - 1

-----------------------------------------------------------------------------
(* raw binary: the bytes from the lowest address on (see BinChunks) *)

-----------------------------------------------------------------------------
(* ELF.  f = [ok, entry, secs (seq of [name, type, flags, addr, data]), syms (seq of [name, value, shndx])] *)
\* header sizes of the ELF specification: 52-byte header, 32-byte program headers and 40-byte section headers in the
\* 32-bit class, 64 / 56 / 64 in the 64-bit class; the tables lie behind the header and inside the file
ElfHeaderOk(h) == /\ h.cls \in {1, 2}
                  /\ h.ehsize = (IF h.cls = 1 THEN 52 ELSE 64)
                  /\ (h.shnum > 0 => h.shentsize = (IF h.cls = 1 THEN 40 ELSE 64) /\ h.shoff >= h.ehsize /\ h.shoff + h.shnum * h.shentsize <= h.size)
                  /\ (h.phnum > 0 => h.phentsize = (IF h.cls = 1 THEN 32 ELSE 56) /\ h.phoff >= h.ehsize /\ h.phoff + h.phnum * h.phentsize <= h.size)
ElfValid(f) == f.ok /\ ElfHeaderOk(f.hdr)
ElfSym(f, n) == {f.syms[i].value : i \in {j \in 1..Len(f.syms) : f.syms[j].name = n}}

-----------------------------------------------------------------------------
(* Conformance of one written file with the assembled image.               *)
(* ev = [type, img (runs), low, high ([h,l]), gran, file, syms (seq of [n, v]), entry ([h,l] or absent)] *)

Exact(dec, img) == dec = img

\* Contiguous containers (bin, ELF sections, UF2 blocks, loader memory) are checked
\* chunk by chunk without materialising 64 KiB cell sets: a chunk is [base, D].
\* Every written byte that falls into the chunk must be there, every other byte of
\* the chunk must be zero, and all written bytes must be covered by the chunks.
Far == 100000000
Diff(a, base) == LET dh == a.h - base.h IN
                 IF dh > 16000 \/ dh < -16000 THEN Far ELSE dh * 65536 + (a.l - base.l)
\* the bytes <<run, offset>> of the runs that fall into the chunk [base + 1, base + n]
Hits(runs, base, n) ==
  {<<q[1], q[2] - Diff(runs[q[1]].a, base)>> :
     q \in {r \in (1..Len(runs)) \X (1..n) : LET i == r[2] - Diff(runs[r[1]].a, base) IN i >= 1 /\ i <= Len(runs[r[1]].d)}}
InChunk(runs, p, base, n) == LET k == Diff(runs[p[1]].a, base) + p[2] IN k >= 1 /\ k <= n
Covered(runs, p, chunks) == \E c \in 1..Len(chunks) : InChunk(runs, p, chunks[c].base, Len(chunks[c].D))
ChunkOk(runs, base, D) ==
  LET hs == Hits(runs, base, Len(D))
      K  == {Diff(runs[p[1]].a, base) + p[2] : p \in hs}
  IN /\ \A p \in hs : D[Diff(runs[p[1]].a, base) + p[2]] = runs[p[1]].d[p[2]]
     /\ {k \in 1..Len(D) : D[k] # 0} \subseteq K        \* one pass; K is small
TotalBytes(runs) == Cardinality(RunIdx(runs))
\* chunks: sequence of [base, D]
ChunksOk(runs, chunks) ==
  /\ \A c \in 1..Len(chunks) : ChunkOk(runs, chunks[c].base, chunks[c].D)
  /\ \A p \in RunIdx(runs) : Covered(runs, p, chunks)
\* nothing beyond [low, high rounded up to the granule]
SpanLen(low, high, g) == LET n == Diff(high, low) + 1 IN ((n + g - 1) \div g) * g
WithinSpan(chunks, low, high, g) ==
  \A c \in 1..Len(chunks) : LET o == Diff(chunks[c].base, low) IN
       o >= 0 /\ o + Len(chunks[c].D) <= SpanLen(low, high, g)

BinChunks(f, low) == <<[base |-> low, D |-> f.data]>>
ElfLoadable(s) == s.type = 1 /\ (s.flags % 4) \div 2 = 1      \* SHT_PROGBITS with SHF_ALLOC
ElfChunks(f) == LET ix == {j \in 1..Len(f.secs) : ElfLoadable(f.secs[j])} IN
                [c \in 1..Cardinality(ix) |->
                   LET j == CHOOSE j \in ix : Cardinality({m \in ix : m < j}) = c - 1
                   IN [base |-> f.secs[j].addr, D |-> f.secs[j].data]]
Uf2Chunks(f) == LET sub == SelectSeq(f.blocks, NotPicoBlock) IN
                [c \in 1..Len(sub) |-> [base |-> sub[c].addr, D |-> SubSeq(sub[c].data, 1, sub[c].size.l)]]
RbChunks(rb) == [c \in 1..Len(rb) |-> [base |-> rb[c].a, D |-> rb[c].d]]

FileOk(ev) ==
  CASE ev.type = "hex"  -> HexValid(ev.file) /\ Exact(HexDecode(ev.file), RunsImage(ev.img))
    [] ev.type = "srec" -> SrecValid(ev.file) /\ Exact(SrecDecode(ev.file), RunsImage(ev.img))
                           /\ ("entry" \in DOMAIN ev => SrecEntries(ev.file) = {ev.entry})
    [] ev.type = "wdc"  -> WdcValid(ev.file) /\ Exact(WdcDecode(ev.file), RunsImage(ev.img))
    [] ev.type = "uf2"  -> /\ Uf2Valid(ev.file)
                           /\ ChunksOk(ev.img, Uf2Chunks(ev.file))
                           /\ WithinSpan(Uf2Chunks(ev.file), ev.low, ev.high, 256)
    [] ev.type = "bin"  -> /\ ChunksOk(ev.img, BinChunks(ev.file, ev.low))
                           /\ WithinSpan(BinChunks(ev.file, ev.low), ev.low, ev.high, 1)
    [] ev.type = "elf"  -> /\ ElfValid(ev.file)
                           /\ ChunksOk(ev.img, ElfChunks(ev.file))
                           /\ WithinSpan(ElfChunks(ev.file), ev.low, ev.high, ev.gran)
                           /\ \A i \in 1..Len(ev.syms) : ElfSym(ev.file, ev.syms[i].n) = {ev.syms[i].v}
                           /\ ("entry" \in DOMAIN ev => ev.file.entry = ev.entry)

FileWhy(ev) ==
  CASE ev.type = "hex"  -> IF ~HexValid(ev.file) THEN "invalid record (length/checksum/type/terminator)"
                           ELSE "decoded bytes differ from the image"
    [] ev.type = "srec" -> IF ~SrecValid(ev.file) THEN "invalid record (count/checksum/type)"
                           ELSE IF ~Exact(SrecDecode(ev.file), RunsImage(ev.img)) THEN "decoded bytes differ from the image"
                           ELSE "entry point record differs"
    [] ev.type = "wdc"  -> IF ~WdcValid(ev.file) THEN "invalid container" ELSE "decoded bytes differ from the image"
    [] ev.type = "uf2"  -> IF ~Uf2Valid(ev.file) THEN "invalid block (magic/size/numbering)"
                           ELSE "decoded bytes differ from the image"
    [] ev.type = "bin"  -> "decoded bytes differ from the image"
    [] ev.type = "elf"  -> IF ~ElfValid(ev.file) THEN "invalid ELF structure"
                           ELSE IF ~(ChunksOk(ev.img, ElfChunks(ev.file)) /\ WithinSpan(ElfChunks(ev.file), ev.low, ev.high, ev.gran))
                                THEN "loadable sections differ from the image"
                           ELSE IF \E i \in 1..Len(ev.syms) : ElfSym(ev.file, ev.syms[i].n) # {ev.syms[i].v}
                                THEN "exported symbol missing or wrong"
                           ELSE "entry point differs"

\* loading the file back: rb = runs the loader put into memory (zero runs elided by the
\* recorder); the Pico block of a uf2 file is not program content
NotPico(r) == ~(r.a.h = 4351 /\ r.a.l >= 65280)
ReadBackOk(ev) ==
  LET rb     == IF ev.type = "uf2" THEN SelectSeq(ev.rb, NotPico) ELSE ev.rb
      chunks == RbChunks(rb)
  IN /\ ev.rr = 0
     /\ \A c \in 1..Len(chunks) : ChunkOk(ev.img, chunks[c].base, chunks[c].D)
     \* the recorder elides zero runs: a written byte it did not report reads back as 0
     /\ \A p \in RunIdx(ev.img) : Covered(ev.img, p, chunks) \/ ev.img[p[1]].d[p[2]] = 0
=============================================================================
