---------------------------- MODULE TraceMsp430Enc ----------------------------
(* Acceptor: {"id","i" (the instruction),"at","acc","b" (bytes the real      *)
(* assembler emitted)}: the bytes must be one of the manual's encodings.     *)
EXTENDS Msp430Enc, TLC, Json, IOUtils
Tr == ndJsonDeserialize(IOEnv.TRACE)
VARIABLE l
TInit == l = 1
TNext == l <= Len(Tr) /\ l' = l + 1
\* jump targets are given relative to the instruction
Inst(e) == IF e.i.f = "jump" THEN [e.i EXCEPT !.s.v = e.at + e.i.s.v] ELSE e.i
Why(e) == LET encs == Enc(Inst(e), e.at) IN
          IF encs = {} THEN ""            \* e.g. a jump target out of range: rejection is C06's question
          ELSE IF ~e.acc THEN "rejected"
          ELSE IF e.b \in {BytesOf(w) : w \in encs} THEN "" ELSE "bytes are not an architecture encoding"
Report ==
  IF l > Len(Tr) THEN PrintT("VERDICT " \o ToJson([done |-> Len(Tr)]))
  ELSE LET e == Tr[l] w == Why(e) IN
       w = "" \/ PrintT("VERDICT " \o ToJson([id |-> e.id, why |-> w]))
=============================================================================
