INIT Init
NEXT Next
CONSTANTS
  MaxLen = 3
INVARIANT Emit
