------------------------------ MODULE GenLayout ------------------------------
(* Memory layouts for C03: 1-3 disjoint segments with start addresses at the *)
(* 16/24/31/32-bit and 64 KiB boundaries and lengths around the 16-byte      *)
(* record and 256-byte block sizes.  One cluster of start addresses per      *)
(* layout keeps the writers' address loops short.                            *)
EXTENDS Integers, Sequences, FiniteSets, TLC, Json
CONSTANT MaxSegs
VARIABLE c

St(h, l, k) == [h |-> h, l |-> l, k |-> k]
Starts == {St(0, 0, 1), St(0, 1, 1), St(0, 65520, 1), St(0, 65535, 1), St(1, 0, 1), St(1, 16, 1),
           St(2, 0, 1), St(3, 1, 1),                  \* behind a 64 KiB page that nothing is assembled in
           St(255, 65520, 2), St(256, 0, 2), St(258, 0, 2),
           St(32767, 65520, 3), St(32768, 0, 3),
           St(65534, 65520, 4), St(65535, 65280, 4)}
Lens == {1, 2, 15, 16, 17, 32, 255, 256, 257}

End(s) == LET e == s.st.l + s.len IN [h |-> s.st.h + e \div 65536, l |-> e % 65536]   \* exclusive
Before(a, b) == a.h < b.h \/ (a.h = b.h /\ a.l <= b.l)
Seg == [st : Starts, len : Lens]
ClusterOk(ss) == Cardinality({ss[i].st.k : i \in 1..Len(ss)}) = 1
Ordered(ss) == \A i \in 1..(Len(ss) - 1) :
                 /\ Before(End(ss[i]), [h |-> ss[i + 1].st.h, l |-> ss[i + 1].st.l])
                 /\ End(ss[i]) # [h |-> ss[i + 1].st.h, l |-> ss[i + 1].st.l]      \* a real gap
\* one long run of bytes: longer than any record, block or per-record length field of the formats
\* (wdc records hold at most 65536 bytes; the run crosses one or two 64 KiB boundaries)
LongLayouts == {<<[st |-> St(0, l, 1), len |-> n]>> : l \in {0, 4096}, n \in {65536, 65537}} \cup {<<[st |-> St(0, 4096, 1), len |-> 131074]>>}
Ok(ss) == Ordered(ss) /\ ClusterOk(ss)
\* the order in which a program assembles its segments is not the address order: three short segments in three different
\* 64 KiB pages, written in each of the six orders (ord[k] = index of the segment assembled k-th)
Small == [st : Starts, len : {1, 17}]
OrdLayouts == {<<t[1], t[2], t[3]>> : t \in Small \X Small \X Small}
OrdOk(ss) == Ok(ss) /\ ss[1].st.h < ss[2].st.h /\ ss[2].st.h < ss[3].st.h
Perm3 == {<<1, 2, 3>>, <<1, 3, 2>>, <<2, 1, 3>>, <<2, 3, 1>>, <<3, 1, 2>>, <<3, 2, 1>>}
OrdCases == {[segs |-> ss, ord |-> p] : ss \in {x \in OrdLayouts : OrdOk(x)}, p \in Perm3}
\* nested quantifiers, not [1..n -> Seg]: TLC would build that set first (135^3 elements)
Init == \/ \E a \in Seg : c = <<a>>
        \/ MaxSegs >= 2 /\ \E a \in Seg : \E b \in Seg : Ok(<<a, b>>) /\ c = <<a, b>>
        \/ MaxSegs >= 3 /\ \E a \in Seg : \E b \in Seg : Ok(<<a, b>>) /\ \E d \in Seg : Ok(<<a, b, d>>) /\ c = <<a, b, d>>
        \/ c \in LongLayouts
Next == FALSE /\ UNCHANGED c
Emit == PrintT("CASE " \o ToJson(c))
EmitOrd == (c = <<[st |-> St(0, 0, 1), len |-> 1]>>) => PrintT("ORD " \o ToJson(OrdCases))
=============================================================================
