----------------------------- MODULE TwoPassFn -----------------------------
(* Pure part of TwoPass.tla: symbol lookup and the two-pass machine as a    *)
(* function (used by the trace acceptor).  See TwoPass.tla for the actions. *)
EXTENDS Integers, Sequences, FiniteSets, TLC

CG == {0, 1, 2, 4, 8, -1}
ProbeSize == 12          \* label probe: .dc32 $, <label>, 0x5aa5c33c

\* symbol table: sequence of entries [n, sc, a, rw]; lookup = current scope first, then global
Find(tab, n, sc, insc) ==
  LET loc == {i \in 1..Len(tab) : tab[i].n = n /\ tab[i].sc = sc}
      glo == {i \in 1..Len(tab) : tab[i].n = n /\ tab[i].sc = 0}
  IN IF insc /\ loc # {} THEN CHOOSE i \in loc : \A j \in loc : i <= j
     ELSE IF glo # {} THEN CHOOSE i \in glo : \A j \in glo : i <= j
     ELSE 0

Value(r, tab, sc, insc) ==
  IF "c" \in DOMAIN r THEN [known |-> TRUE, v |-> r.c]
  ELSE LET i == Find(tab, r.s, sc, insc) IN
       IF i = 0 THEN [known |-> FALSE, v |-> 0] ELSE [known |-> TRUE, v |-> tab[i].a]

-----------------------------------------------------------------------------
(* The same machine as a function, for the trace acceptor: the set of      *)
(* labels it predicts to drift.  The size rule of the carrier instruction  *)
(* is a parameter: rule = [set, lt, short, long]: the short form is used   *)
(* when the operand is known in pass 1 and (in `set` or 0 <= v < lt).      *)
Fits(v, rule) == v \in rule.set \/ (v >= 0 /\ v < rule.lt)

St0(p) == [prog |-> p, ip |-> 1, pass |-> 1, pc |-> 0, syms |-> <<>>, scope |-> 0, inscope |-> FALSE,
           flag |-> {}, drift |-> {}, err |-> FALSE]

FStep(st, rule) ==
  LET s == st.prog[st.ip]
      nx == [st EXCEPT !.ip = @ + 1] IN
  CASE s.k = "label" ->
        (IF st.pass = 1
         THEN LET i == Find(st.syms, s.n, st.scope, st.inscope) IN
              IF i # 0 /\ (~st.inscope \/ st.syms[i].sc = st.scope) THEN [st EXCEPT !.err = TRUE]
              ELSE [nx EXCEPT !.syms = Append(@, [n |-> s.n, sc |-> IF st.inscope THEN st.scope ELSE 0,
                                                  a |-> st.pc, rw |-> FALSE]),
                              !.pc = @ + ProbeSize]
         ELSE LET i == Find(st.syms, s.n, st.scope, st.inscope) IN
              [nx EXCEPT !.drift = IF i # 0 /\ st.syms[i].a # st.pc THEN @ \cup {s.n} ELSE @,
                         !.pc = @ + ProbeSize])
    [] s.k = "insn" ->
        LET val == Value(s.r, st.syms, st.scope, st.inscope) IN
        (IF st.pass = 1
         THEN [nx EXCEPT !.flag = IF ~val.known THEN @ \cup {st.pc} ELSE @,
                         !.pc = @ + (IF ~val.known \/ ~Fits(val.v, rule) THEN rule.long ELSE rule.short)]
         ELSE IF ~val.known THEN [st EXCEPT !.err = TRUE]
         ELSE [nx EXCEPT !.pc = @ + (IF st.pc \in st.flag \/ ~Fits(val.v, rule) THEN rule.long ELSE rule.short)])
    [] s.k = "set" ->
        LET i == Find(st.syms, s.n, st.scope, st.inscope) IN
        (IF i # 0 THEN (IF st.syms[i].rw THEN [nx EXCEPT !.syms[i].a = s.v] ELSE [st EXCEPT !.err = TRUE])
         ELSE IF st.pass = 1
           THEN [nx EXCEPT !.syms = Append(@, [n |-> s.n, sc |-> 0, a |-> s.v, rw |-> TRUE])]
           ELSE nx)
    [] s.k = "scope" -> (IF st.inscope THEN [st EXCEPT !.err = TRUE]
                         ELSE [nx EXCEPT !.scope = @ + 1, !.inscope = TRUE])
    [] s.k = "ends"  -> [nx EXCEPT !.inscope = FALSE]
    [] s.k = "data"  -> [nx EXCEPT !.pc = @ + s.sz]
    \* a mode directive (.msp430_cpu4, .code, .list) places nothing; what it switches holds from there on in the pass that
    \* reads it, so the statements in front of it are the same in both passes
    [] s.k = "mode"  -> nx

RECURSIVE FRun(_, _)
FRun(st, rule) ==
  IF st.err THEN st
  ELSE IF st.ip > Len(st.prog)
    THEN (IF st.pass = 2 THEN st
          ELSE FRun([st EXCEPT !.pass = 2, !.ip = 1, !.pc = 0, !.scope = 0, !.inscope = FALSE], rule))
  ELSE LET n == FStep(st, rule) IN IF n = n THEN FRun(n, rule) ELSE n

Predict(p, rule) == LET st == FRun(St0(p), rule) IN [err |-> st.err, drift |-> st.drift]

\* obs = [k |-> "ok"|"rej", probes |-> Seq([n, here, bound])]
ObsDrift(obs) == {obs.probes[j].n : j \in {i \in 1..Len(obs.probes) : obs.probes[i].here # obs.probes[i].bound}}
UsesScopes(p) == \E i \in 1..Len(p) : p[i].k = "scope"

\* "ok", "stale" (model predicts drift, code is stable), "dev" (code drifts exactly as the
\* machine predicts, and the program shadows names between scopes), "violation"
Verdict(p, rule, modelled, obs) ==
  IF obs.k = "rej" THEN "ok"                      \* C02 speaks about accepted programs
  ELSE LET d == ObsDrift(obs) IN
       IF d = {} THEN (IF modelled /\ Predict(p, rule).drift # {} THEN "stale" ELSE "ok")
       ELSE IF modelled /\ UsesScopes(p) /\ Predict(p, rule).drift = d THEN "dev"
       ELSE "violation"
=============================================================================
