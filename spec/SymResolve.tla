----------------------------- MODULE SymResolve -----------------------------
(***************************************************************************)
(* Property C11: every reference resolves to the definition the scoping    *)
(* rules select.                                                           *)
(*                                                                         *)
(* Statements: [k |-> "label", n]  [k |-> "use", n]  (.dc32 n, 4 bytes)    *)
(*   [k |-> "scope"] [k |-> "ends"]  [k |-> "func", n] [k |-> "endf"]      *)
(*   [k |-> "set", n, v]  [k |-> "export", n]                              *)
(*                                                                         *)
(* Reference (RefRun): the blocks of the program are determined first; a use *)
(* inside a block sees the block's own definition of the name if it has    *)
(* one (wherever in the block it stands), otherwise the global one.        *)
(* Machine: the shipped two-pass lookup (TwoPassFn: entries with scope     *)
(* ids counted per pass, table locked in pass 2) - used to explain         *)
(* differences.                                                            *)
(***************************************************************************)
EXTENDS Integers, Sequences, FiniteSets, TLC

Opens(s) == s.k \in {"scope", "func"}
Closes(s) == s.k \in {"ends", "endf"}

\* block number of every statement position: 0 outside, k inside the k-th block; bad nesting = error
RECURSIVE Blocks(_, _, _, _, _)
Blocks(p, i, cur, cnt, acc) ==
  IF i > Len(p) THEN [blk |-> acc, err |-> FALSE]
  ELSE LET s == p[i] IN
    IF Opens(s) THEN (IF cur # 0 THEN [blk |-> acc, err |-> TRUE]
                      ELSE Blocks(p, i + 1, cnt + 1, cnt + 1, Append(acc, IF s.k = "func" THEN 0 ELSE cnt + 1)))
    ELSE IF Closes(s) THEN Blocks(p, i + 1, 0, cnt, Append(acc, cur))
    ELSE Blocks(p, i + 1, cur, cnt, Append(acc, cur))

\* addresses: labels and func names take the location counter; uses occupy 4 bytes
RECURSIVE Addr(_, _, _, _)
Addr(p, i, pc, acc) == IF i > Len(p) THEN acc
                       ELSE Addr(p, i + 1, pc + (IF p[i].k = "use" THEN 4 ELSE 0), Append(acc, pc))

Defs(p, blk, b) == {i \in 1..Len(p) : (p[i].k = "label" /\ blk[i] = b) \/ (b = 0 /\ p[i].k = "func")}
DefsOf(p, blk, b, n) == {i \in Defs(p, blk, b) : p[i].n = n}

\* value of name n used at position i (labels only; .set handled separately)
RefLookup(p, blk, addr, i, n) ==
  LET loc == IF blk[i] = 0 THEN {} ELSE DefsOf(p, blk, blk[i], n)
      glo == DefsOf(p, blk, 0, n)
      sets == {j \in 1..(i - 1) : p[j].k = "set" /\ p[j].n = n}
  IN IF loc # {} THEN [ok |-> TRUE, v |-> addr[CHOOSE j \in loc : TRUE]]
     ELSE IF glo # {} THEN [ok |-> TRUE, v |-> addr[CHOOSE j \in glo : TRUE]]
     ELSE IF sets # {} THEN [ok |-> TRUE, v |-> p[CHOOSE j \in sets : \A m \in sets : m <= j].v]
     ELSE [ok |-> FALSE, v |-> 0]

\* is the program outside what the property settles?  (.set mixed with labels of the same name,
\* a .set used before its first assignment, export of a local or unknown name)
SetInBlock(p, blk, n) == \E j \in 1..Len(p) : p[j].k = "set" /\ p[j].n = n /\ blk[j] # 0
Unsettled(p, blk) ==
  \/ \E i, j \in 1..Len(p) : p[i].k = "set" /\ p[j].k \in {"label", "func"} /\ p[i].n = p[j].n
  \/ \E i \in 1..Len(p) : p[i].k = "use" /\ (\E j \in 1..Len(p) : p[j].k = "set" /\ p[j].n = p[i].n)
                            /\ ~(\E j \in 1..(i - 1) : p[j].k = "set" /\ p[j].n = p[i].n)
  \* .export inside a block of a name that the block also defines: whether the local or the global one is meant
  \/ \E i \in 1..Len(p) : p[i].k = "export" /\ blk[i] # 0 /\ DefsOf(p, blk, blk[i], p[i].n) # {}
  \* a block still open at the end of the file
  \/ LET opens == {i \in 1..Len(p) : Opens(p[i])} IN
     opens # {} /\ ~(\E j \in 1..Len(p) : Closes(p[j]) /\ \A i \in opens : i < j)

RefRun(p) ==
  LET b == Blocks(p, 1, 0, 0, <<>>) IN
  IF b.err THEN [k |-> "rej", words |-> <<>>, exports |-> {}]
  ELSE LET blk  == b.blk
           addr == Addr(p, 1, 0, <<>>)
           dup  == \E i, j \in 1..Len(p) : i < j /\ p[i].k \in {"label", "func"} /\ p[j].k \in {"label", "func"}
                                            /\ p[i].n = p[j].n
                                            /\ (IF p[i].k = "func" THEN 0 ELSE blk[i]) = (IF p[j].k = "func" THEN 0 ELSE blk[j])
           uses == {i \in 1..Len(p) : p[i].k = "use"}
           undef == \E i \in uses : ~RefLookup(p, blk, addr, i, p[i].n).ok
           expbad == \E i \in 1..Len(p) : p[i].k = "export" /\ DefsOf(p, blk, 0, p[i].n) = {}
       IN IF Unsettled(p, blk) THEN [k |-> "any", words |-> <<>>, exports |-> {}]
          ELSE IF dup \/ undef \/ expbad THEN [k |-> "rej", words |-> <<>>, exports |-> {}]
          ELSE [k |-> "ok",
                \* -1: not a use; -2: a use of a .set name that is assigned inside a block (what a .set inside a
                \* scope means for uses elsewhere is not settled by the property): any value
                words |-> [i \in 1..Len(p) |-> IF p[i].k # "use" THEN -1
                                               ELSE IF SetInBlock(p, blk, p[i].n) THEN -2
                                               ELSE RefLookup(p, blk, addr, i, p[i].n).v],
                exports |-> {[n |-> p[i].n, v |-> addr[CHOOSE j \in DefsOf(p, blk, 0, p[i].n) : TRUE]] : i \in {j \in 1..Len(p) : p[j].k = "export"}}]

\* obs = [k, words (sequence of the .dc32 values in program order), exports (sequence of [n, v])]
UseWords(r) == SelectSeq(r.words, LAMBDA w : w # -1)
SameWords(o, w) == Len(o) = Len(w) /\ \A i \in 1..Len(w) : w[i] = -2 \/ o[i] = w[i]
Conforms(p, obs) ==
  LET r == RefRun(p) IN
  IF r.k = "any" THEN TRUE
  ELSE IF r.k = "rej" THEN obs.k = "rej"
  ELSE obs.k = "ok" /\ SameWords(obs.words, UseWords(r))
       /\ {obs.exports[j] : j \in 1..Len(obs.exports)} = r.exports
Why(p, obs) ==
  LET r == RefRun(p) IN
  IF r.k = "rej" THEN "reference rejects (duplicate, undefined, nested scope or bad export), code accepted"
  ELSE IF obs.k # "ok" THEN "reference accepts, code rejected"
  ELSE IF ~SameWords(obs.words, UseWords(r)) THEN "a reference resolved to another definition"
  ELSE "exported symbols differ"
=============================================================================
