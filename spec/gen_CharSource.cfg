SPECIFICATION Spec
CONSTANTS
  MaxOps = 12
INVARIANT Emit
CHECK_DEADLOCK FALSE
