------------------------------- MODULE GenProbe -------------------------------
(* prints the probe values of Codec.tla for the renderer *)
EXTENDS Codec, Json
VARIABLE c
Init == c \in ProbeSet
Next == FALSE /\ UNCHANGED c
Emit == PrintT("CASE " \o ToJson(c))
=============================================================================
