------------------------------- MODULE GenLink -------------------------------
(* Scenarios for C20: the initial states of MCLink (files, functions with   *)
(* their calls, program references), printed for the check to build real    *)
(* ELF32 objects and ar archives from.                                      *)
EXTENDS MCLink, Json
GInit == Init
GNext == FALSE /\ UNCHANGED vars
Emit == PrintT("CASE " \o ToJson([files |-> files, refs |-> refs]))
=============================================================================
