----------------------------- MODULE GenMsp430Enc -----------------------------
(* Assembly-level MSP430 instructions for the architecture clause of C01:   *)
(* every opcode x every source mode x every destination mode x byte/word,   *)
(* with registers and values at the encoding's corners (constant generator  *)
(* values and their neighbours, 16-bit extremes), jumps at the ends of the  *)
(* range, all emulated instructions.                                        *)
EXTENDS Msp430Enc, TLC, Json
VARIABLE c
O(m, r, v) == [m |-> m, r |-> r, v |-> v]
None == O("none", 0, 0)
ImmVals == {0, 1, 2, 3, 4, 5, 8, 9, 255, 256, 32767, 32768, 65534, 65535}
SrcOps == {O("reg", r, 0) : r \in {4, 15}} \cup {O("idx", r, v) : r \in {4, 15}, v \in {0, 2, 65534}}
          \cup {O("sym", 0, v) : v \in {4096, 33000}} \cup {O("abs", 0, v) : v \in {512, 65534}}
          \cup {O("ind", r, 0) : r \in {4, 15}} \cup {O("inc", r, 0) : r \in {4, 15}}
          \cup {O("imm", 0, v) : v \in ImmVals}
DstOps == {O("reg", r, 0) : r \in {5, 14}} \cup {O("idx", r, v) : r \in {5, 14}, v \in {0, 6}}
          \cup {O("sym", 0, 4660)} \cup {O("abs", 0, 516)}
I(f, op, bw, s, d) == [f |-> f, op |-> op, bw |-> bw, s |-> s, d |-> d]
\* a byte instruction takes a byte immediate (what the assembler does with wider ones is C06)
ByteOk(bw, s) == bw = 1 /\ s.m = "imm" => s.v <= 255
Emus0 == {"ret", "nop", "clrc", "setc", "clrz", "setz", "clrn", "setn", "dint", "eint"}
Emus1 == {"pop", "clr", "inc", "incd", "dec", "decd", "tst", "inv", "rla", "rlc", "adc", "sbc", "dadc"}
Init ==
  \/ \E op \in DOMAIN TwoOps, bw \in 0..1, s \in SrcOps, d \in DstOps : ByteOk(bw, s) /\ c = I("two", op, bw, s, d)
  \/ \E op \in {"rrc", "rra", "push"}, bw \in 0..1, s \in SrcOps : ByteOk(bw, s) /\ (op # "push" => s.m # "imm") /\ c = I("one", op, bw, s, None)
  \/ \E op \in {"swpb", "sxt", "call"}, s \in SrcOps : (op # "call" => s.m # "imm") /\ c = I("one", op, 0, s, None)
  \/ c = I("one", "reti", 0, None, None)
  \/ \E op \in DOMAIN Conds, t \in {-1020, -2, 0, 2, 4, 1024} : c = I("jump", op, 0, O("none", 0, t), None)
  \/ \E op \in Emus0 : c = I("emu", op, 0, None, None)
  \/ \E op \in Emus1, bw \in 0..1, d \in DstOps : c = I("emu", op, bw, None, d)
Next == FALSE /\ UNCHANGED c
Emit == PrintT("CASE " \o ToJson(c))
=============================================================================
