INIT GInit
NEXT GNext
CONSTANTS
  Names = {"f", "g", "h"}
  Undef = "u"
  MaxCalls = 1
  MaxRefs = 2
INVARIANT Emit
