------------------------------ MODULE TraceProc ------------------------------
(* Acceptor for C12: {"id", "bad", "obs": {"status", "errs", "file"}} per real run *)
EXTENDS Proc, Json, IOUtils, Sequences
Tr == ndJsonDeserialize(IOEnv.TRACE)
VARIABLE l
TInit == l = 1 /\ phase = "args" /\ errs = 0 /\ status = -1 /\ file = "absent" /\ bad = FALSE
TNext == l <= Len(Tr) /\ l' = l + 1 /\ UNCHANGED vars
Report ==
  IF l > Len(Tr) THEN PrintT("VERDICT " \o ToJson([done |-> Len(Tr)]))
  ELSE LET e == Tr[l] IN
       Accepts(e.bad, e.obs) \/ PrintT("VERDICT " \o ToJson([id |-> e.id, why |-> Why(e.bad, e.obs)]))
=============================================================================
