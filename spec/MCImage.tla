------------------------------- MODULE MCImage -------------------------------
(***************************************************************************)
(* The paged implementation of the image as a machine: a list of pages in  *)
(* the order they were created, each with its base address and its bytes;  *)
(* an access looks the page up by walking the list.  Checked against the   *)
(* flat reference of Image.tla for every sequence of writes over a small   *)
(* address space (page size PS, NP pages): every 8/16/32-bit read, at any  *)
(* alignment, gives what the reference gives.                              *)
(* NextIsAdjacent = TRUE is the (wrong) shortcut "a value that runs off    *)
(* the end of its page continues in the next page of the list"; TLC must   *)
(* reject it (mc_Image_dev.cfg), which shows that the model tells the two  *)
(* apart.  FirstPageOnly = TRUE is the other shortcut, "look the page up   *)
(* once, for the first byte" (a value whose first byte lies in a page      *)
(* that was never created reads as 0).                                     *)
(***************************************************************************)
EXTENDS Image
CONSTANTS PS, NP, MaxOps, NextIsAdjacent, FirstPageOnly
VARIABLES pl, ref, n
vars == <<pl, ref, n>>
Addr == 0..(PS * NP - 1)
Vals == {1, 2}
Find(a) == IF \E i \in 1..Len(pl) : pl[i].base = PageOf(a, PS) THEN CHOOSE i \in 1..Len(pl) : pl[i].base = PageOf(a, PS) ELSE 0
PRead8(a) == IF a \notin Addr THEN 0 ELSE LET i == Find(a) IN IF i = 0 THEN 0 ELSE Rd(pl[i].bin, a - pl[i].base, 0)
\* a w-byte read that starts in page i
PReadFrom(a, k) ==
  LET i == Find(a) IN
  IF ~NextIsAdjacent /\ ~FirstPageOnly THEN PRead8(a + k)
  ELSE IF i = 0 THEN (IF FirstPageOnly THEN 0 ELSE PRead8(a + k))
  ELSE IF a + k < pl[i].base + PS THEN Rd(pl[i].bin, a + k - pl[i].base, 0)
  ELSE IF NextIsAdjacent THEN (IF i < Len(pl) /\ pl[i + 1].base = pl[i].base + PS THEN Rd(pl[i + 1].bin, a + k - pl[i + 1].base, 0) ELSE 0)
  ELSE PRead8(a + k)
PRead(a, w) == [k \in 1..w |-> PReadFrom(a, k - 1)]            \* little endian, least significant first
PWrite8(a, v) == LET i == Find(a) IN
  IF i = 0 THEN pl' = Append(pl, [base |-> PageOf(a, PS), bin |-> Put(<<>>, a - PageOf(a, PS), v)])
  ELSE pl' = [pl EXCEPT ![i].bin = Put(@, a - pl[i].base, v)]
Init == pl = <<>> /\ ref = S0 /\ n = 0
Next == n < MaxOps /\ n' = n + 1 /\ \E a \in Addr, v \in Vals : PWrite8(a, v) /\ ref' = SetData(ref, a, v, PS)
Spec == Init /\ [][Next]_vars
Refines == \A a \in Addr : /\ PRead(a, 1) = ReadBytes(ref, a, 1, FALSE)
                           /\ (a + 1 \in Addr => PRead(a, 2) = ReadBytes(ref, a, 2, FALSE))
                           /\ (a + 3 \in Addr => PRead(a, 4) = ReadBytes(ref, a, 4, FALSE))
PagesOk == {pl[i].base : i \in 1..Len(pl)} = ref.pg /\ Cardinality(ref.pg) = Len(pl)
=============================================================================
