-------------------------------- MODULE Cond --------------------------------
(***************************************************************************)
(* Conditional assembly (core/directives_if.cpp, core/ifdef_expression.cpp,*)
(* AsmContext::assemble).                                                  *)
(*                                                                         *)
(* Reference                                                               *)
(*   RefCond(ts, env)  value of an .if condition: ! > comparisons > && > ||*)
(*                     left associative, parentheses, numbers, defines,    *)
(*                     symbols, defined(); malformed = rejected            *)
(*   RefRun(prog)      the statements of exactly the selected branches are *)
(*                     executed; malformed/unterminated structure = error  *)
(* Machine                                                                 *)
(*   MRun(prog)        the shipped control flow: assemble() recursing into *)
(*                     a taken block and only returning at .else or end of *)
(*                     file, ifdef_ignore() counting nested openers, the   *)
(*                     ifdef_count guard for stray .else/.endif.           *)
(*                                                                         *)
(* Statements:                                                             *)
(*  [k |-> "mark", b |-> Byte]        .db b                                *)
(*  [k |-> "note", d |-> STRING]      a comment over several lines, one    *)
(*                                    of which reads like the directive d  *)
(*                                    (.else, .endif, .ifdef DX): no       *)
(*                                    statement, in taken and skipped text *)
(*  [k |-> "if", c |-> Seq(Tok)]      .if <condition>                      *)
(*  [k |-> "ifdef", n |-> STRING]     .ifdef n     [k |-> "ifndef", ...]   *)
(*  [k |-> "else"]  [k |-> "endif"]                                        *)
(*  [k |-> "define", n |-> STRING, v |-> Nat]   .define n v                *)
(*  [k |-> "label", n |-> STRING]     n:                                   *)
(* Condition tokens: [t |-> "num", v], [t |-> "name", n], [t |-> "defined", n], *)
(*  [t |-> "not"], [t |-> "op", o], [t |-> "lp"], [t |-> "rp"]             *)
(***************************************************************************)
EXTENDS Integers, Sequences, FiniteSets, TLC

Forced(v) == v = v

CmpOps == {"==", "<", ">", "<=", ">="}
CLevel(o) == IF o \in CmpOps THEN 1 ELSE IF o = "&&" THEN 2 ELSE 3   \* "||" = 3

B2N(b) == IF b THEN 1 ELSE 0
CApply(o, a, b) == CASE o = "==" -> B2N(a = b) [] o = "<" -> B2N(a < b) [] o = ">" -> B2N(a > b)
                     [] o = "<=" -> B2N(a <= b) [] o = ">=" -> B2N(a >= b)
                     [] o = "&&" -> B2N(a # 0 /\ b # 0) [] o = "||" -> B2N(a # 0 \/ b # 0)

\* env = [defs |-> name -> value, syms |-> name -> address]
IsDefined(n, env) == n \in DOMAIN env.defs \/ n \in DOMAIN env.syms

CRej(i) == [k |-> "rej", v |-> 0, i |-> i]

RECURSIVE CUn(_, _, _), CBin(_, _, _, _), CLoop(_, _, _, _)
CUn(ts, i, env) ==
  IF i > Len(ts) THEN CRej(i)
  ELSE LET t == ts[i] IN
    IF t.t = "num" THEN [k |-> "val", v |-> t.v, i |-> i + 1]
    ELSE IF t.t = "name" THEN
       (IF t.n \in DOMAIN env.defs THEN [k |-> "val", v |-> env.defs[t.n], i |-> i + 1]
        ELSE IF t.n \in DOMAIN env.syms THEN [k |-> "val", v |-> env.syms[t.n], i |-> i + 1]
        ELSE CRej(i))
    ELSE IF t.t = "defined" THEN [k |-> "val", v |-> B2N(IsDefined(t.n, env)), i |-> i + 1]
    ELSE IF t.t = "not" THEN LET r == CUn(ts, i + 1, env) IN
                             IF r.k = "val" THEN [r EXCEPT !.v = B2N(@ = 0)] ELSE r
    ELSE IF t.t = "lp" THEN LET r == CBin(ts, i + 1, 3, env) IN
         IF r.k = "rej" THEN r
         ELSE IF r.i <= Len(ts) /\ ts[r.i].t = "rp" THEN [r EXCEPT !.i = @ + 1]
         ELSE CRej(r.i)
    ELSE CRej(i)

CBin(ts, i, lvl, env) == IF lvl = 0 THEN CUn(ts, i, env)
                         ELSE CLoop(ts, CBin(ts, i, lvl - 1, env), lvl, env)
CLoop(ts, acc, lvl, env) ==
  IF acc.k = "rej" THEN acc
  ELSE IF acc.i <= Len(ts) /\ ts[acc.i].t = "op" /\ CLevel(ts[acc.i].o) = lvl
    THEN LET rhs == CBin(ts, acc.i + 1, lvl - 1, env) IN
         IF rhs.k = "rej" THEN rhs
         ELSE LET nx == [k |-> "val", v |-> CApply(ts[acc.i].o, acc.v, rhs.v), i |-> rhs.i]
              IN IF Forced(nx) THEN CLoop(ts, nx, lvl, env) ELSE nx
  ELSE acc

RefCond(ts, env) == LET r == CBin(ts, 1, 3, env) IN
                    IF r.k = "val" /\ r.i = Len(ts) + 1 THEN [k |-> "val", v |-> r.v]
                    ELSE [k |-> "rej", v |-> 0]

-----------------------------------------------------------------------------
(* Reference program semantics.  st = [stack, defs, syms, out, err]; a     *)
(* stack frame is [live (the enclosing code is live), take, else].         *)

IsOpen(s) == s.k \in {"if", "ifdef", "ifndef"}
Env(st) == [defs |-> st.defs, syms |-> st.syms]
Live(st) == st.stack = <<>> \/ (st.stack[Len(st.stack)].live /\ st.stack[Len(st.stack)].take)

\* truth of an opener in the current environment: "t", "f" or "bad"
Truth(s, env) ==
  IF s.k = "if" THEN LET r == RefCond(s.c, env) IN
                     IF r.k = "rej" THEN "bad" ELSE IF r.v # 0 THEN "t" ELSE "f"
  ELSE IF s.k = "ifdef" THEN (IF IsDefined(s.n, env) THEN "t" ELSE "f")
  ELSE (IF IsDefined(s.n, env) THEN "f" ELSE "t")

RStep(st, s) ==
  IF IsOpen(s) THEN
     IF Live(st)
     THEN LET tr == Truth(s, Env(st)) IN
          IF tr = "bad" THEN [st EXCEPT !.err = TRUE]
          ELSE [st EXCEPT !.stack = Append(@, [live |-> TRUE, take |-> tr = "t", else |-> FALSE])]
     ELSE [st EXCEPT !.stack = Append(@, [live |-> FALSE, take |-> FALSE, else |-> FALSE])]
  ELSE IF s.k = "else" THEN
     IF st.stack = <<>> \/ st.stack[Len(st.stack)].else THEN [st EXCEPT !.err = TRUE]
     ELSE [st EXCEPT !.stack[Len(st.stack)] = [@ EXCEPT !.take = ~@, !.else = TRUE]]
  ELSE IF s.k = "endif" THEN
     IF st.stack = <<>> THEN [st EXCEPT !.err = TRUE]
     ELSE [st EXCEPT !.stack = SubSeq(@, 1, Len(@) - 1)]
  ELSE IF ~Live(st) THEN st
  ELSE IF s.k = "mark" THEN [st EXCEPT !.out = Append(@, s.b)]
  ELSE IF s.k = "define" THEN
     IF s.n \in DOMAIN st.defs THEN [st EXCEPT !.err = TRUE]
     ELSE [st EXCEPT !.defs = (s.n :> s.v) @@ @]
  ELSE IF s.k = "label" THEN
     IF s.n \in DOMAIN st.syms THEN [st EXCEPT !.err = TRUE]
     ELSE [st EXCEPT !.syms = (s.n :> Len(st.out)) @@ @]
  ELSE st

RECURSIVE RFold(_, _, _)
RFold(prog, i, st) == IF i > Len(prog) \/ st.err THEN st
                      ELSE LET n == RStep(st, prog[i]) IN
                           IF Forced(n) THEN RFold(prog, i + 1, n) ELSE n

St0 == [stack |-> <<>>, defs |-> <<>>, syms |-> <<>>, out |-> <<>>, err |-> FALSE]
RefRun(prog) == LET st == RFold(prog, 1, St0) IN
                [err |-> st.err \/ st.stack # <<>>, out |-> st.out, syms |-> st.syms]

-----------------------------------------------------------------------------
(* The control flow as shipped, with its defects behind switches.          *)
(* A machine state is [i, cnt (ifdef_count), defs, syms, out, err, dev].   *)
(* MAsm mirrors AsmContext::assemble(): returns [ret, st] with ret 0 (end  *)
(* of file), 2 (.else seen), 4 (.endif closed the block; only with the     *)
(* switch `closes`) or -1 (error).  MIgn mirrors ifdef_ignore(): ret 0     *)
(* (.endif found), 2 (.else found), -1 (end of file).                      *)
(*                                                                         *)
(* cfg.ifndef : the skip loop counts .ifndef as an opener                  *)
(* cfg.closes : .endif ends the recursive assemble() of its block.  The    *)
(*              shipped code has closes = FALSE: a taken block is only     *)
(*              left at .else or at the end of the file, so an inner       *)
(*              .if/.else/.endif swallows the .else of the enclosing block *)
(*              and unterminated or stray directives go unnoticed.         *)

CONSTANTS CountsIfndef, CountsCloses   \* the shipped values of the switches

Shipped  == [ifndef |-> CountsIfndef, closes |-> CountsCloses]
Repaired == [ifndef |-> TRUE, closes |-> TRUE]

MDev(st, d) == [st EXCEPT !.dev = @ \cup {d}]
MErr(st) == [ret |-> -1, st |-> [st EXCEPT !.err = TRUE]]

RECURSIVE MIgn(_, _, _, _)
MIgn(prog, i, nest, cfg) ==
  IF i > Len(prog) THEN [ret |-> -1, i |-> i]
  ELSE LET s == prog[i] IN
    IF s.k = "endif" THEN (IF nest = 0 THEN [ret |-> 0, i |-> i + 1] ELSE MIgn(prog, i + 1, nest - 1, cfg))
    ELSE IF s.k = "else" THEN (IF nest = 0 THEN [ret |-> 2, i |-> i + 1] ELSE MIgn(prog, i + 1, nest, cfg))
    ELSE IF s.k \in {"if", "ifdef"} \/ (cfg.ifndef /\ s.k = "ifndef") THEN MIgn(prog, i + 1, nest + 1, cfg)
    ELSE MIgn(prog, i + 1, nest, cfg)

RECURSIVE MAsm(_, _, _), AfterTaken(_, _, _), AfterSkipped(_, _, _)
MAsm(prog, st, cfg) ==
  IF st.err THEN [ret |-> -1, st |-> st]
  ELSE IF st.i > Len(prog) THEN [ret |-> 0, st |-> st]
  ELSE LET s == prog[st.i]
           nx == [st EXCEPT !.i = @ + 1] IN
    IF s.k = "mark" THEN MAsm(prog, [nx EXCEPT !.out = Append(@, s.b)], cfg)
    ELSE IF s.k = "note" THEN MAsm(prog, nx, cfg)       \* a comment is no token of the language, whatever it quotes
    ELSE IF s.k = "define" THEN
       (IF s.n \in DOMAIN st.defs THEN MErr(st)
        ELSE MAsm(prog, [nx EXCEPT !.defs = (s.n :> s.v) @@ @], cfg))
    ELSE IF s.k = "label" THEN
       (IF s.n \in DOMAIN st.syms THEN MErr(st)
        ELSE MAsm(prog, [nx EXCEPT !.syms = (s.n :> Len(st.out)) @@ @], cfg))
    ELSE IF s.k = "endif" THEN
       (IF st.cnt < 1 THEN MErr(st)
        ELSE IF cfg.closes THEN [ret |-> 4, st |-> nx]
        ELSE MAsm(prog, nx, cfg))
    ELSE IF s.k = "else" THEN
       (IF st.cnt < 1 THEN MErr(st) ELSE [ret |-> 2, st |-> nx])
    ELSE \* an opener: parse_if / parse_ifdef
       LET tr == Truth(s, Env(st)) IN
       IF tr = "bad" THEN MErr(st)      \* parse_if / parse_ifdef fail and the failure is propagated
       ELSE IF tr = "f" THEN
          \* parse_ifdef_ignore(1): if (ifdef_ignore() == 2) assemble();
          LET g == MIgn(prog, st.i + 1, 0, cfg) IN
          IF g.ret = 2 THEN AfterSkipped(prog, MAsm(prog, [st EXCEPT !.i = g.i, !.cnt = @ + 1], cfg), cfg)
          ELSE IF g.ret = 0 THEN MAsm(prog, [st EXCEPT !.i = g.i], cfg)
          ELSE MErr(st)                 \* "Missing endif"
       ELSE
          \* parse_ifdef_ignore(0): if (assemble() == 2) ifdef_ignore();
          AfterTaken(prog, MAsm(prog, [nx EXCEPT !.cnt = @ + 1], cfg), cfg)

\* back in parse_ifdef_ignore() after the recursive assemble() of a taken block returned
AfterTaken(prog, a, cfg) ==
  IF a.ret = 2 THEN
     LET g  == MIgn(prog, a.st.i, 0, cfg)
         s1 == [a.st EXCEPT !.i = g.i, !.cnt = @ - 1] IN
     IF g.ret = 0 THEN MAsm(prog, s1, cfg)
     ELSE IF g.ret = -1 THEN MErr(a.st)          \* no .endif: "Missing endif"
     ELSE IF cfg.closes THEN MErr(a.st)          \* second .else
     ELSE MAsm(prog, s1, cfg)                    \* a second .else is swallowed
  ELSE IF a.ret = 4 THEN MAsm(prog, [a.st EXCEPT !.cnt = @ - 1], cfg)
  ELSE IF a.ret = 0 THEN
     IF cfg.closes THEN MErr(a.st)               \* end of file inside the block
     ELSE \* the recursive assemble() ran to the end of the file: an open block is never noticed
          [ret |-> 0, st |-> [a.st EXCEPT !.cnt = @ - 1]]
  ELSE a

\* ... after the assemble() of an else-part returned
AfterSkipped(prog, a, cfg) ==
  IF a.ret = -1 THEN a
  ELSE IF cfg.closes THEN (IF a.ret = 4 THEN MAsm(prog, [a.st EXCEPT !.cnt = @ - 1], cfg) ELSE MErr(a.st))
  ELSE \* shipped: the result is discarded
       MAsm(prog, [a.st EXCEPT !.cnt = @ - 1], cfg)

MSt0 == [i |-> 1, cnt |-> 0, defs |-> <<>>, syms |-> <<>>, out |-> <<>>, err |-> FALSE, dev |-> {}]
MRunC(prog, cfg) == LET a == MAsm(prog, MSt0, cfg) IN
                    [err |-> a.ret # 0, out |-> a.st.out, syms |-> a.st.syms, dev |-> a.st.dev]
MRun(prog) == MRunC(prog, Shipped)

\* ---- comparison ---------------------------------------------------------------
SameRun(a, b) == a.err = b.err /\ (~a.err => a.out = b.out /\ a.syms = b.syms)

\* obs = [k |-> "ok" | "rej", out, syms (sequence of [n, a])]
ObsSyms(obs) == [n \in {obs.syms[j].n : j \in 1..Len(obs.syms)} |->
                   obs.syms[CHOOSE j \in 1..Len(obs.syms) : obs.syms[j].n = n].a]
ObsRec(obs) == [err |-> obs.k = "rej", out |-> obs.out, syms |-> ObsSyms(obs)]

Verdict(prog, obs) ==
  LET ref == RefRun(prog)
      imp == MRun(prog)
      o   == ObsRec(obs)
  IN IF SameRun(o, ref) THEN (IF SameRun(imp, ref) THEN "ok" ELSE "stale")
     ELSE IF SameRun(o, imp) THEN "dev"
     ELSE "violation"

\* Which named defects explain a difference between the shipped machine and the
\* reference on this program: explicit ones (dev) plus each switch whose repair changes
\* the machine's result.
DevNames(prog) ==
  LET imp == MRunC(prog, Shipped) IN
  imp.dev
  \cup (IF ~SameRun(MRunC(prog, [Shipped EXCEPT !.closes = TRUE]), imp) THEN {"EndifDoesNotCloseBlock"} ELSE {})
  \cup (IF ~Shipped.ifndef /\ ~SameRun(MRunC(prog, [Shipped EXCEPT !.ifndef = TRUE]), imp)
        THEN {"IfndefNotCounted"} ELSE {})
=============================================================================
