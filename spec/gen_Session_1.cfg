INIT SInit
NEXT SNext
CONSTANTS
  MaxCmds = 1
INVARIANT SEmit
INVARIANT SEmitEnds
INVARIANT SEmitCmd
INVARIANT SEmitLong
