------------------------------ MODULE Msp430Enc ------------------------------
(***************************************************************************)
(* The MSP430 instruction encodings of SLAU144 (MSP430x2xx Family User's   *)
(* Guide, chapter 3): format I (two operands), format II (one operand),    *)
(* jumps, the constant generators and the emulated instructions.  Written  *)
(* from the manual, not from asm/msp430.cpp or disasm/msp430.cpp.          *)
(*                                                                         *)
(* An assembly-level instruction is                                        *)
(*   [f |-> "two", op, bw, s |-> operand, d |-> operand]                    *)
(*   [f |-> "one", op, bw, s |-> operand]                                   *)
(*   [f |-> "jump", cond, target]                                           *)
(*   [f |-> "emu", name, bw, d |-> operand]   (emulated, table 3-... )     *)
(* operand = [m |-> "reg" | "idx" | "sym" | "abs" | "ind" | "inc" | "imm" | *)
(*            "none", r |-> register, v |-> 16-bit value]                   *)
(* Enc(i, at) is the SET of word sequences the manual allows for i placed   *)
(* at address `at`: an immediate that a constant generator can produce may  *)
(* be encoded either way.                                                   *)
(***************************************************************************)
EXTENDS Integers, Sequences, FiniteSets

M16(x) == ((x % 65536) + 65536) % 65536

\* source operand -> set of [as, reg, ext (sequence of 0 or 1 words, given the address of the extension word)]
Src(o, extat, bw) ==
  CASE o.m = "reg" -> {[as |-> 0, r |-> o.r, ext |-> <<>>]}
    [] o.m = "idx" -> {[as |-> 1, r |-> o.r, ext |-> <<M16(o.v)>>]}
    [] o.m = "sym" -> {[as |-> 1, r |-> 0, ext |-> <<M16(o.v - extat)>>]}
    [] o.m = "abs" -> {[as |-> 1, r |-> 2, ext |-> <<M16(o.v)>>]}
    [] o.m = "ind" -> {[as |-> 2, r |-> o.r, ext |-> <<>>]}
    [] o.m = "inc" -> {[as |-> 3, r |-> o.r, ext |-> <<>>]}
    [] o.m = "imm" -> {[as |-> 3, r |-> 0, ext |-> <<M16(o.v)>>]}
                      \cup (CASE M16(o.v) = 0 -> {[as |-> 0, r |-> 3, ext |-> <<>>]}
                              [] M16(o.v) = 1 -> {[as |-> 1, r |-> 3, ext |-> <<>>]}
                              [] M16(o.v) = 2 -> {[as |-> 2, r |-> 3, ext |-> <<>>]}
                              [] M16(o.v) = 65535 -> {[as |-> 3, r |-> 3, ext |-> <<>>]}
                              \* a byte operation reads only the low byte of the generated -1
                              [] M16(o.v) = 255 /\ bw = 1 -> {[as |-> 3, r |-> 3, ext |-> <<>>]}
                              [] M16(o.v) = 4 -> {[as |-> 2, r |-> 2, ext |-> <<>>]}
                              [] M16(o.v) = 8 -> {[as |-> 3, r |-> 2, ext |-> <<>>]}
                              [] OTHER -> {})
\* destination operand -> [ad, reg, ext]
Dst(o, extat) ==
  CASE o.m = "reg" -> {[ad |-> 0, r |-> o.r, ext |-> <<>>]}
    [] o.m = "idx" -> {[ad |-> 1, r |-> o.r, ext |-> <<M16(o.v)>>]}
    [] o.m = "sym" -> {[ad |-> 1, r |-> 0, ext |-> <<M16(o.v - extat)>>]}
    [] o.m = "abs" -> {[ad |-> 1, r |-> 2, ext |-> <<M16(o.v)>>]}
    [] OTHER -> {}

\* opcodes, SLAU144 table 3-11 .. 3-13
TwoOps == [mov |-> 4, add |-> 5, addc |-> 6, subc |-> 7, sub |-> 8, cmp |-> 9, dadd |-> 10, bit |-> 11,
           bic |-> 12, bis |-> 13, xor |-> 14, and |-> 15]
OneOps == [rrc |-> 0, swpb |-> 1, rra |-> 2, sxt |-> 3, push |-> 4, call |-> 5]
Conds  == [jne |-> 0, jnz |-> 0, jeq |-> 1, jz |-> 1, jnc |-> 2, jlo |-> 2, jc |-> 3, jhs |-> 3, jn |-> 4,
           jge |-> 5, jl |-> 6, jmp |-> 7]

EncTwo(op, bw, s, d, at) ==
  UNION {{<<TwoOps[op] * 4096 + se.r * 256 + de.ad * 128 + bw * 64 + se.as * 16 + de.r>> \o se.ext \o de.ext
          : de \in Dst(d, at + 2 + 2 * Len(se.ext))} : se \in Src(s, at + 2, bw)}
EncOne(op, bw, s, at) ==
  {<<4096 + OneOps[op] * 128 + bw * 64 + se.as * 16 + se.r>> \o se.ext : se \in Src(s, at + 2, bw)}
EncJump(cond, target, at) ==
  LET off == (target - (at + 2)) \div 2 IN
  IF (target - at) % 2 = 0 /\ off >= -512 /\ off <= 511
  THEN {<<8192 + Conds[cond] * 1024 + ((off + 1024) % 1024)>>} ELSE {}

R(n) == [m |-> "reg", r |-> n, v |-> 0]
Imm(n) == [m |-> "imm", r |-> 0, v |-> n]
\* emulated instructions, SLAU144 table 3-... ("Emulated instructions")
Emu(name, bw, d, at) ==
  CASE name = "ret"  -> EncTwo("mov", 0, [m |-> "inc", r |-> 1, v |-> 0], R(0), at)
    [] name = "pop"  -> EncTwo("mov", bw, [m |-> "inc", r |-> 1, v |-> 0], d, at)
    [] name = "br"   -> {}            \* br takes a source operand: handled as EncTwo("mov", 0, s, PC)
    [] name = "nop"  -> EncTwo("mov", 0, Imm(0), R(3), at)
    [] name = "clr"  -> EncTwo("mov", bw, Imm(0), d, at)
    [] name = "inc"  -> EncTwo("add", bw, Imm(1), d, at)
    [] name = "incd" -> EncTwo("add", bw, Imm(2), d, at)
    [] name = "dec"  -> EncTwo("sub", bw, Imm(1), d, at)
    [] name = "decd" -> EncTwo("sub", bw, Imm(2), d, at)
    [] name = "tst"  -> EncTwo("cmp", bw, Imm(0), d, at)
    [] name = "inv"  -> EncTwo("xor", bw, Imm(65535), d, at)
    [] name = "rla"  -> EncTwo("add", bw, d, d, at)
    [] name = "rlc"  -> EncTwo("addc", bw, d, d, at)
    [] name = "adc"  -> EncTwo("addc", bw, Imm(0), d, at)
    [] name = "sbc"  -> EncTwo("subc", bw, Imm(0), d, at)
    [] name = "dadc" -> EncTwo("dadd", bw, Imm(0), d, at)
    [] name = "clrc" -> EncTwo("bic", 0, Imm(1), R(2), at)
    [] name = "setc" -> EncTwo("bis", 0, Imm(1), R(2), at)
    [] name = "clrz" -> EncTwo("bic", 0, Imm(2), R(2), at)
    [] name = "setz" -> EncTwo("bis", 0, Imm(2), R(2), at)
    [] name = "clrn" -> EncTwo("bic", 0, Imm(4), R(2), at)
    [] name = "setn" -> EncTwo("bis", 0, Imm(4), R(2), at)
    [] name = "dint" -> EncTwo("bic", 0, Imm(8), R(2), at)
    [] name = "eint" -> EncTwo("bis", 0, Imm(8), R(2), at)
    [] OTHER -> {}

Enc(i, at) ==
  CASE i.f = "two"  -> EncTwo(i.op, i.bw, i.s, i.d, at)
    [] i.f = "one"  -> IF i.op = "reti" THEN {<<4864>>} ELSE EncOne(i.op, i.bw, i.s, at)     \* 0x1300
    [] i.f = "jump" -> EncJump(i.op, i.s.v, at)
    [] i.f = "emu"  -> Emu(i.op, i.bw, i.d, at)
    [] OTHER -> {}

\* little-endian bytes of a word sequence
RECURSIVE BytesOf(_)
BytesOf(ws) == IF ws = <<>> THEN <<>> ELSE <<ws[1] % 256, ws[1] \div 256>> \o BytesOf(Tail(ws))
=============================================================================
