------------------------------ MODULE GenMsp430 ------------------------------
(* Case generator for C14: prepared states for one MSP430 step.  Every       *)
(* combination of instruction class, addressing modes and operand size is    *)
(* enumerated; operand values sit at the carry/overflow/BCD boundaries.      *)
EXTENDS Msp430Cpu, Json

CONSTANT Vals, ByteVals      \* operand values for word and byte operations
VARIABLE c

PC0 == 4096          \* 0x1000: instruction
SB  == 12288         \* 0x3000: source operand base
DB  == 16384         \* 0x4000: destination operand base
SP0 == 8192          \* 0x2000

W16(a, v) == <<[a |-> a, b |-> v % 256], [a |-> a + 1, b |-> (v \div 256) % 256]>>
RegsWith(f) == [i \in 1..16 |-> IF (i - 1) \in DOMAIN f THEN f[i - 1] ELSE (IF i = 2 THEN SP0 ELSE (i * 257) % 65536)]

\* source operand placement: returns [regs (function reg -> value), cells, ext (sequence of extension words)]
SrcPlace(sreg, as, bw, a) ==
  IF sreg = 3 \/ (sreg = 2 /\ as \in {2, 3}) THEN [regs |-> <<>>, cells |-> <<>>, ext |-> <<>>]
  ELSE IF as = 0 THEN [regs |-> (sreg :> a), cells |-> <<>>, ext |-> <<>>]
  ELSE IF as = 1 THEN
       (IF sreg = 2 THEN [regs |-> <<>>, cells |-> W16(SB + 4, a), ext |-> <<SB + 4>>]                    \* &abs
        ELSE IF sreg = 0 THEN [regs |-> <<>>, cells |-> W16(SB + 4, a), ext |-> <<(SB + 4 - (PC0 + 2) + 65536) % 65536>>]  \* symbolic
        ELSE [regs |-> (sreg :> SB), cells |-> W16(SB + 4, a), ext |-> <<4>>])
  ELSE IF sreg = 0 THEN [regs |-> <<>>, cells |-> <<>>, ext |-> <<a>>]                                    \* #imm = @PC+
  ELSE [regs |-> (sreg :> SB), cells |-> W16(SB, a), ext |-> <<>>]

DstPlace(dreg, ad, d, nsrcext) ==
  IF ad = 0 THEN [regs |-> (dreg :> d), cells |-> <<>>, ext |-> <<>>]
  ELSE IF dreg = 2 THEN [regs |-> <<>>, cells |-> W16(DB + 6, d), ext |-> <<DB + 6>>]
  ELSE IF dreg = 0 THEN [regs |-> <<>>, cells |-> W16(DB + 6, d),
                         ext |-> <<(DB + 6 - (PC0 + 2 + 2 * nsrcext) + 65536) % 65536>>]
  ELSE [regs |-> (dreg :> DB), cells |-> W16(DB + 6, d), ext |-> <<6>>]

RECURSIVE Words(_, _)
Words(a, ws) == IF ws = <<>> THEN <<>> ELSE W16(a, ws[1]) \o Words(a + 2, Tail(ws))

SrFor(cin, v) == cin * CF + v * VF

TwoCase(op, sreg, as, ad, bw, dreg, a, d, cin) ==
  LET sp == SrcPlace(sreg, as, bw, a)
      dp == DstPlace(dreg, ad, d, Len(sp.ext))
      w  == op * 4096 + sreg * 256 + ad * 128 + bw * 64 + as * 16 + dreg
      regs == (0 :> PC0) @@ (2 :> SrFor(cin, 0)) @@ dp.regs @@ sp.regs
  IN [reg |-> RegsWith(regs), set |-> Words(PC0, <<w>> \o sp.ext \o dp.ext) \o sp.cells \o dp.cells]

OneCase(op, as, bw, r, a, cin) ==
  LET sp == SrcPlace(r, as, bw, a)
      w  == 4096 + op * 128 + bw * 64 + as * 16 + r
      regs == (0 :> PC0) @@ (2 :> SrFor(cin, 0)) @@ sp.regs
  IN [reg |-> RegsWith(regs), set |-> Words(PC0, <<w>> \o sp.ext) \o sp.cells \o W16(SP0, 4660) \o W16(SP0 + 2, 22136)]

JumpCase(cond, off, sr) ==
  [reg |-> RegsWith((0 :> PC0) @@ (2 :> sr)), set |-> Words(PC0, <<8192 + cond * 1024 + off>>)]

\* source and destination in the same register: @Rn / @Rn+ as the source, Rn or 6(Rn) as the destination; the destination
\* is evaluated after the auto-increment of the source (SLAU144 3.3: the increment is part of the source fetch)
SameCase(op, r, as, ad, bw, a, d, cin) ==
  LET w == op * 4096 + r * 256 + ad * 128 + bw * 64 + as * 16 + r
      regs == (0 :> PC0) @@ (2 :> SrFor(cin, 0)) @@ (r :> SB)
  IN [reg |-> RegsWith(regs), set |-> Words(PC0, <<w>> \o (IF ad = 1 THEN <<6>> ELSE <<>>)) \o W16(SB, a) \o W16(SB + 6, d) \o W16(SB + 8, d)]

SrcRegs(as) == IF as = 0 THEN {3, 5, 15} ELSE IF as = 1 THEN {0, 2, 3, 5} ELSE {0, 2, 3, 5, 15}
DstRegs(ad) == IF ad = 0 THEN {6, 9} ELSE {0, 2, 6}

Init ==
  \/ \E op \in 4..15, as \in 0..3, ad \in 0..1, bw \in 0..1 :
       \E sreg \in SrcRegs(as), dreg \in DstRegs(ad), cin \in 0..1 :
         \E a \in (IF bw = 1 THEN ByteVals ELSE Vals), d \in (IF bw = 1 THEN ByteVals ELSE Vals) :
           /\ ~(sreg = 0 /\ as = 2)
           /\ c = TwoCase(op, sreg, as, ad, bw, dreg, a, d, cin)
  \/ \E op \in 4..15, as \in 2..3, ad \in 0..1, bw \in 0..1, r \in {1, 5, 15}, cin \in 0..1 :
       \E a \in (IF bw = 1 THEN ByteVals ELSE Vals), d \in {4660, 255} :
         c = SameCase(op, r, as, ad, bw, a, d, cin)
  \/ \E op \in 0..6, as \in 0..3, bw \in 0..1, r \in {0, 2, 3, 5, 15}, cin \in 0..1 :
       \E a \in (IF bw = 1 THEN ByteVals ELSE Vals) :
         /\ (r = 0 => as = 3) /\ (r = 2 => as \in {1, 2, 3})
         /\ (op \in {1, 3, 5, 6} => bw = 0) /\ (op = 6 => as = 0 /\ r = 5)
         /\ (op \in {0, 1, 2, 3} => ~(r = 0 \/ (r = 2 /\ as # 1) \/ r = 3))      \* no write to an immediate
         /\ c = OneCase(op, as, bw, IF op = 6 THEN 0 ELSE r, a, cin)
  \/ \E cond \in 0..7, off \in {0, 1, 2, 511, 512, 1022, 1023}, sr \in {0, 1, 2, 4, 256, 260, 7, 263} :
       c = JumpCase(cond, off, sr)
Next == FALSE /\ UNCHANGED c
Emit == PrintT("CASE " \o ToJson(c))
=============================================================================
