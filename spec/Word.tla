------------------------------- MODULE Word -------------------------------
(***************************************************************************)
(* Two's-complement machine words as little-endian tuples of byte values.  *)
(* TLC integers are 32 bit, so no value wider than 31 bits is ever a TLA+  *)
(* integer; a tuple of bytes is also exactly what the assembled image      *)
(* contains, so no conversion sits between the specification and the       *)
(* observation.                                                            *)
(***************************************************************************)
EXTENDS Integers, Sequences

LOCAL INSTANCE Bitwise
LOCAL INSTANCE TLC

Byte == 0..255

\* TLC keeps [i \in S |-> e] as an unevaluated closure; chains of such closures are
\* re-evaluated on every access.  WT forces a word into an explicit tuple.
WT(f) == f \o <<>>

\* TLC passes operator arguments lazily, so the accumulator of a tail-recursive
\* operator becomes a chain of thunks that is only evaluated (recursively, overflowing
\* the Java stack) at the very end.  An IF condition is strict: `IF Forced(x) THEN ..`
\* evaluates x before descending.
Forced(v) == v = v

RECURSIVE WFromNat(_, _)
WFromNat(n, v) == IF n = 0 THEN <<>> ELSE <<v % 256>> \o WFromNat(n - 1, v \div 256)

WZero(n) == WT([i \in 1..n |-> 0])
WOne(n)  == WT([i \in 1..n |-> IF i = 1 THEN 1 ELSE 0])
WOnes(n) == WT([i \in 1..n |-> 255])

\* small signed integer (|v| < 2^31) to an n-byte word
RECURSIVE WFromNegNat(_, _, _)
WFromNegNat(n, v, borrow) ==       \* encodes -(v) given v >= 0 : two's complement by limbs
  IF n = 0 THEN <<>>
  ELSE LET d == (256 - (v % 256) - borrow) IN
       <<d % 256>> \o WFromNegNat(n - 1, v \div 256, IF d = 256 THEN 0 ELSE 1)
WFromInt(n, v) == IF v >= 0 THEN WFromNat(n, v) ELSE WFromNegNat(n, -v, 0)

\* value of the low k limbs as a natural (k <= 3)
WLowNat(a, k) == IF k = 1 THEN a[1] ELSE IF k = 2 THEN a[1] + 256 * a[2]
                 ELSE a[1] + 256 * a[2] + 65536 * a[3]

RECURSIVE WAddC(_, _, _)
WAddC(a, b, c) == IF a = <<>> THEN <<>>
                  ELSE LET s == Head(a) + Head(b) + c
                       IN <<s % 256>> \o WAddC(Tail(a), Tail(b), s \div 256)

WNot(a)    == WT([i \in DOMAIN a |-> 255 - a[i]])
WAdd(a, b) == WAddC(a, b, 0)
WSub(a, b) == WAddC(a, WNot(b), 1)
WNeg(a)    == WAddC(WNot(a), WZero(Len(a)), 1)

WAnd(a, b) == WT([i \in DOMAIN a |-> a[i] & b[i]])
WOr(a, b)  == WT([i \in DOMAIN a |-> a[i] | b[i]])
WXor(a, b) == WT([i \in DOMAIN a |-> a[i] ^^ b[i]])

WIsZero(a) == \A i \in DOMAIN a : a[i] = 0
WIsNeg(a)  == a[Len(a)] >= 128

\* a * k for a byte k, truncated to Len(a)
RECURSIVE WMulByteC(_, _, _)
WMulByteC(a, k, c) == IF a = <<>> THEN <<>>
                      ELSE LET p == Head(a) * k + c
                           IN <<p % 256>> \o WMulByteC(Tail(a), k, p \div 256)

\* shift left by whole limbs, truncated
WShlLimbs(a, k) == WT([i \in DOMAIN a |-> IF i - k >= 1 THEN a[i - k] ELSE 0])
WShrLimbs(a, k, fill) == WT([i \in DOMAIN a |-> IF i + k <= Len(a) THEN a[i + k] ELSE fill])

RECURSIVE WMulAcc(_, _, _, _)
WMulAcc(a, b, i, acc) ==
  IF i > Len(b) THEN acc
  ELSE LET acc1 == IF b[i] = 0 THEN acc
                    ELSE WAdd(acc, WShlLimbs(WMulByteC(a, b[i], 0), i - 1))
       IN IF Forced(acc1) THEN WMulAcc(a, b, i + 1, acc1) ELSE <<>>
WMul(a, b) == WMulAcc(a, b, 1, WZero(Len(a)))

Pow2(k) == CASE k = 0 -> 1 [] k = 1 -> 2 [] k = 2 -> 4 [] k = 3 -> 8 [] k = 4 -> 16
             [] k = 5 -> 32 [] k = 6 -> 64 [] k = 7 -> 128 [] k = 8 -> 256

\* shift left by s bits, 0 <= s <= 7
WShlBits(a, s) == WT([i \in DOMAIN a |->
                     ((a[i] * Pow2(s)) % 256) + (IF i > 1 THEN a[i - 1] \div Pow2(8 - s) ELSE 0)])
\* shift right by s bits, 0 <= s <= 7, top limb filled from `fill` (0 or 255)
WShrBits(a, s, fill) == WT([i \in DOMAIN a |->
                     (a[i] \div Pow2(s)) +
                     (((IF i < Len(a) THEN a[i + 1] ELSE fill) * Pow2(8 - s)) % 256)])

\* shifts by a natural k < 8 * Len(a)
WShl(a, k)  == WShlBits(WShlLimbs(a, k \div 8), k % 8)
WShrL(a, k) == WShrBits(WShrLimbs(a, k \div 8, 0), k % 8, 0)
WShrA(a, k) == LET f == IF WIsNeg(a) THEN 255 ELSE 0
               IN WShrBits(WShrLimbs(a, k \div 8, f), k % 8, f)

\* unsigned compare, most significant limb first
RECURSIVE WLtUFrom(_, _, _)
WLtUFrom(a, b, i) == IF i = 0 THEN FALSE
                     ELSE IF a[i] # b[i] THEN a[i] < b[i]
                     ELSE WLtUFrom(a, b, i - 1)
WLtU(a, b) == WLtUFrom(a, b, Len(a))
WLtS(a, b) == IF WIsNeg(a) # WIsNeg(b) THEN WIsNeg(a) ELSE WLtU(a, b)

\* bit k (0 = least significant)
WBit(a, k) == (a[(k \div 8) + 1] \div Pow2(k % 8)) % 2

\* unsigned long division, one bit at a time: returns <<quotient, remainder>>
RECURSIVE WDivStep(_, _, _, _, _)
WDivStep(a, b, k, q, r) ==
  IF k < 0 THEN <<q, r>>
  ELSE LET r1 == [WShlBits(r, 1) EXCEPT ![1] = @ + WBit(a, k)]
           ge == ~WLtU(r1, b)
           r2 == IF ge THEN WSub(r1, b) ELSE r1
           q1 == IF ge THEN [q EXCEPT ![(k \div 8) + 1] = @ + Pow2(k % 8)] ELSE q
       IN IF Forced(q1) /\ Forced(r2) THEN WDivStep(a, b, k - 1, q1, r2) ELSE <<>>
WDivModU(a, b) == IF Forced(a) /\ Forced(b)
                  THEN WDivStep(a, b, 8 * Len(a) - 1, WZero(Len(a)), WZero(Len(a)))
                  ELSE <<>>

WAbs(a) == IF WIsNeg(a) THEN WNeg(a) ELSE a
WMinInt(n) == WT([i \in 1..n |-> IF i = n THEN 128 ELSE 0])

\* C semantics: truncation toward zero, remainder has the sign of the dividend.
\* Undefined (no value) when b = 0 or a = MinInt and b = -1.
WDivDefined(a, b) == ~WIsZero(b) /\ ~(a = WMinInt(Len(a)) /\ b = WOnes(Len(a)))
WDivS(a, b) == LET qr == WDivModU(WAbs(a), WAbs(b))
               IN IF WIsNeg(a) # WIsNeg(b) THEN WNeg(qr[1]) ELSE qr[1]
WModS(a, b) == LET qr == WDivModU(WAbs(a), WAbs(b))
               IN IF WIsNeg(a) THEN WNeg(qr[2]) ELSE qr[2]

\* value of a digit string in a base (digits most significant first), modulo 2^(8n)
RECURSIVE WFromDigits(_, _, _, _)
WFromDigits(n, base, ds, acc) ==
  IF ds = <<>> THEN acc
  ELSE LET acc1 == WAddC(WMulByteC(acc, base, 0), WFromNat(n, Head(ds)), 0)
       IN IF Forced(acc1) THEN WFromDigits(n, base, Tail(ds), acc1) ELSE <<>>

\* sign/zero extension and truncation
WTrunc(a, n) == SubSeq(a, 1, n)
WSext(a, n)  == WT([i \in 1..n |-> IF i <= Len(a) THEN a[i] ELSE IF WIsNeg(a) THEN 255 ELSE 0])
WZext(a, n)  == WT([i \in 1..n |-> IF i <= Len(a) THEN a[i] ELSE 0])

\* signed range test against small integer bounds lo <= a <= hi (|bounds| < 2^31)
WInRangeS(a, lo, hi) == LET n == Len(a) IN
                        ~WLtS(a, WFromInt(n, lo)) /\ ~WLtS(WFromInt(n, hi), a)
=============================================================================
