------------------------------- MODULE MCLink -------------------------------
(* The two passes of naken_asm over a program that calls imported code,    *)
(* one action per token / per linked function, checked against Link.tla    *)
(* for every scenario over a small universe.                               *)
EXTENDS Link
CONSTANTS Names,        \* function names that files may define
          Undef,        \* a name no file defines
          MaxCalls,     \* calls per function
          MaxRefs       \* references in the program
VARIABLES files, refs, pass, phase, ip, list, idx, addr, sym, img, err
vars == <<files, refs, pass, phase, ip, list, idx, addr, sym, img, err>>

Base == 4096
Callable == Names \cup {Undef}
\* calls of a function: up to MaxCalls distinct callees at words 0, 1, ..
CallSeqs == UNION {{s \in [1..n -> Callable] : \A i, j \in 1..n : i < j => s[i] # s[j]} : n \in 0..MaxCalls}
Fn(n, cs) == [name |-> n, size |-> Len(cs) + 2, tail |-> 0, calls |-> [c \in 1..Len(cs) |-> [at |-> c - 1, to |-> cs[c]]]]
\* arrangements of the defined functions: one archive member, or the first function in a .o and the rest in an archive
Arrange(fs) ==
  IF Len(fs) = 0 THEN {<<>>}
  ELSE {<<[kind |-> "a", members |-> <<fs>>]>>}
       \cup {<<[kind |-> "a", members |-> [m \in 1..Len(fs) |-> <<fs[m]>>]]>>}
       \cup (IF Len(fs) >= 2 THEN {<<[kind |-> "o", members |-> <<SubSeq(fs, 1, 1)>>],
                                     [kind |-> "a", members |-> <<SubSeq(fs, 2, Len(fs))>>]>>} ELSE {})
NameSeqs == {<<>>} \cup {s \in UNION {[1..n -> Names] : n \in 1..Cardinality(Names)} : \A i, j \in DOMAIN s : i < j => s[i] # s[j]}

Init ==
  /\ \E ns \in NameSeqs : \E cs \in [1..Len(ns) -> CallSeqs] :
       files \in Arrange([k \in 1..Len(ns) |-> Fn(ns[k], cs[k])])
  /\ \E n \in 0..MaxRefs : refs \in [1..n -> Callable]
  /\ pass = 1 /\ phase = "prog" /\ ip = 1 /\ list = <<>> /\ idx = 1
  /\ addr = Base /\ sym = <<>> /\ img = {} /\ err = FALSE

InList(n) == \E i \in 1..Len(list) : list[i] = n
\* Linker::search_code_from_symbol: 1 when the name is (now) in the list
Search(n, l) == IF \E i \in 1..Len(l) : l[i] = n THEN l ELSE IF n \in Defined(files) THEN Append(l, n) ELSE l
Found(n, l) == (\E i \in 1..Len(l) : l[i] = n) \/ n \in Defined(files)

\* tokens_get on the operand of `jal name`
ProgToken ==
  /\ phase = "prog" /\ ~err /\ ip <= Len(refs)
  /\ IF pass = 1
     THEN /\ list' = IF refs[ip] \in DOMAIN sym THEN list ELSE Search(refs[ip], list)
          /\ UNCHANGED err
     ELSE /\ err' = (refs[ip] \notin DOMAIN sym)          \* pass 2: an unknown symbol
          /\ UNCHANGED list
  /\ ip' = ip + 1
  /\ UNCHANGED <<files, refs, pass, phase, idx, addr, sym, img>>

ProgDone ==
  /\ phase = "prog" /\ ~err /\ ip > Len(refs)
  /\ phase' = "link" /\ idx' = 1 /\ addr' = ProgEnd(Base, refs)
  /\ UNCHANGED <<files, refs, pass, ip, list, sym, img, err>>

\* one iteration of the loop of AsmContext::link, link_function_mips included
RECURSIVE Scan(_, _, _)
Scan(f, w, l) == \* pass 1: the list after the calls of words w.. have been searched, or "missing"
  IF w >= f.size THEN [ok |-> TRUE, l |-> l]
  ELSE IF IsCallAt(f, w)
    THEN IF Found(CalleeAt(f, w), l)
         THEN LET l2 == Search(CalleeAt(f, w), l) IN IF Forced(l2) THEN Scan(f, w + 1, l2) ELSE [ok |-> FALSE, l |-> l]
         ELSE [ok |-> FALSE, l |-> l]
    ELSE Scan(f, w + 1, l)

LinkOne ==
  /\ phase = "link" /\ ~err /\ idx <= Len(list)
  /\ LET n == list[idx]
         f == Def(files, n).f IN
     IF pass = 1
     THEN LET r == Scan(f, 0, list) IN
          /\ sym' = IF n \in DOMAIN sym THEN sym ELSE sym @@ (n :> addr)     \* symbols.append
          /\ list' = r.l /\ err' = ~r.ok
          /\ UNCHANGED img
     ELSE /\ err' = \E w \in 0..(f.size - 1) : IsCallAt(f, w) /\ CalleeAt(f, w) \notin DOMAIN sym
          /\ img' = IF err' THEN img
                    ELSE img \cup {<<addr + 4 * w + b - 1, Bytes(LinkedWord(f, w, sym))[b]>> : w \in 0..(f.size - 1), b \in 1..4}
          /\ UNCHANGED <<sym, list>>
  /\ addr' = addr + 4 * Def(files, list[idx]).f.size
  /\ idx' = idx + 1
  /\ UNCHANGED <<files, refs, pass, phase, ip>>

LinkDone ==
  /\ phase = "link" /\ ~err /\ idx > Len(list)
  /\ IF pass = 1 THEN pass' = 2 /\ phase' = "prog" /\ ip' = 1 /\ addr' = Base
                 ELSE pass' = 2 /\ phase' = "done" /\ UNCHANGED <<ip, addr>>
  /\ UNCHANGED <<files, refs, list, idx, sym, img, err>>

Next == ProgToken \/ ProgDone \/ LinkOne \/ LinkDone
Spec == Init /\ [][Next]_vars

\* the program's own bytes are not modelled; img holds what link() placed
Finished == phase = "done" /\ ~err
Sound ==
  Finished =>
    LET need == Needed(files, refs) IN
    /\ Resolvable(files, refs)
    /\ \A n \in need : PlacedRight(files, n, sym, img)
    /\ NoOverlap(files, need, sym)
    /\ OnlyNeeded(files, need, sym, img, ProgEnd(Base, refs))
    /\ DOMAIN sym = need
\* an unresolved name is an error, and only that
ErrorIff == (err => ~Resolvable(files, refs)) /\ (Finished => Resolvable(files, refs))
=============================================================================
