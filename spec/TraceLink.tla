------------------------------ MODULE TraceLink ------------------------------
(* Acceptor for C20.  One line per run of the real naken_asm on a program    *)
(* and crafted .o/.a files:                                                  *)
(*  {"id","files","refs" (the scenario, as Link.tla reads it),"base","end"   *)
(*   (first address behind the program),"big" (byte order),"badfile" (one of *)
(*   the files is not an object file),"own" (names the program defines as    *)
(*   labels),"rc" (exit status),"out" (an output                             *)
(*   file was written),"file" (records of the .hex output),"syms" (symbol     *)
(*   table of the listing)}                                                  *)
EXTENDS Link, ObjFormats, Json, IOUtils
Tr == ndJsonDeserialize(IOEnv.TRACE)
VARIABLE l
TInit == l = 1
TNext == l <= Len(Tr) /\ l' = l + 1

ImgOf(e) == {<<c.h * 65536 + c.l, c.b>> : c \in HexDecode(e.file)}
SymOf(e) == [n \in {e.syms[i].n : i \in 1..Len(e.syms)} |-> (CHOOSE i \in 1..Len(e.syms) : e.syms[i].n = n) ]
SymVal(e) == LET ix == SymOf(e) IN [n \in DOMAIN ix |-> e.syms[ix[n]].v]
Rev(s) == [i \in 1..Len(s) |-> s[Len(s) + 1 - i]]
PlacedRightE(e, n, sym, img) ==
  LET f == Def(e.files, n).f IN
  /\ n \in DOMAIN sym
  /\ sym[n] % 4 = 0
  /\ \A w \in 0..(f.size - 1) : \A b \in 1..4 :
        <<sym[n] + 4 * w + b - 1, (IF e.big THEN Rev(Bytes(LinkedWord(f, w, sym))) ELSE Bytes(LinkedWord(f, w, sym)))[b]>> \in img

\* the [import] sections of the listing (-l): every byte of a placed function is shown, with its true value
\* (C18 for imported code).  e.claims: [a |-> address printed, b |-> bytes the opcode column stands for]
ClaimCells(e) == UNION {{<<e.claims[i].a + k - 1, e.claims[i].b[k]>> : k \in 1..Len(e.claims[i].b)} : i \in 1..Len(e.claims)}
ImportsListed(e, need, sym, img) ==
  LET cells == ClaimCells(e) IN
  /\ {c \in cells : c[1] >= e.end} \subseteq img
  /\ UNION {Span(sym[n], 4 * Def(e.files, n).f.size) : n \in need} \subseteq {c[1] : c \in cells}

Why(e) ==
  LET \* references to names the program defines itself (e.own) are not references to imported code
      ext == SelectSeq(e.refs, LAMBDA n : \A i \in 1..Len(e.own) : e.own[i] # n)
      need == Needed(e.files, ext)
      \* e.strip: functions whose code calls a static function of their object that the symbol table does not name any more
      \* (strip -x): the call cannot be bound to a symbol, the object is unsupported as soon as such a function is needed
      wanterr == e.badfile \/ ~Resolvable(e.files, ext) \/ (\E i \in 1..Len(e.strip) : e.strip[i] \in need) IN
  IF wanterr THEN (IF e.rc # 0 /\ ~e.out THEN <<>> ELSE <<"ErrorExpected">>)
  \* an object in a byte order the importer does not read is an unsupported file: a clean error is right
  ELSE IF e.big /\ e.rc # 0 /\ ~e.out THEN <<>>
  \* a program label with the name of an imported function: a duplicate-definition error is acceptable too
  ELSE IF e.own # <<>> /\ e.rc # 0 /\ ~e.out THEN <<>>
  ELSE IF e.rc # 0 \/ ~e.out THEN <<"UnexpectedError">>
  ELSE IF ~HexValid(e.file) THEN <<"skip:output file unreadable">>
  ELSE LET img == ImgOf(e)
           sym == SymVal(e) IN
    IF ~(need \subseteq DOMAIN sym) THEN <<"SymbolMissing">>
    ELSE
      (IF \A n \in need : PlacedRightE(e, n, sym, img) THEN <<>> ELSE <<"PlacedRight">>)
      \o (IF NoOverlap(e.files, need, sym) THEN <<>> ELSE <<"PlacedOnce">>)
      \o (IF OnlyNeeded(e.files, need, sym, img, e.end) THEN <<>> ELSE <<"OnlyNeeded">>)
      \o (IF ImportsListed(e, need, sym, img) THEN <<>> ELSE <<"ImportsListed">>)
      \o (IF ((DOMAIN sym) \cap Defined(e.files)) \ {e.own[i] : i \in 1..Len(e.own)} = need THEN <<>> ELSE <<"OnlyNeededSymbols">>)

Report ==
  IF l > Len(Tr) THEN PrintT("VERDICT " \o ToJson([done |-> Len(Tr)]))
  ELSE LET e == Tr[l] w == Why(e) IN
       w = <<>> \/ PrintT("VERDICT " \o ToJson([id |-> e.id, why |-> w]))
=============================================================================
