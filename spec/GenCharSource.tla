---------------------------- MODULE GenCharSource ----------------------------
(* Operation scripts for the conformance half: file content, then Get /      *)
(* Unget(c) / Push(text) operations within the discipline of the tokenizer   *)
(* (at most 2 characters pushed back per level before the next Get).         *)
EXTENDS CharSource, Json
CONSTANTS MaxOps
VARIABLES f, ops, lvl, ung
vars == <<f, ops, lvl, ung>>
Files == {<<>>, <<49>>, <<49, 50, 51, 10, 52>>}
Texts == {<<>>, <<97>>, <<97, 98>>, <<40, 97, 41>>, <<97, 32, 98, 10>>}
Chars == {120, 32, 10}
Op(k, c, t) == [k |-> k, c |-> c, t |-> t]
Init == f \in Files /\ ops = <<>> /\ lvl = 0 /\ ung = 0
Next == /\ Len(ops) < MaxOps
        /\ \/ ops' = Append(ops, Op("G", 0, <<>>)) /\ ung' = 0 /\ UNCHANGED <<f, lvl>>
           \/ ung < 2 /\ \E c \in Chars : ops' = Append(ops, Op("U", c, <<>>)) /\ ung' = ung + 1 /\ UNCHANGED <<f, lvl>>
           \/ lvl < 6 /\ \E t \in Texts : ops' = Append(ops, Op("P", 0, t)) /\ lvl' = lvl + 1 /\ ung' = 0 /\ UNCHANGED f
Spec == Init /\ [][Next]_vars
Emit == Len(ops) = MaxOps => PrintT("CASE " \o ToJson([file |-> f, ops |-> ops]))
=============================================================================
