SPECIFICATION Spec
CONSTANTS
  Names = {"f", "g", "h"}
  Undef = "u"
  MaxCalls = 2
  MaxRefs = 2
INVARIANTS Sound ErrorIff
CHECK_DEADLOCK FALSE
