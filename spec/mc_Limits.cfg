SPECIFICATION Spec
CONSTANTS
  Cap = 6
INVARIANTS NeverOverrun OverLimitIsError
