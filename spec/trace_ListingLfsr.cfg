INIT TInit
NEXT TNext
INVARIANT Report
