-------------------------------- MODULE Image --------------------------------
(***************************************************************************)
(* The memory image (core/Memory.cpp, core/MemoryPage.h): what every       *)
(* assembler, writer, loader, disassembler, listing and simulator reads    *)
(* and writes.  Properties C01 C03 C05 C08 C13 C18 C19 all observe it.     *)
(*                                                                         *)
(* Reference: a flat function from byte address to byte (0 where nothing   *)
(* was written), a per-byte line marker (-1 = DL_EMPTY), the lowest and    *)
(* highest address written, and per 64 KiB page the lowest / highest       *)
(* offset written since the last clear.  Multi-byte accesses are in the    *)
(* image's byte order and are nothing but their single-byte accesses, at   *)
(* any alignment and across any page boundary, whatever order the pages    *)
(* were created in.                                                        *)
(*                                                                         *)
(* Values of 16/32 bits are sequences of bytes, least significant first    *)
(* (TLC integers are 32-bit).  low = -1 stands for "nothing written"       *)
(* (0xffffffff in the code).                                               *)
(***************************************************************************)
EXTENDS Integers, Sequences, FiniteSets, TLC

Rd(f, a, dflt) == IF a \in DOMAIN f THEN f[a] ELSE dflt
Put(f, a, v) == [x \in (DOMAIN f) \cup {a} |-> IF x = a THEN v ELSE f[x]]
Min2(a, b) == IF a < b THEN a ELSE b
Max2(a, b) == IF a > b THEN a ELSE b

\* s = [b, d, low, high, pg, omin, omax]; PS = page size
S0 == [b |-> <<>>, d |-> <<>>, low |-> -1, high |-> 0, pg |-> {}, omin |-> <<>>, omax |-> <<>>]
PageOf(a, PS) == (a \div PS) * PS
Touch(s, a, PS) == LET p == PageOf(a, PS) IN
  IF p \in s.pg THEN s ELSE [s EXCEPT !.pg = @ \cup {p}, !.omin = Put(@, p, PS), !.omax = Put(@, p, 0)]
SetData(s, a, v, PS) == LET t == Touch(s, a, PS) p == PageOf(a, PS) IN
  [t EXCEPT !.b = Put(@, a, v), !.omin = Put(@, p, Min2(t.omin[p], a - p)), !.omax = Put(@, p, Max2(t.omax[p], a - p)),
            !.low = IF @ = -1 THEN a ELSE Min2(@, a), !.high = Max2(@, a)]
\* byte k (1-based, least significant first) of a w-byte value goes to offset:
Off(k, w, big) == IF big THEN w - k ELSE k - 1
RECURSIVE SetBytes(_, _, _, _, _, _)
\* the code writes the bytes in increasing address order
SetBytes(s, a, vb, w, big, PS) ==
  LET at == [i \in 0..(w - 1) |-> vb[IF big THEN w - i ELSE i + 1]]
      step[i \in 0..w] == IF i = 0 THEN s ELSE SetData(step[i - 1], a + i - 1, at[i - 1], PS)
  IN step[w]
SetDebug(s, a, line, PS) == [Touch(s, a, PS) EXCEPT !.d = Put(@, a, line)]
Clear(s, PS) == [s EXCEPT !.b = <<>>, !.omin = [p \in s.pg |-> PS], !.omax = [p \in s.pg |-> 0]]

\* op = [k, a, v (bytes, least significant first), line]
Apply(s, op, big, PS) ==
  CASE op.k = "w8"  -> SetData(s, op.a, op.v[1], PS)
    [] op.k = "w16" -> SetBytes(s, op.a, op.v, 2, big, PS)
    [] op.k = "w32" -> SetBytes(s, op.a, op.v, 4, big, PS)
    [] op.k = "w"   -> SetDebug(SetData(s, op.a, op.v[1], PS), op.a, op.line, PS)
    [] op.k = "wd"  -> SetDebug(s, op.a, op.line, PS)
    [] op.k = "clr" -> Clear(s, PS)
    \* low_address / high_address are public bookkeeping that the file loaders assign after loading (read_elf: the span of
    \* the executable sections); what is stored does not depend on them
    [] op.k = "lo"  -> [s EXCEPT !.low = op.a]
    [] op.k = "hi"  -> [s EXCEPT !.high = op.a]
    [] OTHER        -> s
\* what a read operation returns
ReadBytes(s, a, w, big) == [k \in 1..w |-> Rd(s.b, a + Off(k, w, big), 0)]
Expect(s, op, big, PS) ==
  CASE op.k = "r8"   -> ReadBytes(s, op.a, 1, big)
    [] op.k = "r16"  -> ReadBytes(s, op.a, 2, big)
    [] op.k = "r32"  -> ReadBytes(s, op.a, 4, big)
    [] op.k = "rd"   -> <<Rd(s.d, op.a, -1)>>
    [] op.k = "use"  -> <<IF PageOf(op.a, PS) \in s.pg THEN 1 ELSE 0>>
    [] op.k = "pmin" -> <<PageOf(op.a, PS) + s.omin[PageOf(op.a, PS)]>>
    [] op.k = "pmax" -> <<PageOf(op.a, PS) + s.omax[PageOf(op.a, PS)]>>
    [] OTHER         -> <<>>

\* replay a script against recorded observations obs[i] = [v, low, high]; 0 = all agree, else the first operation that differs
RECURSIVE Replay(_, _, _, _, _, _)
Replay(s, ops, obs, i, big, PS) ==
  IF i > Len(ops) THEN 0
  ELSE LET n == Apply(s, ops[i], big, PS) IN
       IF obs[i].v = Expect(s, ops[i], big, PS) /\ obs[i].low = n.low /\ obs[i].high = n.high
       THEN Replay(n, ops, obs, i + 1, big, PS) ELSE i
RECURSIVE After(_, _, _, _, _)
After(s, ops, i, big, PS) == IF i > Len(ops) THEN s ELSE After(Apply(s, ops[i], big, PS), ops, i + 1, big, PS)
=============================================================================
