------------------------------ MODULE GenMacro ------------------------------
(* Generator for C09: a fixed prelude of definitions followed by a random body *)
EXTENDS MacroExpand, Json
CONSTANT MaxLen
VARIABLES prog, n

P(v) == WFromInt(W, v)
Num(v) == [k |-> "num", v |-> P(v)]
Str(b) == [k |-> "str", b |-> b]
RawStr(b) == [k |-> "str", b |-> b, raw |-> TRUE]
Ref(x) == [k |-> "ref", n |-> x]
Par(i) == [k |-> "param", i |-> i]
Sum(a, b) == [k |-> "sum", a |-> a, b |-> b]
D(w, items) == [k |-> "data", w |-> w, z |-> FALSE, items |-> items]

Prelude == <<
  [k |-> "define", n |-> "KA", v |-> Num(5)],
  [k |-> "define", n |-> "KB", v |-> Num(300)],
  [k |-> "equ",    n |-> "EA", v |-> Num(4660)],
  [k |-> "define", n |-> "KC", v |-> Ref("KA")],
  [k |-> "macro", n |-> "m0", np |-> 0, body |-> <<D(1, <<Num(1), Num(2)>>)>>],
  [k |-> "macro", n |-> "m1", np |-> 1, body |-> <<D(1, <<Par(1)>>), D(2, <<Par(1)>>)>>],
  [k |-> "macro", n |-> "m2", np |-> 2, body |-> <<D(1, <<Par(1), Par(2)>>), D(4, <<Sum(Par(1), Par(2))>>)>>],
  [k |-> "macro", n |-> "mn", np |-> 1, body |-> <<[k |-> "invoke", n |-> "m1", args |-> <<Par(1)>>], D(1, <<Ref("KA")>>)>>],
  [k |-> "macro", n |-> "ms", np |-> 1, body |-> <<D(1, <<Par(1)>>)>>],
  [k |-> "macro", n |-> "m9", np |-> 9, body |-> <<D(1, <<Par(1), Par(2), Par(3), Par(4), Par(5), Par(6), Par(7), Par(8), Par(9)>>)>>],
  [k |-> "macro", n |-> "mr", np |-> 1, body |-> <<[k |-> "repeat", cnt |-> 2, body |-> <<D(1, <<Par(1)>>)>>]>>],
  \* macros whose arguments are whole statements (two words separated by a blank)
  [k |-> "macro", n |-> "mx", np |-> 1, body |-> <<[k |-> "pstmt", i |-> 1], [k |-> "pstmt", i |-> 1]>>],
  [k |-> "macro", n |-> "my", np |-> 2, body |-> <<[k |-> "pstmt", i |-> 2], [k |-> "pstmt", i |-> 1]>>],
  \* comment characters inside quoted strings of a macro body and of a define: a;b  a//b  x;y
  [k |-> "macro", n |-> "mq", np |-> 0, body |-> <<D(1, <<Str(<<97, 59, 98>>)>>), D(1, <<Str(<<97, 47, 47, 98>>), Num(3)>>)>>],
  [k |-> "define", n |-> "KS", v |-> Str(<<120, 59, 121>>)],
  \* strings that hold a tabulator or the byte 255 as they are (raw: not spelled with an escape): a<TAB>b, <255>A, x<TAB>y
  [k |-> "macro", n |-> "mt", np |-> 0, body |-> <<D(1, <<RawStr(<<97, 9, 98>>)>>), D(1, <<RawStr(<<255, 65>>), Num(3)>>)>>],
  [k |-> "define", n |-> "KT", v |-> RawStr(<<120, 9, 121>>)],
  \* numbers next to parameters in one body (the renderer may name the parameters h, b, q and spell the numbers 10h, 101b, 5q)
  [k |-> "macro", n |-> "mh", np |-> 3, body |-> <<D(1, <<Par(1), Num(16), Num(5), Par(2)>>), D(2, <<Num(300), Par(3), Num(7)>>)>>]
>>
StmtArg(st) == [k |-> "stmt", s |-> st]

Args1 == {Num(7), Num(255), Ref("KA"), Ref("KC"), Sum(Ref("KA"), Num(1)), Num(-1)}
Body ==
     {D(1, <<Ref("KA")>>), D(2, <<Ref("KB")>>), D(4, <<Ref("EA")>>), D(1, <<Sum(Ref("KA"), Num(3))>>), D(1, <<Num(9)>>),
      D(2, <<Ref("KB"), Ref("EA")>>), D(1, <<Ref("KB")>>)}
  \cup {[k |-> "invoke", n |-> "m0", args |-> <<>>], [k |-> "invoke", n |-> "mq", args |-> <<>>], D(1, <<Ref("KS")>>)}
  \cup {[k |-> "invoke", n |-> "mt", args |-> <<>>], D(1, <<Ref("KT")>>), [k |-> "invoke", n |-> "ms", args |-> <<RawStr(<<97, 9, 98>>)>>],
        [k |-> "invoke", n |-> "ms", args |-> <<RawStr(<<255, 66>>)>>]}
  \cup {[k |-> "invoke", n |-> "mh", args |-> <<a, Num(2), Num(9)>>] : a \in {Num(1), Ref("KA")}}
  \cup {[k |-> "invoke", n |-> "m1", args |-> <<a>>] : a \in Args1}
  \cup {[k |-> "invoke", n |-> "mn", args |-> <<a>>] : a \in Args1}
  \cup {[k |-> "invoke", n |-> "mr", args |-> <<a>>] : a \in {Num(7), Ref("KA")}}
  \cup {[k |-> "invoke", n |-> "m2", args |-> <<a, b>>] : a \in {Num(1), Ref("KA")}, b \in {Num(2), Ref("KC"), Num(250)}}
  \cup {[k |-> "invoke", n |-> "ms", args |-> <<Str(b)>>] : b \in {<<72, 105>>, <<97, 44, 32, 98>>, <<40, 120, 41>>}}
  \cup {[k |-> "invoke", n |-> "m9", args |-> <<Num(1), Num(2), Num(3), Num(4), Num(5), Num(6), Num(7), Num(8), Num(9)>>]}
  \cup {[k |-> "invoke", n |-> "mx", args |-> <<StmtArg(D(1, <<Num(7)>>))>>], [k |-> "invoke", n |-> "mx", args |-> <<StmtArg(D(2, <<Ref("KB")>>))>>],
        [k |-> "invoke", n |-> "my", args |-> <<StmtArg(D(1, <<Num(1)>>)), StmtArg(D(4, <<Sum(Ref("KA"), Num(2))>>))>>]}
  \cup {[k |-> "repeat", cnt |-> c, body |-> <<D(1, <<Num(170)>>)>>] : c \in {1, 2, 3, 255}}
  \cup {[k |-> "repeat", cnt |-> 2, body |-> <<D(2, <<Ref("KB")>>), [k |-> "invoke", n |-> "m0", args |-> <<>>]>>]}
  \cup {[k |-> "label", n |-> x] : x \in {"la", "lb"}}
  \cup {[k |-> "org", a |-> a] : a \in {16, 4096}}
  \cup {[k |-> "define", n |-> "KD", v |-> Num(77)], D(1, <<Ref("KD")>>)}

\* instruction lines, which the model does not interpret (the renderer puts a CPU's instruction texts in their place):
\* Expand passes them through, so the program and its expansion must assemble to one image on every CPU
\* (no .repeat shape: the property makes .repeat copy the bytes of its body, which for an instruction that encodes its
\* own address is not what assembling the line a second time gives)
Ln(i) == [k |-> "line", i |-> i]
Wm(body) == [k |-> "macro", n |-> "wrapm", np |-> 0, body |-> body]
Wi == [k |-> "invoke", n |-> "wrapm", args |-> <<>>]
WrapProgs == {<<Wm(<<Ln(1)>>), Wi>>,
              <<Wm(<<Ln(1), Ln(2)>>), Wi, Wi>>,
              <<Ln(2), Wm(<<Ln(1)>>), Wi, Ln(2), Wi>>,
              <<[k |-> "macro", n |-> "wrapp", np |-> 1, body |-> <<[k |-> "pstmt", i |-> 1]>>],
                [k |-> "invoke", n |-> "wrapp", args |-> <<StmtArg(Ln(1))>>]>>}
\* macros of many parameters, each using one of them: the stored text marks a parameter with its number, which is a
\* byte like any other of the text (59 is ';', 34 '"', 39 a tick, 47 '/', 10 a line feed, 13, 32, 92 ...)
WideProgs == {<<[k |-> "macro", n |-> "widem", np |-> np, body |-> <<D(1, <<Par(i)>>), D(1, <<Num(7)>>)>>],
                [k |-> "invoke", n |-> "widem", args |-> [j \in 1..np |-> Num(j)] \o <<>>]>> :
                np \in {60, 100}, i \in 1..100} \ {x \in {<<>>} : TRUE}
WideOk(w) == w[1].body[1].items[1].i <= w[1].np
EmitWide == (Len(prog) = Len(Prelude)) => PrintT("WIDE " \o ToJson({w \in WideProgs : WideOk(w)}))
EmitWrap == (Len(prog) = Len(Prelude)) => PrintT("WRAP " \o ToJson({[p |-> w, x |-> Expand(w)] : w \in WrapProgs}))
Init == prog = Prelude /\ n \in 1..MaxLen
NextR == Len(prog) < Len(Prelude) + n /\ prog' = Append(prog, RandomElement(Body)) /\ UNCHANGED n
SpecR == Init /\ [][NextR]_<<prog, n>>
Next == Len(prog) < Len(Prelude) + n /\ \E s \in Body : prog' = Append(prog, s) /\ UNCHANGED n
Spec == Init /\ [][Next]_<<prog, n>>
Emit == Len(prog) = Len(Prelude) + n => PrintT("CASE " \o ToJson(prog))
=============================================================================
