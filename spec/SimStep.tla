------------------------------- MODULE SimStep -------------------------------
(***************************************************************************)
(* One step of any of the simulators (simulate/*.cpp) as property C15 sees *)
(* it: a total, deterministic function of the prepared state.              *)
(*                                                                         *)
(*   Step : State -> [result : {"executed", "illegal"}, state : State]     *)
(*                                                                         *)
(* A state is opaque here (registers, flags, memory, cycle counter); the   *)
(* harness observes it as a digest of the register dump text, the named    *)
(* registers and the bytes that differ from the prepared memory.  Two      *)
(* executions from the same prepared state are two applications of Step,   *)
(* so they must agree; a run that does not return (signal, sanitizer       *)
(* report, timeout) is not a value of Step at all.                         *)
(***************************************************************************)
EXTENDS Integers, Sequences, TLC

Results == {0, -1, -2}      \* Simulate::run(): 0 executed, -1 illegal instruction, -2 break (riscv ebreak/ecall)

\* e = [id, cpu, a, b] with a, b = [ret, digest]
Returns(e)       == e.a.ret \in Results /\ e.b.ret \in Results
\* a and b are two executions of the same step: from two fresh simulator objects, or (history cases) a in an object
\* that executed another instruction before and was then put back into the prepared state, b in a fresh one.  pre = digest
\* of the register dump before the step: the two must start from the same state for the clause to say anything
SameStart(e) == ("pre" \notin DOMAIN e.a) \/ e.a.pre = e.b.pre
Deterministic(e) == SameStart(e) => (e.a.ret = e.b.ret /\ e.a.digest = e.b.digest)
\* e.space = size of the simulated address space in bytes (0 when the architecture's space is
\* not stated here); e.top = highest 64 KiB page the simulator's memory object had to allocate
Inside(e) == e.space = 0 \/ e.top < e.space
StepOk(e) == Returns(e) /\ Deterministic(e) /\ Inside(e)
Why(e) == IF ~Returns(e) THEN "result is neither executed, illegal nor break"
          ELSE IF ~Deterministic(e) THEN "two runs from the same state differ"
          ELSE "memory outside the simulated address space was written"
=============================================================================
