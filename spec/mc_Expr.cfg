SPECIFICATION Spec
CONSTANTS
  W = 1
  MaxOps = 4
  MaxParOps = 3
  MaxLadder = 6
  MaxUnOps = 2
  Tuples <- MCTuples
INVARIANTS Agreement DevIsNamed Bounded
