SPECIFICATION Spec
CONSTANTS
  W = 1
  MaxOps = 4
  MaxParOps = 3
  MaxUnOps = 2
  Tuples <- MCTuples
INVARIANTS Agreement DevIsNamed Bounded
