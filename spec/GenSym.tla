------------------------------- MODULE GenSym -------------------------------
EXTENDS SymResolve, Json
CONSTANT MaxLen
VARIABLE prog
Alphabet == {[k |-> "label", n |-> "a"], [k |-> "label", n |-> "b"], [k |-> "use", n |-> "a"], [k |-> "use", n |-> "b"],
             [k |-> "scope"], [k |-> "ends"], [k |-> "func", n |-> "f"], [k |-> "endf"],
             [k |-> "set", n |-> "s", v |-> 5], [k |-> "set", n |-> "s", v |-> 9], [k |-> "use", n |-> "s"],
             [k |-> "export", n |-> "a"], [k |-> "use", n |-> "f"]}
Init == prog = <<>>
Next == Len(prog) < MaxLen /\ \E s \in Alphabet : prog' = Append(prog, s)
Spec == Init /\ [][Next]_prog
Emit == prog = <<>> \/ PrintT("CASE " \o ToJson(prog))
=============================================================================
