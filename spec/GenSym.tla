------------------------------- MODULE GenSym -------------------------------
EXTENDS SymResolve, Json
CONSTANTS MaxLen, MaxDeep
VARIABLE prog
Alphabet == {[k |-> "label", n |-> "a"], [k |-> "label", n |-> "b"], [k |-> "use", n |-> "a"], [k |-> "use", n |-> "b"],
             [k |-> "scope"], [k |-> "ends"], [k |-> "func", n |-> "f"], [k |-> "endf"],
             [k |-> "set", n |-> "s", v |-> 5], [k |-> "set", n |-> "s", v |-> 9], [k |-> "use", n |-> "s"],
             [k |-> "export", n |-> "a"], [k |-> "use", n |-> "f"]}
\* deeper programs with one block: [global a] block-open, 2..4 statements, block-close, [use a | label a]
Inner == {[k |-> "label", n |-> "a"], [k |-> "label", n |-> "b"], [k |-> "set", n |-> "s", v |-> 5],
          [k |-> "use", n |-> "a"], [k |-> "use", n |-> "b"], [k |-> "use", n |-> "s"]}
DeepProgs == {pre \o <<op[1]>> \o mid \o <<op[2]>> \o post :
                pre \in {<<>>, <<[k |-> "label", n |-> "a"]>>},
                op \in {<<[k |-> "scope"], [k |-> "ends"]>>, <<[k |-> "func", n |-> "f"], [k |-> "endf"]>>},
                mid \in UNION {[1..n -> Inner] : n \in 2..MaxDeep},
                post \in {<<>>, <<[k |-> "use", n |-> "a"]>>, <<[k |-> "label", n |-> "a"]>>}}
\* programs that export two or three symbols, in every order of definitions and exports
ExpStmts2 == {[k |-> "label", n |-> "a"], [k |-> "label", n |-> "b"], [k |-> "export", n |-> "a"], [k |-> "export", n |-> "b"]}
ExpStmts3 == ExpStmts2 \cup {[k |-> "label", n |-> "c"], [k |-> "export", n |-> "c"]}
Perms(S, n) == {p \in [1..n -> S] : \A i, j \in 1..n : i < j => p[i] # p[j]}
ExportProgs == Perms(ExpStmts2, 4) \cup {p \in Perms(ExpStmts3, 6) : p[1].k = "label"}
\* two blocks, each with a label of its own and a use of it, with and without a global label of the first block's name:
\* rendered with names of very different lengths behind fillers that end at a pool boundary, the symbol table stores the
\* second block's label in front of the first block's (first fit): its order is not the order of definition
Lb(x) == [k |-> "label", n |-> x]
Us(x) == [k |-> "use", n |-> x]
Blk(op, x) == <<op[1], Lb(x), Us(x), op[2]>>
Ops == {<<[k |-> "scope"], [k |-> "ends"]>>, <<[k |-> "func", n |-> "f"], [k |-> "endf"]>>}
PoolProgs == {pre \o Blk(o1, "a") \o Blk(<<[k |-> "scope"], [k |-> "ends"]>>, "b") \o post :
                pre \in {<<>>, <<Lb("a")>>}, o1 \in Ops, post \in {<<>>, <<Us("a")>>}}
             \cup {pre \o <<o1[1], Us("a"), Lb("a"), o1[2]>> \o Blk(<<[k |-> "scope"], [k |-> "ends"]>>, "b") : pre \in {<<>>, <<Lb("a")>>}, o1 \in Ops}
EmitPool == (prog = <<>>) => PrintT("POOL " \o ToJson(PoolProgs))
Init == prog = <<>> \/ (MaxDeep > 0 /\ prog \in DeepProgs \cup ExportProgs)
Next == Len(prog) < MaxLen /\ (prog = <<>> \/ prog \notin DeepProgs \cup ExportProgs) /\ \E s \in Alphabet : prog' = Append(prog, s)
Spec == Init /\ [][Next]_prog
\* the same program with statements i..j-1 moved into an include file (the empty cut i = j is an empty file): .include is
\* textual, so SymResolve!RefRun of the program is also the reference of every cut; a cut holds no block statement
IsBlockStmt(s) == s.k \in {"scope", "ends", "func", "endf"}
Cuts(p) == {c \in (1..Len(p) + 1) \X (1..Len(p) + 1) : c[1] <= c[2] /\ \A k \in c[1]..(c[2] - 1) : ~IsBlockStmt(p[k])}
EmitInc == prog \in DeepProgs => PrintT("INC " \o ToJson([prog |-> prog, cuts |-> Cuts(prog)]))
Emit == prog = <<>> \/ (PrintT("CASE " \o ToJson(prog)) /\ (MaxDeep = 0 \/ EmitInc))
=============================================================================
