---------------------------- MODULE GenMsp430Run ----------------------------
(* Routines for the second half of C14: a counted loop with a two-instruction *)
(* body, an optional call of a subroutine, an optional store to the -break_io *)
(* address inside the loop or behind it, a final ret.  The words are built    *)
(* here from the SLAU144 formats (no assembler involved).                     *)
EXTENDS Integers, Sequences, TLC, Json
VARIABLE c
Org == 63488                    \* 0xf800
Bio == 496                      \* 0x01f0
Two(op, sreg, as, ad, bw, dreg) == op * 4096 + sreg * 256 + ad * 128 + bw * 64 + as * 16 + dreg
One(op, as, bw, r) == 4096 + op * 128 + bw * 64 + as * 16 + r
MovImm(v, r) == <<Two(4, 0, 3, 0, 0, r), v>>
\* loop body operations on r6 (r5 is the counter)
Body == [addr56  |-> <<Two(5, 5, 0, 0, 0, 6)>>,        \* add r5, r6
         rla6    |-> <<Two(5, 6, 0, 0, 0, 6)>>,        \* add r6, r6
         inv6    |-> <<Two(14, 3, 3, 0, 0, 6)>>,       \* xor #-1, r6
         swpb6   |-> <<One(1, 0, 0, 6)>>,
         rra6    |-> <<One(2, 0, 0, 6)>>,
         rrc6    |-> <<One(0, 0, 0, 6)>>,
         pushpop |-> <<One(4, 0, 0, 6), Two(4, 1, 3, 0, 0, 7)>>,      \* push r6 ; mov @sp+, r7
         stb     |-> <<Two(4, 6, 0, 1, 1, 2), 512>>,   \* mov.b r6, &0x0200
         ldw     |-> <<Two(5, 2, 1, 0, 0, 6), 512>>,   \* add &0x0200, r6
         addc56  |-> <<Two(6, 5, 0, 0, 0, 6)>>,
         subb    |-> <<Two(8, 3, 2, 0, 1, 6)>>,        \* sub.b #2, r6
         and6    |-> <<Two(15, 0, 3, 0, 0, 6), 3855>>, \* and #0x0f0f, r6
         sxt6    |-> <<One(3, 0, 0, 6)>>,
         sti     |-> <<Two(4, 6, 0, 1, 0, 4), 768>>]   \* mov r6, 0x300(r4)
StoreBio == <<Two(4, 6, 0, 1, 1, 2), Bio>>            \* mov.b r6, &0x01f0
Ret == <<16688>>
Sub1 == MovImm(4660, 7) \o Ret
Sub2 == <<One(4, 0, 0, 6), Two(4, 1, 3, 0, 0, 8)>> \o Ret          \* push r6 ; pop r8 ; ret

Routine(n, v, b1, b2, call, bio) ==
  LET pro   == (IF n \in {1, 2} THEN <<Two(4, 3, n, 0, 0, 5)>> ELSE MovImm(n, 5)) \o MovImm(v, 6)
      body  == (IF bio = 1 THEN StoreBio ELSE <<>>) \o Body[b1] \o Body[b2] \o <<Two(8, 3, 1, 0, 0, 5)>>    \* sub #1, r5
      back  == -(Len(body) + 1)                               \* words from behind the jump back to the loop start
      loop  == body \o <<8192 + 0 * 1024 + ((back + 1024) % 1024)>>          \* jne
      after == (IF bio = 2 THEN StoreBio ELSE <<>>) \o Ret
      main0 == pro \o loop
      subat == Org + 2 * (Len(main0) + (IF call > 0 THEN 2 ELSE 0) + Len(after))
      main  == main0 \o (IF call > 0 THEN <<One(5, 3, 0, 0), subat>> ELSE <<>>) \o after        \* call #sub
  IN main \o (IF call = 1 THEN Sub1 ELSE IF call = 2 THEN Sub2 ELSE <<>>)

-----------------------------------------------------------------------------
(* Second family: one instruction under test between a fixed prologue and   *)
(* the final ret, once for every cell of SLAU144 tables 3-15 and 3-16.      *)
(*   prologue: mov #0x0300, r4 ; mov #V, r6     (4 words, instruction at    *)
(*   Org + 8); data words at 0x0300: T, 0x0302, 0x1234, 0x5678              *)
(* T (and V when the source is r6) is the address execution has to continue *)
(* at when the destination is PC or the instruction is a call: the final    *)
(* ret, or the one-word subroutine `ret` behind it.                         *)
Tab == 768
\* source operand: [as, reg, ext]
SrcM == [rn |-> [as |-> 0, r |-> 6, ext |-> <<>>], idx |-> [as |-> 1, r |-> 4, ext |-> <<0>>],
         abs |-> [as |-> 1, r |-> 2, ext |-> <<Tab>>], ind |-> [as |-> 2, r |-> 4, ext |-> <<>>],
         inc |-> [as |-> 3, r |-> 4, ext |-> <<>>], imm |-> [as |-> 3, r |-> 0, ext |-> <<0>>],      \* immediate filled in below
         cg |-> [as |-> 1, r |-> 3, ext |-> <<>>]]
DstM == [rm |-> [ad |-> 0, r |-> 7, ext |-> <<>>], idx |-> [ad |-> 1, r |-> 4, ext |-> <<4>>],
         abs |-> [ad |-> 1, r |-> 2, ext |-> <<Tab + 6>>], pc |-> [ad |-> 0, r |-> 0, ext |-> <<>>]]
Single(kind, op, sm, dm, bio) ==
  LET s  == SrcM[sm]
      d  == IF kind = "two" THEN DstM[dm] ELSE [ad |-> 0, r |-> 0, ext |-> <<>>]
      n  == 1 + Len(s.ext) + Len(d.ext)                              \* words of the instruction under test
      after == Org + 8 + 2 * n                                       \* the final ret
      subr  == after + 2                                             \* the subroutine `ret`
      goal  == IF kind = "one" /\ op = 5 THEN subr ELSE after          \* where a loaded PC has to point
      ext1  == IF sm = "imm" THEN <<goal>> ELSE s.ext
      w     == IF kind = "two" THEN Two(op, s.r, s.as, d.ad, 0, d.r) ELSE One(op, s.as, 0, s.r)
  IN [words |-> MovImm(Tab, 4) \o MovImm(goal, 6) \o <<w>> \o ext1 \o d.ext \o Ret \o Ret,
      data  |-> <<goal, Tab + 2, 4660, 22136>>,
      bio   |-> bio,
      what  |-> <<kind, op, sm, dm>>]
Singles ==
  {Single("two", op, sm, dm, -1) : op \in {4, 5}, sm \in DOMAIN SrcM, dm \in {"rm", "idx", "abs"}}
  \cup {Single("two", 4, sm, "pc", -1) : sm \in {"rn", "idx", "abs", "ind", "inc", "imm"}}        \* br src
  \cup {Single("one", op, sm, "rm", -1) : op \in {0, 1, 2, 3}, sm \in {"rn", "idx", "abs", "ind", "inc"}}
  \cup {Single("one", 4, sm, "rm", -1) : sm \in DOMAIN SrcM}                                      \* push
  \cup {Single("one", 5, sm, "rm", -1) : sm \in {"rn", "idx", "abs", "ind", "inc", "imm"}}        \* call
\* a byte and a word store to the break_io address (r6 holds a value whose low byte is not 0)
BioStores == {[words |-> MovImm(Tab, 4) \o MovImm(4660, 6) \o <<Two(4, 6, 0, 1, bw, 2), Bio>> \o Ret,
               data |-> <<0, 0, 0, 0>>, bio |-> Bio, what |-> <<"bio", bw, "", "">>] : bw \in {0, 1}}

Init == (\E x \in Singles \cup BioStores : c = x) \/ \E n \in {1, 2, 3}, v \in {255, 32767, 32769}, b1 \in DOMAIN Body, b2 \in DOMAIN Body, call \in 0..2, bio \in 0..2 :
          c = [words |-> Routine(n, v, b1, b2, call, bio), data |-> <<0, 0, 0, 0>>, bio |-> IF bio = 0 THEN -1 ELSE Bio,
               what |-> <<n, v, b1, b2, call, bio>>]
Next == FALSE /\ UNCHANGED c
Emit == PrintT("CASE " \o ToJson(c))
=============================================================================
