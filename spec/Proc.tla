-------------------------------- MODULE Proc --------------------------------
(***************************************************************************)
(* The naken_asm process (main/naken_asm.cpp) as far as property C12 is    *)
(* concerned: diagnostics, exit status and the output file.                *)
(*                                                                         *)
(*  phase   "args" -> "pass1" -> "pass2" -> "write" -> "done"              *)
(*  errs    number of error diagnostics printed so far                     *)
(*  file    "absent" | "stale" (left by an earlier run) | "complete"       *)
(*  status  exit status once done                                          *)
(*  bad     the source contains a statement that cannot be assembled       *)
(*                                                                         *)
(* A behaviour of this machine is what C12 allows; an observed run is      *)
(* accepted iff its observation (errs, status, file) is the final state of *)
(* some behaviour with the same `bad` and the same initial file state.     *)
(***************************************************************************)
EXTENDS Integers, Sequences, TLC

VARIABLES phase, errs, file, status, bad
vars == <<phase, errs, file, status, bad>>

MaxErrs == 3      \* diagnostics are counted up to "several"

Init == /\ phase = "args" /\ errs = 0 /\ status = -1
        /\ file \in {"absent", "stale"}
        /\ bad \in BOOLEAN

\* command line accepted, source opened
Begin == phase = "args" /\ phase' = "pass1" /\ UNCHANGED <<errs, file, status, bad>>

\* an erroneous statement is reported, in whichever pass it is noticed
Diag(p) == /\ phase = p /\ bad /\ errs < MaxErrs
           /\ errs' = errs + 1
           /\ UNCHANGED <<phase, file, status, bad>>

\* pass 1 ends: with errors the process bails out and removes the output path
EndPass1 == /\ phase = "pass1"
            /\ IF errs > 0
               THEN phase' = "done" /\ status' = 1 /\ file' = "absent"
               ELSE phase' = "pass2" /\ UNCHANGED <<status, file>>
            /\ (bad /\ errs = 0 => TRUE)     \* an error may only be noticed in pass 2
            /\ UNCHANGED <<errs, bad>>

EndPass2 == /\ phase = "pass2"
            /\ IF errs > 0
               THEN phase' = "done" /\ status' = 1 /\ file' = "absent"
               ELSE /\ ~bad                  \* never skipped silently
                    /\ phase' = "write" /\ UNCHANGED <<status, file>>
            /\ UNCHANGED <<errs, bad>>

WriteOut == /\ phase = "write" /\ errs = 0
            /\ file' = "complete" /\ phase' = "done" /\ status' = 0
            /\ UNCHANGED <<errs, bad>>

Next == Begin \/ Diag("pass1") \/ Diag("pass2") \/ EndPass1 \/ EndPass2 \/ WriteOut
Spec == Init /\ [][Next]_vars

Done == phase = "done"

\* C12, first sentence
Atomic == Done => /\ (status = 0 <=> (errs = 0 /\ file = "complete"))
                  /\ (status # 0 => file = "absent")
\* C12, second sentence
NeverSilent == Done /\ bad => status # 0 /\ errs > 0
TypeOK == /\ phase \in {"args", "pass1", "pass2", "write", "done"}
          /\ errs \in 0..MaxErrs /\ status \in {-1, 0, 1}
          /\ file \in {"absent", "stale", "complete"}

\* ---- acceptance of one observed run -----------------------------------------
\* obs = [status, errs (capped at MaxErrs), file]; the final states of Proc are
\* exactly (bad, status 1, errs >= 1, absent) and (~bad, status 0, errs 0, complete)
Accepts(isbad, obs) ==
  IF isbad THEN obs.status = 1 /\ obs.errs >= 1 /\ obs.file = "absent"
  ELSE obs.status = 0 /\ obs.errs = 0 /\ obs.file = "complete"

Why(isbad, obs) ==
  IF obs.status \notin {0, 1} THEN "terminated abnormally"
  ELSE IF isbad /\ obs.status = 0 THEN
       (IF obs.errs = 0 THEN "erroneous statement skipped silently: exit 0 without diagnostic"
        ELSE "error diagnostic printed but exit status 0")
  ELSE IF isbad /\ obs.file # "absent" THEN "exit status 1 but a file is left at the output path: " \o obs.file
  ELSE IF isbad /\ obs.errs = 0 THEN "exit status 1 without any diagnostic"
  ELSE IF ~isbad /\ obs.status # 0 THEN "valid program rejected"
  ELSE IF ~isbad /\ obs.errs # 0 THEN "diagnostic on a valid program"
  ELSE "output file not complete: " \o obs.file
=============================================================================
