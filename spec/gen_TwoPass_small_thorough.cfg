SPECIFICATION Spec
CONSTANTS
  MaxLen = 5
  Alpha = "small"
INVARIANT Emit
