------------------------------- MODULE Tiling -------------------------------
(***************************************************************************)
(* Disassembling an address range (second sentence of C08): every unit of  *)
(* the range is printed exactly once in increasing order and the walk      *)
(* reaches the end of the range, whatever the bytes are.                   *)
(*                                                                         *)
(* Addresses here are byte addresses; `unit` is the CPU's bytes per        *)
(* address; DL[a] is the length (bytes) the single-instruction decoder     *)
(* returns at byte address a.                                              *)
(*                                                                         *)
(* The walk of disasm_range_<cpu>() is                                     *)
(*     while (start <= end) { count = disasm(start); print start; ...;     *)
(*                            start += count; }                            *)
(* An address line of the output either starts the next instruction, at    *)
(* exactly the address where the previous one ended, or is a continuation  *)
(* line showing further words of the current instruction (an address       *)
(* strictly inside it, increasing).                                        *)
(***************************************************************************)
EXTENDS Integers, Sequences, FiniteSets, TLC

Forced(v) == v = v

\* state of the acceptor: next = byte address where the next instruction must start,
\* cur = start of the current instruction, last = last address line seen
W0(low) == [next |-> low, cur |-> low - 1, last |-> low - 1, ok |-> TRUE, why |-> ""]

StepLine(w, a, DL, unit, high) ==
  IF ~w.ok THEN w
  ELSE IF a = w.next /\ a <= high
    THEN (IF a \in DOMAIN DL /\ DL[a] >= unit /\ DL[a] % unit = 0
          THEN [w EXCEPT !.cur = a, !.last = a, !.next = a + DL[a]]
          ELSE [w EXCEPT !.ok = FALSE, !.why = "the decoder's length is not a positive number of units"])
  ELSE IF a > w.last /\ a > w.cur /\ a < w.next
    THEN [w EXCEPT !.last = a]                                        \* continuation line
  ELSE IF a <= w.last THEN [w EXCEPT !.ok = FALSE, !.why = "an address is printed again or out of order"]
  ELSE IF a > w.next THEN [w EXCEPT !.ok = FALSE, !.why = "units are skipped"]
  ELSE [w EXCEPT !.ok = FALSE, !.why = "the walk goes on beyond the end of the range"]

RECURSIVE WalkLines(_, _, _, _, _, _)
WalkLines(w, lines, i, DL, unit, high) ==
  IF i > Len(lines) THEN w
  ELSE LET w2 == StepLine(w, lines[i] * unit, DL, unit, high) IN
       IF Forced(w2) THEN WalkLines(w2, lines, i + 1, DL, unit, high) ELSE w2

\* lines: the address column of the output, in output order, in address units
TilingWhy(lines, DL, unit, low, high) ==
  LET w == WalkLines(W0(low), lines, 1, DL, unit, high) IN
  IF ~w.ok THEN w.why
  ELSE IF w.next <= high THEN "the walk stops before the end of the range"
  ELSE ""

-----------------------------------------------------------------------------
(* The loop itself, for model checking: for every decoder-length function  *)
(* over a small range the loop's output is accepted, and the units it      *)
(* covers are exactly the range (up to the overhang of the last            *)
(* instruction).                                                           *)
RECURSIVE Loop(_, _, _, _)
Loop(start, high, DL, out) == IF start > high THEN out ELSE Loop(start + DL[start], high, DL, Append(out, start))
Covered(starts, DL) == UNION {s..(s + DL[s] - 1) : s \in {starts[i] : i \in 1..Len(starts)}}
=============================================================================
