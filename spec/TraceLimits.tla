----------------------------- MODULE TraceLimits -----------------------------
EXTENDS Integers, Sequences, TLC, Json, IOUtils
\* only the acceptance part of Limits (no variables of the resource machine are needed here)
Terminated(e) == ~e.obs.died
StatusOk(e)   == e.obs.status \in {0, 1}
Diagnosed(e)  == e.obs.status = 1 => e.obs.diag >= 1
RunOk(e) == Terminated(e) /\ StatusOk(e) /\ Diagnosed(e)
RunWhy(e) == IF ~Terminated(e) THEN "died" ELSE IF ~StatusOk(e) THEN "exit status is neither 0 nor 1" ELSE "exit status 1 without a diagnostic"
Tr == ndJsonDeserialize(IOEnv.TRACE)
VARIABLE l
TInit == l = 1
TNext == l <= Len(Tr) /\ l' = l + 1
Report ==
  IF l > Len(Tr) THEN PrintT("VERDICT " \o ToJson([done |-> Len(Tr)]))
  ELSE LET e == Tr[l] IN RunOk(e) \/ PrintT("VERDICT " \o ToJson([id |-> e.id, why |-> RunWhy(e)]))
=============================================================================
