------------------------------- MODULE GenProc -------------------------------
(* Case generator for C12: which base program, which single-point corruption, *)
(* where, wrapped how, which output type, with or without a stale output file *)
EXTENDS Integers, Sequences, TLC, Json
CONSTANTS Bases, Types
VARIABLE c
Kinds == {"none", "unknown_mnemonic", "missing_operand", "extra_operand", "undefined_symbol",
          "undefined_symbol_data", "db_range", "dw_range", "org_no_operand", "if_malformed", "if_undefined_name",
          "else_without_if", "endif_without_if", "ifdef_unterminated", "ifndef_unterminated", "if0_unterminated",
          "ifdef_no_name", "macro_unterminated", "quote_unterminated", "comment_unterminated", "duplicate_label",
          "unknown_directive", "include_missing", "expr_trailing_operator", "expr_unclosed_paren",
          "expr_div_zero", "repeat_unterminated", "endr_without_repeat", "align_too_large", "fill_zero_count",
          "label_is_macro", "bad_register", "set_no_value", "binfile_missing",
          "macro_too_few_args", "macro_too_many_args", "macro_no_close_paren", "macro_args_missing",
          "duplicate_define", "duplicate_macro", "duplicate_define_macro", "operand_paren_commas"}
Wraps == {"none", "if1", "ifdef_else", "macro", "repeat", "scope"}
Pos == {"first", "middle", "last"}
Init == c \in [base : Bases, kind : Kinds, pos : Pos, wrap : Wraps, type : Types, stale : BOOLEAN]
Next == FALSE /\ UNCHANGED c
Emit == PrintT("CASE " \o ToJson(c))
\* per-CPU family: every assembler back end reports its own errors, so the same single-point corruption is put into a
\* program of that CPU's instructions (the renderer takes them from tests/comparison), and the program ends at end of
\* file, with `end` or with `.end`
CpuKinds == {"none", "unknown_mnemonic", "nine_operands", "unknown_mnemonic_in_if", "db_range"}
Terms == {"eof", "end", "dotend"}
CpuCases == [kind : CpuKinds, pos : Pos, term : Terms, stale : BOOLEAN]
\* what is at the output path before the run, other than a plain file: a symbolic link to the image of an earlier run
\* (in the same directory, in a subdirectory); after a failed run nothing may be found at the output path
LinkCases == [kind : {"none", "unknown_mnemonic", "undefined_symbol", "db_range", "if_malformed", "macro_unterminated"},
              how : {"symlink", "symlink_subdir"}, type : Types, pos : {"first", "last"}]
EmitLink == (c.kind = "none" /\ c.pos = "first" /\ c.wrap = "none" /\ ~c.stale /\ c.base = 1 /\ c.type = "hex") => PrintT("LINKCASES " \o ToJson(LinkCases))
EmitCpu == (c.kind = "none" /\ c.pos = "first" /\ c.wrap = "none" /\ ~c.stale /\ c.base = 1 /\ c.type = "hex") => PrintT("CPUCASES " \o ToJson(CpuCases))
=============================================================================
