------------------------------ MODULE UtilSession ------------------------------
(* naken_util interactive sessions for C17: every sequence of up to MaxCmds commands over  *)
(* the command names of main/naken_util.cpp and the argument classes below; the renderer   *)
(* always appends quit.                                                                    *)
EXTENDS Integers, Sequences, TLC, Json
CONSTANT MaxCmds
\* every name of command_names[] except run and call (which execute the loaded program until it returns, legitimately
\* for as long as that takes), plus two names that are not commands
Cmds == {"print", "print16", "print32", "write", "write16", "write32", "disasm", "symbols", "info", "registers", "reg", "set",
         "clear", "break", "push", "step", "stop", "reset", "speed", "display", "no_clear", "dumpram", "dump_ram", "help", "asm",
         "flags", "bogus", ""}
\* how a session ends: the quit command, the exit command, or end of input without either
Ends == {"quit", "exit", "eof"}
\* interactive asm: `asm <arg>`, source lines, an empty line.  @Lnnn@ stands for a line of nnn characters (the renderer
\* writes it out); a body without the closing empty line runs into the end of the session
Bodies == {<<>>, <<"mov.w #5, r6">>, <<"bogus line">>, <<".org 0xfffffff0", ".db 1, 2, 3, 4">>, <<".db 1", "", "print 0-4">>,
           <<"@L1022@">>, <<"@L1023@">>, <<"@L1024@">>, <<"@L5000@">>, <<".include \"nothing.inc\"">>, <<".macro m", "m", ".endm", "m">>,
           <<".org 0x10000", "nop", ".org 0", "nop">>, <<"asm">>, <<"quit">>, <<".msp430x", "mova #0x12345, r5">>}
AsmArgs == {"", "0", "0x100", "0xffffffff", "-1", "xyz", "0x10-0x20"}
AsmCases == {[cmd |-> "asm", arg |-> a, body |-> b, closed |-> c] : a \in AsmArgs, b \in Bodies, c \in BOOLEAN}
Args == {"", "0", "0x10", "10h", "-1", "0xffffffff", "0x10-0x20", "0x20-0x10", "0x10-", "0xfffffff0-0xffffffff", "0xffffffff-", "0xfffffffe", "-0x10", "xyz", "0x10 1 2 3",
         "0xfffe 0x1234", "4294967296", "r4=5", "pc=0x1000", "r8=1", "r9=1", "r15=1", "r16=1", "r31=1", "r32=1", "r255=1", "x9=1", "x31=1", "x32=1", "x33=1", "$31=1", "$32=1", "a7=1", "a8=1", "d8=1", "f32=1", "a=1", "sp=1", "zz=1", "=1", "r=", "r4=", "999999999999999999999", "0x", "1 2 3 4 5 6 7 8 9 10 11 12 13 14 15 16 17 18 19 20"}
\* command lines: up to MaxOpts options, each with its argument, without it (when it is the last word) or with a malformed
\* one, followed by a file that exists, one that does not, or nothing
Opt(ws) == ws
\* (-run is left out: it executes the loaded program for as long as that takes)
CmdOpts == {<<"-bin">>, <<"-disasm">>, <<"-msp430">>, <<"-avr8">>, <<"-bogus_q">>, <<"-h">>,
            <<"-disasm_range">>, <<"-disasm_range", "0x10-0x20">>, <<"-disasm_range", "zzz">>, <<"-disasm_range", "0x20-0x10">>,
            <<"-address">>, <<"-address", "0x1000">>, <<"-address", "zzz">>, <<"-address", "0xffffffff">>,
            <<"-set_pc">>, <<"-set_pc", "0x10">>, <<"-set_pc", "zzz">>,
            <<"-break_io">>, <<"-break_io", "0x20">>, <<"-sim_serial">>, <<"-sim_serial", "1">>, <<"-sim_serial", "1", "in_q.txt">>,
            <<"-sim_serial", "0x20", "", "/nonexistent_q/out.txt">>, <<"-sim_serial", "0x20", "t.hex", "/nonexistent_q/out.txt">>,
            <<"-sim_serial", "0x20", "missing_q.txt", "out_q.txt">>, <<"-sim_serial", "0x20", "t.hex", "out_q.txt">>,
            <<"-type">>, <<"-type", "hex">>, <<"-type", "bogus">>}
Files == {"", "t.hex", "missing_q.hex", "t.bin"}
CmdLines(n) == IF n = 1 THEN {[opts |-> <<a>>, file |-> f] : a \in CmdOpts, f \in Files}
               ELSE {[opts |-> <<a, b>>, file |-> f] : a \in CmdOpts, b \in CmdOpts, f \in Files}
\* histories of long texts: the command line and the asm block are kept in strings that live for the whole session and
\* are emptied between uses; @Wn@ stands for write arguments of n characters, @Rn@ for n source lines
LongItems == {[cmd |-> "write", arg |-> "@W300@"], [cmd |-> "write", arg |-> "@W1100@"], [cmd |-> "print", arg |-> "0-4"],
              [cmd |-> "asm", arg |-> "0x200", body |-> <<"@L300@">>, closed |-> TRUE],
              [cmd |-> "asm", arg |-> "0x300", body |-> <<"@R40@">>, closed |-> TRUE],
              [cmd |-> "asm", arg |-> "", body |-> <<>>, closed |-> TRUE]}
LongCases == UNION {[1..n -> LongItems] : n \in 2..3}
VARIABLE s
SInit == s = <<>>
SNext == Len(s) < MaxCmds /\ \E cm \in Cmds, a \in Args : s' = Append(s, [cmd |-> cm, arg |-> a])
SEmit == s = <<>> \/ PrintT("CASE " \o ToJson(s))
\* one-command sessions under every ending, and the asm blocks
SEmitCmd == (s = <<>>) => (PrintT("CMDL " \o ToJson(CmdLines(1))) /\ PrintT("CMDL " \o ToJson(CmdLines(2))))
SEmitLong == (s = <<>>) => PrintT("LONG " \o ToJson(LongCases))
SEmitEnds == (Len(s) = 1 => \A e \in Ends : PrintT("ENDS " \o ToJson([cmds |-> s, end |-> e])))
             /\ (s = <<>> => \A c \in AsmCases, e \in Ends : PrintT("ENDS " \o ToJson([cmds |-> <<c>>, end |-> e])))
=============================================================================
