------------------------------ MODULE UtilSession ------------------------------
(* naken_util interactive sessions for C17: every sequence of up to MaxCmds commands over  *)
(* the command names of main/naken_util.cpp and the argument classes below; the renderer   *)
(* always appends quit.                                                                    *)
EXTENDS Integers, Sequences, TLC, Json
CONSTANT MaxCmds
Cmds == {"print", "print16", "print32", "write", "write16", "write32", "disasm", "symbols", "info", "registers", "set",
         "clear", "break", "push", "step", "reset", "speed", "display", "dumpram", "flags", "bogus", ""}
Args == {"", "0", "0x10", "10h", "-1", "0xffffffff", "0x10-0x20", "0x20-0x10", "0x10-", "-0x10", "xyz", "0x10 1 2 3",
         "0xfffe 0x1234", "4294967296", "r4=5", "pc=0x1000", "999999999999999999999", "0x", "1 2 3 4 5 6 7 8 9 10 11 12 13 14 15 16 17 18 19 20"}
VARIABLE s
SInit == s = <<>>
SNext == Len(s) < MaxCmds /\ \E cm \in Cmds, a \in Args : s' = Append(s, [cmd |-> cm, arg |-> a])
SEmit == s = <<>> \/ PrintT("CASE " \o ToJson(s))
=============================================================================
