SPECIFICATION Spec
CONSTANTS
  MaxLen = 6
  CountsIfndef = TRUE
INVARIANTS Agreement RepairedAgrees
