SPECIFICATION Spec
CONSTANTS
  MaxLen = 6
  CountsIfndef = TRUE
  CountsCloses = TRUE
INVARIANTS Agreement RepairedAgrees
