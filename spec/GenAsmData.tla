----------------------------- MODULE GenAsmData -----------------------------
(* Generator of data-directive programs for C05 (and reused by C09/C12/C13). *)
(* BFS mode (gen_AsmData_pairs.cfg) enumerates every program of one or two   *)
(* statements; simulation mode draws longer programs.                        *)
EXTENDS AsmData, Json

CONSTANTS MaxLen, Seed

VARIABLES prog, n
vars == <<prog, n>>

P(v) == WFromInt(W, v)
Num(v)  == [k |-> "num", v |-> P(v)]
NumW(w) == [k |-> "num", v |-> w]
Str(b)  == [k |-> "str", b |-> b]
Sym(s)  == [k |-> "sym", n |-> s]
Here    == [k |-> "here"]

Data(w, items) == [k |-> "data", w |-> w, z |-> FALSE, items |-> items]
DataZ(items)   == [k |-> "data", w |-> 1, z |-> TRUE, items |-> items]

Big32  == WFromDigits(W, 16, <<1, 0, 0, 0, 0, 0, 0, 0, 1>>, WZero(W))      \* 2^32 + 1
Big32b == WFromDigits(W, 16, <<8, 0, 0, 0, 0, 0, 0, 0>>, WZero(W))         \* 2^31
Big63  == WFromDigits(W, 16, <<7, 15, 14, 13, 12, 11, 10, 9, 8, 7, 6, 5, 4, 3, 2, 1>>, WZero(W))

\* values just below 2^32: narrowed to 32 bits they look like small negative numbers
Top32   == WFromDigits(W, 16, <<15, 15, 15, 15, 15, 15, 15, 15>>, WZero(W))     \* 0xffffffff
Top32b  == WFromDigits(W, 16, <<15, 15, 15, 15, 15, 15, 8, 0>>, WZero(W))       \* 0xffffff80
Top32c  == WFromDigits(W, 16, <<15, 15, 15, 15, 8, 0, 0, 0>>, WZero(W))         \* 0xffff8000
Top32d  == WFromDigits(W, 16, <<15, 15, 15, 15, 15, 15, 7, 15>>, WZero(W))      \* 0xffffff7f
Names == {"la", "lb", "lc"}

DbVals == {-129, -128, -127, -1, 0, 1, 65, 127, 128, 254, 255, 256, 1000}
DwVals == {-32769, -32768, -2, 0, 258, 32767, 32768, 65535, 65536, 100000}
DlVals == {-2147483647, -1, 0, 1, 16909060, 2147483647}

StrSet == {<<65>>, <<72, 105>>, <<>>, <<97, 10, 9, 13>>, <<34, 92, 39>>, <<120, 0, 121>>,
           <<92, 48>>, <<32, 59, 44, 32>>, <<48, 49, 50, 51, 52, 53, 54, 55, 56, 57, 97, 98, 99, 100, 101, 102, 103>>,
           \* strings whose text is also a token of the language: $  //x  /*  ;x  :  ,  #  .
           <<36>>, <<47, 47, 120>>, <<47, 42>>, <<59, 120>>, <<58>>, <<44>>, <<35>>, <<46>>, <<36, 36>>}

Bin(b) == [k |-> "bin", b |-> b]
BinSet == {<<>>, <<65>>, <<1, 2, 3>>, <<65, 66, 67, 68, 69, 70, 71, 72>>, <<0, 255, 0, 10, 13>>}

Stmts ==
     {[k |-> "org", a |-> a] : a \in {0, 1, 2, 16, 255, 4096, 32768, 65520, 65534, 65535, 65536, 65537, 1048575}}
  \cup {Data(1, <<Num(v)>>) : v \in DbVals}
  \cup {Data(1, <<Num(1), Num(2), Num(3)>>), Data(1, <<Str(<<72, 105>>), Num(0)>>),
        Data(1, <<NumW(Big32)>>), Data(1, <<Here>>), Data(1, <<Sym("la")>>),
        Data(1, <<NumW(Top32)>>), Data(1, <<NumW(Top32b)>>), Data(1, <<NumW(Top32d)>>), Data(1, <<Num(1), NumW(Top32), Num(2)>>)}
  \cup {Data(1, <<Str(b)>>) : b \in StrSet}
  \cup {DataZ(<<Str(b)>>) : b \in StrSet}
  \cup {DataZ(<<Str(<<65>>), Str(<<66, 67>>)>>)}
  \cup {Data(2, <<Num(v)>>) : v \in DwVals}
  \cup {Data(2, <<NumW(Top32)>>), Data(2, <<NumW(Top32c)>>), Data(2, <<Num(4660), NumW(Top32c)>>)}
  \cup {Data(2, <<Num(4660), Num(-1)>>), Data(2, <<Here>>), Data(2, <<Sym("lb")>>), Data(2, <<NumW(Big32)>>),
        Data(2, <<Num(1), Here, Sym("lc")>>)}
  \cup {Data(4, <<Num(v)>>) : v \in DlVals}
  \cup {Data(4, <<NumW(Big32)>>), Data(4, <<NumW(Big32b)>>), Data(4, <<NumW(Big63)>>), Data(4, <<Here>>)}
  \cup {Data(4, <<Sym(s)>>) : s \in Names}
  \cup {Data(4, <<Here, Here>>), Data(4, <<Num(1), Sym("la"), Here>>)}
  \cup {Data(8, <<Num(v)>>) : v \in {-1, 0, 72623859}}
  \cup {Data(8, <<NumW(Big63)>>), Data(8, <<NumW(Big32)>>), Data(8, <<Here>>), Data(8, <<Sym("lb"), Num(-2)>>)}
  \cup {[k |-> "res", n |-> c, sz |-> z] : c \in {0, 1, 3, 100, 65536}, z \in {1, 2}}
  \cup {[k |-> "align", n |-> c, bits |-> TRUE] : c \in {8, 16, 32, 64, 128, 12, 8192, 16384}}
  \cup {[k |-> "align", n |-> c, bits |-> FALSE] : c \in {1, 2, 4, 8, 256, 1024, 2048}}
  \cup {[k |-> "fill", v |-> P(v), n |-> c] : v \in {0, 255, -1, -128, -129, 256, 90}, c \in {1, 3, 17}}
  \cup {[k |-> "fill", v |-> P(7), n |-> c] : c \in {0, -1, 300}}
  \cup {[k |-> "endian", big |-> b] : b \in BOOLEAN}
  \cup {[k |-> "label", n |-> s] : s \in Names}
  \cup {Bin(b) : b \in BinSet}
  \cup {[k |-> "seg", bss |-> b] : b \in BOOLEAN}

\* the later of two statements that place bytes at one address wins: every ordered pair of writers, the second one
\* placed over the first (same start, or one byte further on), with a word of the final location counter behind it
Writers == {Data(1, <<Num(1), Num(2), Num(3)>>), Data(4, <<Num(-1)>>), DataZ(<<Str(<<72, 105>>)>>),
            [k |-> "fill", v |-> P(255), n |-> 17], [k |-> "fill", v |-> P(0), n |-> 3],
            Bin(<<65, 66, 67, 68, 69, 70, 71, 72>>), Bin(<<1, 2, 3>>)}
OverlayProgs == {<<[k |-> "org", a |-> a], x, [k |-> "org", a |-> a + d], y, Data(2, <<Here>>)>> :
                   a \in {0, 4096}, d \in {0, 1}, x \in Writers, y \in Writers}
EmitOverlay == (prog = <<>>) => PrintT("OVER " \o ToJson(OverlayProgs))

Init == prog = <<>> /\ n \in 1..MaxLen
Next == Len(prog) < n /\ \E s \in Stmts : prog' = Append(prog, s) /\ UNCHANGED n
\* simulation: one random successor per step (TLC would otherwise evaluate Emit on every successor)
NextR == Len(prog) < n /\ prog' = Append(prog, RandomElement(Stmts)) /\ UNCHANGED n
SpecR == Init /\ [][NextR]_vars
Spec == Init /\ [][Next]_vars

Emit == Len(prog) = n => PrintT("CASE " \o ToJson(prog))
\* distribution check for the evidence: every statement kind occurs
Kinds == {s.k : s \in Stmts}
=============================================================================
