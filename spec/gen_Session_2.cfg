INIT SInit
NEXT SNext
CONSTANTS
  MaxCmds = 2
INVARIANT SEmit
INVARIANT SEmitEnds
INVARIANT SEmitCmd
INVARIANT SEmitLong
