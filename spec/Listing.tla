------------------------------ MODULE Listing ------------------------------
(***************************************************************************)
(* The listing file (-l) of naken_asm as a function of the program layout. *)
(*                                                                         *)
(* A program is a sequence of statements with known sizes (bytes):         *)
(*   [k |-> "org",   n |-> byte address]                                   *)
(*   [k |-> "label", name |-> "l0"]                                        *)
(*   [k |-> "insn",  n |-> size]               one instruction             *)
(*   [k |-> "data",  n |-> size]               .db/.dw/.dc32               *)
(*   [k |-> "res",   n |-> size]               .resb: the location counter *)
(*                                             moves, nothing is written   *)
(*   [k |-> "macro", n, m]                     a macro call expanding to   *)
(*                                             two instructions (n, m)     *)
(*   [k |-> "rep",   n, m, d, c]               .repeat c / insn(n) [insn(m)] *)
(*                                             [.db(d)] / .endr            *)
(*   [k |-> "inc",   n, m, listed]             .include of a file holding  *)
(*                                             [.list] insn(n) .db(m)      *)
(* All fields (k, n, m, d, c, name, listed) are present in every record;   *)
(* unused ones are 0, "" or TRUE.                                          *)
(*                                                                         *)
(* AsmContext::assemble calls list_output(start, end) once per instruction *)
(* (core/AsmContext.cpp), parse_repeat once per run of instructions of     *)
(* every copy it makes (core/directives.cpp); main() walks low..high afterwards and dumps the  *)
(* bytes marked DL_DATA in rows of 16 (main/naken_asm.cpp).  Walk is that  *)
(* loop, transcribed.                                                      *)
(***************************************************************************)
EXTENDS Integers, Sequences, FiniteSets, TLC

Forced(v) == v = v
Span(a, n) == a..(a + n - 1)

-----------------------------------------------------------------------------
(* Layout: where every statement's bytes go                                 *)
\* total: number of bytes the statements write (with multiplicity)
L0 == [pc |-> 0, code |-> {}, hidden |-> {}, data |-> {}, copies |-> {}, labels |-> {}, total |-> 0]

Step(st, s, bpa) ==
  CASE s.k = "org"   -> [st EXCEPT !.pc = s.n]
    [] s.k = "label" -> [st EXCEPT !.labels = @ \cup {<<s.name, st.pc \div bpa>>}]
    [] s.k = "insn"  -> [st EXCEPT !.pc = @ + s.n, !.code = @ \cup {<<st.pc, s.n>>}, !.total = @ + s.n]
    [] s.k = "data"  -> [st EXCEPT !.pc = @ + s.n, !.data = @ \cup {<<st.pc, s.n>>}, !.total = @ + s.n]
    [] s.k = "res"   -> [st EXCEPT !.pc = @ + s.n]
    [] s.k = "macro" -> [st EXCEPT !.pc = @ + s.n + s.m, !.total = @ + s.n + s.m,
                                   !.code = @ \cup {<<st.pc, s.n>>, <<st.pc + s.n, s.m>>}]
    [] s.k = "rep"   -> \* s.c copies of: insn(n) [insn(m)] [.db(d)]; copies of data are data
                        \* (parse_repeat keeps the DL_DATA marker)
                        LET sz == s.n + s.m + s.d
                            base(i) == st.pc + (i - 1) * sz
                            insns(i) == {<<base(i), s.n>>} \cup (IF s.m > 0 THEN {<<base(i) + s.n, s.m>>} ELSE {}) IN
                        [st EXCEPT !.pc = @ + sz * s.c, !.total = @ + sz * s.c,
                                   !.code = @ \cup {x \in UNION {insns(i) : i \in 1..s.c} : x[2] > 0},
                                   !.copies = @ \cup {x \in UNION {insns(i) : i \in 2..s.c} : x[2] > 0},
                                   !.data = IF s.d > 0 THEN @ \cup {<<base(i) + s.n + s.m, s.d>> : i \in 1..s.c} ELSE @]
    [] s.k = "inc"   -> [st EXCEPT !.pc = @ + s.n + s.m, !.total = @ + s.n + s.m,
                                   !.code = IF s.listed THEN @ \cup {<<st.pc, s.n>>} ELSE @,
                                   !.hidden = IF s.listed THEN @ ELSE @ \cup {<<st.pc, s.n>>},
                                   !.data = IF s.m > 0 THEN @ \cup {<<st.pc + s.n, s.m>>} ELSE @]
    [] OTHER -> st

RECURSIVE LayoutFrom(_, _, _, _)
LayoutFrom(stmts, i, st, bpa) ==
  IF i > Len(stmts) THEN st
  ELSE LET nx == Step(st, stmts[i], bpa) IN IF Forced(nx) THEN LayoutFrom(stmts, i + 1, nx, bpa) ELSE nx
Layout(stmts, bpa) == LayoutFrom(stmts, 1, L0, bpa)

Addrs(spans) == UNION {Span(sp[1], sp[2]) : sp \in spans}
Written(lay) == Addrs(lay.code) \cup Addrs(lay.hidden) \cup Addrs(lay.data)
\* a program this model can speak about: nothing is written twice
Disjoint(lay) == lay.total = Cardinality(Written(lay))

-----------------------------------------------------------------------------
(* The data-section dump of main(): walks i = low..high; a byte marked      *)
(* DL_DATA starts a new row when ch = 0 (label i / bpa), rows hold 16       *)
(* bytes; any other byte closes the row.  i \in D, B[i] are the        *)
(* per-byte marker and the image.  Rows are [a |-> label, b |-> bytes].    *)
RECURSIVE Walk(_, _, _, _, _, _, _, _)
Walk(i, high, ch, cur, rows, D, B, bpa) ==
  IF i > high THEN (IF cur.b # <<>> THEN Append(rows, cur) ELSE rows)
  ELSE IF i \in D
    THEN LET start == ch = 0
             rows2 == IF start /\ cur.b # <<>> THEN Append(rows, cur) ELSE rows
             cur2  == IF start THEN [a |-> i \div bpa, b |-> <<B[i]>>]
                               ELSE [cur EXCEPT !.b = Append(@, B[i])]
             ch2   == IF ch + 1 = 16 THEN 0 ELSE ch + 1 IN
         IF Forced(rows2) /\ Forced(cur2) THEN Walk(i + 1, high, ch2, cur2, rows2, D, B, bpa) ELSE rows
    ELSE LET rows2 == IF cur.b # <<>> THEN Append(rows, cur) ELSE rows IN
         IF Forced(rows2) THEN Walk(i + 1, high, 0, [a |-> 0, b |-> <<>>], rows2, D, B, bpa) ELSE rows
DumpRows(low, high, D, B, bpa) ==
  Walk(low, high, 0, [a |-> 0, b |-> <<>>], <<>>, D, B, bpa)

-----------------------------------------------------------------------------
(* What a listing claims.  entries: [a |-> address as printed, b |-> the    *)
(* bytes its opcode column stands for]; rows: [a, b].  An address printed   *)
(* in the listing is in the CPU's address units.                            *)
CellsOf(x, bpa) == {<<x.a * bpa + k - 1, x.b[k]>> : k \in 1..Len(x.b)}
ClaimCells(xs, bpa) == UNION {CellsOf(xs[i], bpa) : i \in 1..Len(xs)}
ClaimAddrs(xs, bpa) == {c[1] : c \in ClaimCells(xs, bpa)}

\* img is a set of <<address, byte>> (the output file, decoded)
ImgAddrs(img) == {c[1] : c \in img}

\* each clause is given as the set of addresses at which it fails
FalseClaims(img, claims, rows, bpa) ==
  {c[1] : c \in (ClaimCells(claims, bpa) \cup ClaimCells(rows, bpa)) \ img}
ListedBytesTrue(img, claims, rows, bpa) == FalseClaims(img, claims, rows, bpa) = {}

Unlisted(img, claims, rows, bpa) ==
  ImgAddrs(img) \ (ClaimAddrs(claims, bpa) \cup ClaimAddrs(rows, bpa))
EveryByteListed(img, claims, rows, bpa) == Unlisted(img, claims, rows, bpa) = {}

\* every listed instruction of the program is shown as entries that start at its first byte and end
\* after its last, and entries show nothing but instructions
Untiled(lay, entries, bpa) ==
  LET starts == {entries[i].a * bpa : i \in 1..Len(entries)}
      ends   == {entries[i].a * bpa + Len(entries[i].b) : i \in 1..Len(entries)}
      code   == Addrs(lay.code) IN
  UNION {Span(sp[1], sp[2]) : sp \in {x \in lay.code : x[1] \notin starts \/ (x[1] + x[2]) \notin ends}}
  \cup (ClaimAddrs(entries, bpa) \ code)
  \cup (code \ ClaimAddrs(entries, bpa))
EntriesTileCode(lay, entries, bpa) == Untiled(lay, entries, bpa) = {}

Misfiled(lay, rows, bpa) ==
  (Addrs(lay.data) \ ClaimAddrs(rows, bpa)) \cup (ClaimAddrs(rows, bpa) \ Addrs(lay.data))
RowsAreData(lay, rows, bpa) == Misfiled(lay, rows, bpa) = {}

Min(S) == CHOOSE x \in S : \A y \in S : x <= y
Max(S) == CHOOSE x \in S : \A y \in S : x >= y
LowHighTrue(img, low, high, bpa) ==
  /\ low.x = low.d /\ high.x = high.d
  /\ low.x = Min(ImgAddrs(img)) \div bpa
  /\ high.x = Max(ImgAddrs(img)) \div bpa

SymbolsTrue(lay, syms) == {<<syms[i].n, syms[i].v>> : i \in 1..Len(syms)} = lay.labels

=============================================================================
