------------------------------ MODULE AsmData ------------------------------
(***************************************************************************)
(* Data and location directives of naken_asm (core/directives_data.cpp,    *)
(* core/directives.cpp, AsmContext::assemble) as a denotational meaning:   *)
(* Denote(prog, bpa, big0) is the image, the symbol table and the          *)
(* accept/reject outcome that property C05 demands for a program made of   *)
(*   .org  .db/.dc8/.ascii/.asciiz  .dw/.dc16  .dl/.dc32/.dd  .dc64/.dq    *)
(*   .resb/.resw  .align/.align_bytes  .data_fill  .big/.little_endian     *)
(*   labels, $ and label references.                                       *)
(*                                                                         *)
(* A statement is a record with field k:                                   *)
(*   [k |-> "org",   a |-> Nat]                      address in units      *)
(*   [k |-> "data",  w |-> 1|2|4|8, z |-> BOOLEAN, items |-> Seq(Item)]    *)
(*   [k |-> "res",   n |-> Nat, sz |-> 1|2]                                *)
(*   [k |-> "align", n |-> Nat, bits |-> BOOLEAN]                          *)
(*   [k |-> "fill",  v |-> word, n |-> Int]                                *)
(*   [k |-> "bin",   b |-> Seq(Byte)]           .binfile of a file holding b *)
(*   [k |-> "seg",   bss |-> BOOLEAN]           .bss / .code: in .bss every  *)
(*                                              statement that places bytes  *)
(*                                              is an error                  *)
(*   [k |-> "endian", big |-> BOOLEAN]                                     *)
(*   [k |-> "label", n |-> STRING]                                         *)
(* An Item is [k |-> "num", v |-> word] | [k |-> "str", b |-> Seq(Byte)]   *)
(*          | [k |-> "sym", n |-> STRING] | [k |-> "here"]                 *)
(* Values are 8-byte words (Word.tla); addresses are naturals < 2^31.      *)
(***************************************************************************)
EXTENDS Word, FiniteSets, TLC

W == 8

\* ---- pass 1: the location counter and the symbol table -------------------

ItemSize(it, w, z) == IF it.k = "str" THEN Len(it.b) + (IF z THEN 1 ELSE 0) ELSE w

RECURSIVE SumSizes(_, _, _, _)
SumSizes(items, w, z, i) == IF i > Len(items) THEN 0
                            ELSE ItemSize(items[i], w, z) + SumSizes(items, w, z, i + 1)

AlignUp(pc, n) == IF n <= 1 THEN pc ELSE ((pc + n - 1) \div n) * n
AlignBytes(s) == IF s.bits THEN s.n \div 8 ELSE s.n
\* .align wants a multiple of 8 bits; both forms refuse more than 1024 bytes
AlignOk(s) == (s.bits => s.n % 8 = 0) /\ AlignBytes(s) <= 1024

\* size in bytes a statement adds to the location counter (when it is accepted)
Advance(s, pc, bpa) ==
  CASE s.k = "org"    -> s.a * bpa
    [] s.k = "data"   -> pc + SumSizes(s.items, s.w, s.z, 1)
    [] s.k = "res"    -> pc + s.n * s.sz
    [] s.k = "align"  -> AlignUp(pc, AlignBytes(s))
    [] s.k = "fill"   -> pc + (IF s.n >= 1 THEN s.n ELSE 0)
    [] s.k = "bin"    -> pc + Len(s.b)
    [] OTHER          -> pc

\* symbol table after pass 1: name -> address in units; dup = a name defined twice
RECURSIVE Layout(_, _, _, _, _)
Layout(prog, i, pc, bpa, acc) ==
  IF i > Len(prog) THEN acc
  ELSE LET s == prog[i]
           acc1 == IF s.k = "label"
                   THEN (IF s.n \in DOMAIN acc.syms
                         THEN [acc EXCEPT !.dup = TRUE]
                         ELSE [acc EXCEPT !.syms = (s.n :> (pc \div bpa)) @@ @])
                   ELSE acc
           pc1 == Advance(s, pc, bpa)
       IN IF Forced(acc1) /\ Forced(pc1) THEN Layout(prog, i + 1, pc1, bpa, acc1) ELSE acc

Syms(prog, bpa) == Layout(prog, 1, 0, bpa, [syms |-> <<>>, dup |-> FALSE])

\* ---- pass 2: bytes ----------------------------------------------------------

Put(img, a, b) == [x \in (DOMAIN img) \cup {a} |-> IF x = a THEN b ELSE img[x]]

\* write the bytes bs at a, a+1, ... (no recursion: one function merge); the dummy
\* fourth parameter keeps the call sites uniform
PutSeq(img, a, bs, dummy) ==
  IF bs = <<>> THEN img
  ELSE LET R == a..(a + Len(bs) - 1)
       IN [x \in (DOMAIN img) \cup R |-> IF x \in R THEN bs[x - a + 1] ELSE img[x]]

Rev(s) == [i \in 1..Len(s) |-> s[Len(s) + 1 - i]] \o <<>>
Order(bs, big) == IF big THEN Rev(bs) ELSE bs

\* documented ranges: .db -128..255, .dw -32768..65535, wider ones wrap
InRange(v, w) == CASE w = 1 -> WInRangeS(v, -128, 255)
                   [] w = 2 -> WInRangeS(v, -32768, 65535)
                   [] OTHER -> TRUE

ItemValue(it, pc, bpa, syms) ==
  CASE it.k = "num"  -> [ok |-> TRUE, v |-> it.v]
    [] it.k = "here" -> [ok |-> TRUE, v |-> WFromNat(W, pc \div bpa)]
    [] it.k = "sym"  -> IF it.n \in DOMAIN syms THEN [ok |-> TRUE, v |-> WFromNat(W, syms[it.n])]
                        ELSE [ok |-> FALSE, v |-> WZero(W)]

\* state of pass 2: [pc, img, big, err]
RECURSIVE EmitItems(_, _, _, _, _, _)
EmitItems(st, s, i, bpa, syms, dummy) ==
  IF i > Len(s.items) \/ st.err THEN st
  ELSE LET it == s.items[i] IN
       IF it.k = "str"
       THEN LET bs == IF s.z THEN Append(it.b, 0) ELSE it.b
                n  == [st EXCEPT !.img = PutSeq(@, st.pc, bs, 1), !.pc = @ + Len(bs)]
            IN IF Forced(n) THEN EmitItems(n, s, i + 1, bpa, syms, dummy) ELSE n
       ELSE LET iv == ItemValue(it, st.pc, bpa, syms) IN
            IF ~iv.ok \/ ~InRange(iv.v, s.w) THEN [st EXCEPT !.err = TRUE]
            ELSE LET bs == Order(WTrunc(iv.v, s.w), st.big)
                     n  == [st EXCEPT !.img = PutSeq(@, st.pc, bs, 1), !.pc = @ + s.w]
                 IN IF Forced(n) THEN EmitItems(n, s, i + 1, bpa, syms, dummy) ELSE n

\* (.data_fill in .bss is accepted by the code and nothing documents otherwise: left as it is)
Places(s) == s.k \in {"data", "bin"}
Exec(st, s, bpa, syms) ==
  IF st.bss /\ Places(s) THEN [st EXCEPT !.err = TRUE] ELSE
  CASE s.k = "seg"    -> [st EXCEPT !.bss = s.bss]
    [] s.k = "org"    -> [st EXCEPT !.pc = s.a * bpa]
    [] s.k = "data"   -> EmitItems(st, s, 1, bpa, syms, 0)
    [] s.k = "res"    -> [st EXCEPT !.pc = @ + s.n * s.sz]
    [] s.k = "align"  -> IF AlignOk(s) THEN [st EXCEPT !.pc = AlignUp(@, AlignBytes(s))]
                         ELSE [st EXCEPT !.err = TRUE]
    [] s.k = "fill"   -> IF ~WInRangeS(s.v, -128, 255) \/ s.n < 1 THEN [st EXCEPT !.err = TRUE]
                         ELSE [st EXCEPT !.img = PutSeq(@, st.pc, [j \in 1..s.n |-> s.v[1]], 1),
                                         !.pc = @ + s.n]
    [] s.k = "bin"    -> [st EXCEPT !.img = PutSeq(@, st.pc, s.b, 1), !.pc = @ + Len(s.b)]
    [] s.k = "endian" -> [st EXCEPT !.big = s.big]
    [] s.k = "label"  -> st

RECURSIVE Run(_, _, _, _, _)
Run(prog, i, st, bpa, syms) ==
  IF i > Len(prog) \/ st.err THEN st
  ELSE LET n == Exec(st, prog[i], bpa, syms)
       IN IF Forced(n) THEN Run(prog, i + 1, n, bpa, syms) ELSE n

Denote(prog, bpa, big0) ==
  LET ly == Syms(prog, bpa)
      st == Run(prog, 1, [pc |-> 0, img |-> <<>>, big |-> big0, err |-> ly.dup, bss |-> FALSE], bpa, ly.syms)
  IN [err |-> st.err, img |-> st.img, syms |-> ly.syms, pc |-> st.pc]

\* ---- observation side -----------------------------------------------------------
\* obs.img is a sequence of runs [a |-> address, d |-> Seq(Byte)]
RECURSIVE ObsImg(_, _, _)
ObsImg(runs, i, acc) ==
  IF i > Len(runs) THEN acc
  ELSE LET n == PutSeq(acc, runs[i].a, runs[i].d, 1)
       IN IF Forced(n) THEN ObsImg(runs, i + 1, n) ELSE n

SetMin(S) == CHOOSE x \in S : \A y \in S : x <= y
SetMax(S) == CHOOSE x \in S : \A y \in S : x >= y

\* obs = [k |-> "ok"|"rej", img, syms (sequence of [n, a]), low, high]
Conforms(prog, bpa, big0, obs) ==
  LET d == Denote(prog, bpa, big0) IN
  IF d.err THEN obs.k = "rej"
  ELSE /\ obs.k = "ok"
       /\ ObsImg(obs.img, 1, <<>>) = d.img
       /\ \A j \in 1..Len(obs.syms) :
             obs.syms[j].n \in DOMAIN d.syms /\ d.syms[obs.syms[j].n] = obs.syms[j].a
       /\ Len(obs.syms) = Cardinality(DOMAIN d.syms)
       /\ (DOMAIN d.img # {} => obs.low = SetMin(DOMAIN d.img) /\ obs.high = SetMax(DOMAIN d.img))

Why(prog, bpa, big0, obs) ==
  LET d == Denote(prog, bpa, big0) IN
  IF d.err THEN "reference rejects, code accepted"
  ELSE IF obs.k # "ok" THEN "reference accepts, code rejected"
  ELSE IF ObsImg(obs.img, 1, <<>>) # d.img THEN "image differs"
  ELSE IF DOMAIN d.img # {} /\ (obs.low # SetMin(DOMAIN d.img) \/ obs.high # SetMax(DOMAIN d.img))
       THEN "low/high address differs"
  ELSE "symbol table differs"
-----------------------------------------------------------------------------
(* Translation: the location counter is a 32-bit quantity and nothing in the meaning of these directives depends   *)
(* on where in the address space a program stands.  A program P that contains no `$` or label operands, assembled  *)
(* with every .org moved up by 2^31 bytes (and a leading .org 2^31), denotes Denote(P) moved up by 2^31 bytes:      *)
(* same accept/reject outcome, same bytes, every address 2^31 higher, every label 2^31 / bpa units higher.          *)
(* Addresses above 2^31 are not TLC integers: the two observations carry them as (ah, al) = (a div 65536, a mod     *)
(* 65536); lo is also judged against Denote on its own.                                                             *)
HalfHi == 32768
ShiftRec(a, b, dh) == b.ah = a.ah + dh /\ b.al = a.al
ShiftOk(e) ==
  /\ e.hi.k = e.lo.k
  /\ (e.lo.k = "ok" =>
        /\ Len(e.hi.img) = Len(e.lo.img)
        /\ \A i \in 1..Len(e.lo.img) : ShiftRec(e.lo.img[i], e.hi.img[i], HalfHi) /\ e.hi.img[i].d = e.lo.img[i].d
        /\ Len(e.hi.syms) = Len(e.lo.syms)
        /\ \A i \in 1..Len(e.lo.syms) : e.hi.syms[i].n = e.lo.syms[i].n /\ ShiftRec(e.lo.syms[i], e.hi.syms[i], HalfHi \div e.bpa)
        /\ (e.lo.img # <<>> => ShiftRec(e.lo.low, e.hi.low, HalfHi) /\ ShiftRec(e.lo.high, e.hi.high, HalfHi)))
ShiftWhy(e) == IF e.hi.k # e.lo.k THEN "accepted at one place of the address space, rejected 2^31 bytes higher"
               ELSE "the program assembled 2^31 bytes higher is not the same image moved up"
=============================================================================
