SPECIFICATION Spec
CONSTANTS
  Bpa = 2
  MaxLen = 3
  Orgs = {0, 24, 64}
  ISizes = {1, 2}
  DSizes = {1, 16, 18}
INVARIANTS DumpInv RowShape SameAsWalk Final
CHECK_DEADLOCK FALSE
