-------------------------------- MODULE Expr --------------------------------
(***************************************************************************)
(* Constant expressions of naken_asm (core/eval_expression.cpp).           *)
(*                                                                         *)
(*  RefEval  - what property C04 demands: precedence climbing over         *)
(*             unary - ~  >  * / %  >  + -  >  << >>  >  &  >  ^  >  |,    *)
(*             left associative, parentheses, W-byte two's complement;     *)
(*             no value (zero divisor, malformed) = rejected.              *)
(*  Machine  - the shipped evaluator, one action per loop iteration of     *)
(*             EvalExpression::run(): a stack of values and a stack of     *)
(*             waiting operators; an arriving operator first computes      *)
(*             every waiting operator that binds at least as tightly.      *)
(*             (Until the repair of Expr.ReduceWithoutLookahead this was   *)
(*             a 3-value / 2-operator machine that reduced as soon as the  *)
(*             third value arrived; the field dev, which named that        *)
(*             deviation, stays in the state and is always empty.)         *)
(*                                                                         *)
(* Tokens:  [t |-> "num", v |-> word]  [t |-> "op", o |-> string]          *)
(*          [t |-> "lp"]  [t |-> "rp"]                                     *)
(* "-" and "~" are ordinary "op" tokens; position decides unary/binary.    *)
(***************************************************************************)
EXTENDS Word, FiniteSets, TLC

CONSTANT W          \* bytes per value: 1 when model checking, 8 for traces

BinOps == {"*", "/", "%", "+", "-", "<<", ">>", "&", "^", "|"}
Level(o) == CASE o \in {"*", "/", "%"} -> 1
              [] o \in {"+", "-"}      -> 2
              [] o \in {"<<", ">>"}    -> 3
              [] o = "&"               -> 4
              [] o = "^"               -> 5
              [] o = "|"               -> 6

IsOp(t, o) == t.t = "op" /\ t.o = o
IsBin(t)   == t.t = "op" /\ t.o \in BinOps

\* shift counts are taken from the low limb when the rest is zero and in range
ShiftOk(b)  == (\A i \in 2..Len(b) : b[i] = 0) /\ b[1] < 8 * Len(b)

\* result kinds: "val" (v), "rej" (no value: must be rejected), "any" (C++ leaves it
\* undefined and the property is silent: shift counts outside 0..8W-1)
Apply(o, a, b) ==
  CASE o = "*"  -> [k |-> "val", v |-> WMul(a, b)]
    [] o = "+"  -> [k |-> "val", v |-> WAdd(a, b)]
    [] o = "-"  -> [k |-> "val", v |-> WSub(a, b)]
    [] o = "&"  -> [k |-> "val", v |-> WAnd(a, b)]
    [] o = "^"  -> [k |-> "val", v |-> WXor(a, b)]
    [] o = "|"  -> [k |-> "val", v |-> WOr(a, b)]
    [] o = "/"  -> IF WDivDefined(a, b) THEN [k |-> "val", v |-> WDivS(a, b)] ELSE [k |-> "rej", v |-> a]
    [] o = "%"  -> IF WDivDefined(a, b) THEN [k |-> "val", v |-> WModS(a, b)] ELSE [k |-> "rej", v |-> a]
    [] o = "<<" -> IF ShiftOk(b) THEN [k |-> "val", v |-> WShl(a, b[1])] ELSE [k |-> "any", v |-> a]
    [] o = ">>" -> IF ShiftOk(b) THEN [k |-> "val", v |-> WShrA(a, b[1])] ELSE [k |-> "any", v |-> a]

-----------------------------------------------------------------------------
(* Reference: precedence climbing.  Results are [k, v, i] with i the index *)
(* of the first token not consumed.                                        *)

RRej(i) == [k |-> "rej", v |-> WZero(W), i |-> i]

RECURSIVE RUn(_, _), RBin(_, _, _), RLoop(_, _, _)

RUn(ts, i) ==
  IF i > Len(ts) THEN RRej(i)
  ELSE LET t == ts[i] IN
    IF t.t = "num" THEN [k |-> "val", v |-> t.v, i |-> i + 1]
    ELSE IF IsOp(t, "-") THEN LET r == RUn(ts, i + 1) IN [r EXCEPT !.v = WNeg(@)]
    ELSE IF IsOp(t, "~") THEN LET r == RUn(ts, i + 1) IN [r EXCEPT !.v = WNot(@)]
    ELSE IF t.t = "lp"
      THEN LET r == RBin(ts, i + 1, 6) IN
           IF r.k = "rej" THEN r
           ELSE IF r.i <= Len(ts) /\ ts[r.i].t = "rp" THEN [r EXCEPT !.i = @ + 1]
           ELSE RRej(r.i)
    ELSE RRej(i)

RBin(ts, i, lvl) == IF lvl = 0 THEN RUn(ts, i) ELSE RLoop(ts, RBin(ts, i, lvl - 1), lvl)

RLoop(ts, acc, lvl) ==
  IF acc.k = "rej" THEN acc
  ELSE IF acc.i <= Len(ts) /\ IsBin(ts[acc.i]) /\ Level(ts[acc.i].o) = lvl
    THEN LET rhs == RBin(ts, acc.i + 1, lvl - 1) IN
         IF rhs.k = "rej" THEN rhs
         ELSE IF acc.k = "any" \/ rhs.k = "any"
           THEN RLoop(ts, [k |-> "any", v |-> acc.v, i |-> rhs.i], lvl)
         ELSE LET r == Apply(ts[acc.i].o, acc.v, rhs.v)
                  nx == [k |-> r.k, v |-> r.v, i |-> rhs.i]
              IN IF Forced(nx) THEN RLoop(ts, nx, lvl) ELSE nx
  ELSE acc

\* a statement operand: the whole token string must be one expression
RefEval(ts) == LET r == RBin(ts, 1, 6) IN
               IF r.k = "rej" THEN [k |-> "rej", v |-> WZero(W)]
               ELSE IF r.i = Len(ts) + 1 THEN [k |-> r.k, v |-> r.v]
               ELSE [k |-> "rej", v |-> WZero(W)]

-----------------------------------------------------------------------------
(* The shipped machine.                                                    *)
(* st = [i, fr, res, dev]; fr is the stack of active run() invocations,    *)
(* innermost last; a frame is [vals, ops, count, paren, un].               *)

NeedSymbol(c) == c % 2 = 1
NeedNumber(c) == c % 2 = 0

Frame0(paren) == [vals |-> <<>>, ops |-> <<>>, count |-> 0, paren |-> paren, un |-> <<>>]
MInit(ts) == [i |-> 1, fr |-> <<Frame0(FALSE)>>, res |-> [k |-> "run", v |-> WZero(W)], dev |-> {}]

Top(st)  == st.fr[Len(st.fr)]
SetTop(st, f) == [st EXCEPT !.fr[Len(st.fr)] = f]
Done(st, k, v) == [st EXCEPT !.res = [k |-> k, v |-> v]]

\* EvalExpression::execute_stack(): the last operator on the last two values
Exec(f) ==
  LET n == Len(f.vals)
      r == Apply(f.ops[Len(f.ops)], f.vals[n - 1], f.vals[n])
  IN [k |-> r.k, vals |-> Append(SubSeq(f.vals, 1, n - 2), r.v), ops |-> SubSeq(f.ops, 1, Len(f.ops) - 1)]

RECURSIVE ApplyUn(_, _)
ApplyUn(un, v) == IF un = <<>> THEN v
                  ELSE ApplyUn(SubSeq(un, 1, Len(un) - 1),
                               IF un[Len(un)] = "-" THEN WNeg(v) ELSE WNot(v))

\* a value arrives in the top frame (number, parenthesised result, unary result)
PushVal(st, v, ts) ==
  LET f == Top(st) IN SetTop(st, [f EXCEPT !.vals = Append(@, v), !.count = @ + 1, !.un = <<>>])

\* a binary operator arrives: the while loop in front of oper_stack.push(); a frame whose
\* count is negative stopped on a division without value (-1) or a shift outside the word (-2)
RECURSIVE ReduceFor(_, _)
ReduceFor(f, o) ==
  IF f.ops # <<>> /\ Level(f.ops[Len(f.ops)]) <= Level(o)
  THEN LET e == Exec(f) IN
       IF e.k # "val" THEN [f EXCEPT !.count = IF e.k = "rej" THEN -1 ELSE -2]
       ELSE ReduceFor([f EXCEPT !.vals = e.vals, !.ops = e.ops, !.count = @ - 2], o)
  ELSE f

\* the code after the loop of run(): fold what is left, hand the value up
RECURSIVE FoldRest(_)
FoldRest(f) == IF Len(f.vals) > 1 /\ f.ops # <<>>
               THEN LET e == Exec(f) IN
                    IF e.k # "val" THEN [f EXCEPT !.count = IF e.k = "rej" THEN -1 ELSE -2]
                    ELSE FoldRest([f EXCEPT !.vals = e.vals, !.ops = e.ops])
               ELSE f

Finish(st, ts, how) ==
  LET f == Top(st) IN
  IF f.vals = <<>> THEN Done(st, "rej", WZero(W))
  ELSE IF f.paren /\ how = "eol" THEN Done(st, "rej", WZero(W))        \* "Missing ')' in expression"
  ELSE IF Len(f.ops) >= Len(f.vals) THEN Done(st, "rej", WZero(W))     \* "Expression ends with an operator"
  ELSE LET g  == FoldRest(f)
           s1 == st
       IN IF g.count = -1 THEN Done(s1, "rej", WZero(W))
          ELSE IF g.count = -2 THEN Done(s1, "any", WZero(W))
          ELSE LET v == g.vals[Len(g.vals)] IN
               IF Len(st.fr) = 1
               THEN \* back in the directive: anything but end of line after the operand is an error
                    IF s1.i <= Len(ts) THEN Done(s1, "rej", v) ELSE Done(s1, "val", v)
               ELSE LET up  == [s1 EXCEPT !.fr = SubSeq(@, 1, Len(@) - 1)]
                        par == Top(up)
                    IN PushVal(up, ApplyUn(par.un, v), ts)

MStep(st, ts) ==
  LET f   == Top(st)
      eol == st.i > Len(ts)
      t   == IF eol THEN [t |-> "eol"] ELSE ts[st.i]
      adv == [st EXCEPT !.i = @ + 1]
  IN
  IF f.un # <<>> THEN
     \* parse_unary_new()
     IF t.t = "num" THEN PushVal(adv, ApplyUn(f.un, t.v), ts)
     ELSE IF t.t = "lp" THEN [adv EXCEPT !.fr = Append(@, Frame0(TRUE))]
     ELSE IF IsOp(t, "-") \/ IsOp(t, "~") THEN SetTop(adv, [f EXCEPT !.un = Append(@, t.o)])
     ELSE Done(st, "rej", WZero(W))        \* parse_unary_new() fails and run() propagates it
  ELSE IF eol THEN Finish(st, ts, "eol")
  ELSE IF t.t = "lp" THEN
     IF NeedSymbol(f.count) THEN Finish(st, ts, "pushback")          \* the x(r12) case
     ELSE [adv EXCEPT !.fr = Append(@, Frame0(TRUE))]
  ELSE IF t.t = "rp" THEN
     IF f.paren THEN Finish(adv, ts, "rp") ELSE Finish(st, ts, "pushback")
  ELSE IF t.t = "num" THEN
     IF NeedSymbol(f.count) THEN Done(st, "rej", WZero(W))
     ELSE PushVal(adv, t.v, ts)
  ELSE IF t.t = "op" THEN
     IF NeedNumber(f.count) THEN
        IF t.o = "+" /\ f.count = 0
          THEN SetTop(adv, [f EXCEPT !.vals = Append(@, WZero(W)), !.ops = Append(@, "+"), !.count = 2])
        ELSE IF t.o \in {"-", "~"} THEN SetTop(adv, [f EXCEPT !.un = <<t.o>>])
        ELSE Done(st, "rej", WZero(W))
     ELSE IF f.vals = <<>> \/ ~NeedSymbol(f.count) THEN Done(st, "rej", WZero(W))
     ELSE IF t.o \notin BinOps THEN Done(st, "rej", WZero(W))
     ELSE LET g == ReduceFor(f, t.o) IN
          IF g.count = -1 THEN Done(st, "rej", WZero(W))
          ELSE IF g.count = -2 THEN Done(st, "any", WZero(W))
          ELSE SetTop(adv, [g EXCEPT !.ops = Append(@, t.o), !.count = @ + 1])
  ELSE Done(st, "rej", WZero(W))

RECURSIVE MRun(_, _)
MRun(st, ts) == IF st.res.k # "run" THEN st
                ELSE LET n == MStep(st, ts) IN IF Forced(n) THEN MRun(n, ts) ELSE n

ImplEval(ts) == LET s == MRun(MInit(ts), ts) IN [k |-> s.res.k, v |-> s.res.v, dev |-> s.dev]

-----------------------------------------------------------------------------
(* Three-way verdict (DESIGN.md 2.3) for an observation obs = [k, v] with  *)
(* k in {"val", "rej", "crash"}.                                           *)

SameRes(a, b) == a.k = b.k /\ (a.k = "val" => a.v = b.v)

Verdict(ts, obs) ==
  LET ref == RefEval(ts)
      imp == ImplEval(ts)
  IN IF ref.k = "any" THEN "ok"       \* the property is silent (shift count out of range)
     ELSE IF SameRes(obs, ref) THEN (IF SameRes(imp, ref) \/ imp.k = "any" THEN "ok" ELSE "stale")
     ELSE IF imp.dev # {} /\ (SameRes(obs, imp) \/ (imp.k = "any" /\ obs.k = "val")) THEN "dev"
     ELSE "violation"
=============================================================================
