INIT Init
NEXT Next
CONSTANTS
  Vals = {0, 1, 32767, 32768, 65535, 4660}
  ByteVals = {0, 1, 127, 128, 255, 153}
INVARIANT Emit
