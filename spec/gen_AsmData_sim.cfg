SPECIFICATION SpecR
CONSTANTS
  MaxLen = 14
  Seed = 0
INVARIANT Emit
