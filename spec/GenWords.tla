------------------------------ MODULE GenWords ------------------------------
(***************************************************************************)
(* Field-corner machine words for the decoders (C08) and simulators.       *)
(* An instruction word is a row of contiguous bit fields, and the values a *)
(* decoder treats specially are fields of all ones or all ones but the     *)
(* lowest bit (register 15/31/62/63, mode 7, "long immediate follows").    *)
(* A word made of a few such fields is a union of a few runs of one bits.  *)
(* This module enumerates every 32-bit word that is a union of at most     *)
(* MaxRuns runs: the state is the increasing sequence of cut positions     *)
(* c1 < c2 < .. in 0..32, bit i is set iff an odd number of cuts is <= i.  *)
(* Words are printed as two 16-bit halves (TLC integers are 32-bit).       *)
(***************************************************************************)
EXTENDS Integers, Sequences, FiniteSets, TLC, Json
CONSTANT MaxRuns
VARIABLE cuts
Init == cuts = <<>>
Next == /\ Len(cuts) < 2 * MaxRuns
        /\ \E c \in (IF cuts = <<>> THEN 0 ELSE cuts[Len(cuts)] + 1)..32 : cuts' = Append(cuts, c)
Spec == Init /\ [][Next]_cuts
BitSet(i) == Cardinality({k \in 1..Len(cuts) : cuts[k] <= i}) % 2 = 1
RECURSIVE Half(_, _)
Half(base, i) == IF i = 16 THEN 0 ELSE (IF BitSet(base + i) THEN 2 ^ i ELSE 0) + Half(base, i + 1)
\* an odd number of cuts leaves the last run open to bit 31
Emit == PrintT("CASE " \o ToJson(<<Half(16, 0), Half(0, 0)>>))
=============================================================================
