INIT InitF
NEXT NextF
CONSTANTS
  MaxLen = 14
INVARIANT EmitBound
