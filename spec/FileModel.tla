------------------------------ MODULE FileModel ------------------------------
(***************************************************************************)
(* Structured, possibly corrupt object files and naken_util sessions for   *)
(* property C17.  A file case is a well-formed file of one format with one *)
(* header/record field overwritten by a boundary value, or truncated at a  *)
(* structure boundary.  A session is a sequence of interactive commands    *)
(* with arguments from the argument classes below, always ended by quit.   *)
(* The acceptance rule is the process protocol of Limits.tla (terminates   *)
(* normally, no signal, no sanitizer report, no timeout).                  *)
(***************************************************************************)
EXTENDS Integers, Sequences, TLC, Json

VARIABLE c

F(n, o, w) == [name |-> n, off |-> o, w |-> w]
\* ELF32 header (offsets from the ELF specification) and section header fields (relative to a header)
ElfHeader == {F("ei_class", 4, 1), F("ei_data", 5, 1), F("e_type", 16, 2), F("e_machine", 18, 2), F("e_entry", 24, 4),
              F("e_phoff", 28, 4), F("e_shoff", 32, 4), F("e_ehsize", 40, 2), F("e_phentsize", 42, 2), F("e_phnum", 44, 2),
              F("e_shentsize", 46, 2), F("e_shnum", 48, 2), F("e_shstrndx", 50, 2)}
ElfSection == {F("sh_name", 0, 4), F("sh_type", 4, 4), F("sh_flags", 8, 4), F("sh_addr", 12, 4), F("sh_offset", 16, 4),
               F("sh_size", 20, 4), F("sh_link", 24, 4), F("sh_info", 28, 4), F("sh_entsize", 36, 4)}
ElfSym == {F("st_name", 0, 4), F("st_value", 4, 4), F("st_size", 8, 4), F("st_info", 12, 1), F("st_shndx", 14, 2)}
Uf2Block == {F("magic0", 0, 4), F("magic1", 4, 4), F("flags", 8, 4), F("addr", 12, 4), F("size", 16, 4), F("blockno", 20, 4),
             F("numblocks", 24, 4), F("family", 28, 4), F("magic_end", 508, 4)}
WdcHead == {F("magic", 0, 1), F("addr", 1, 3), F("len", 4, 3)}

Vals(w) == CASE w = 1 -> {0, 1, 2, 3, 127, 128, 255}
             [] w = 2 -> {0, 1, 2, 40, 63, 64, 65, 255, 32767, 32768, 65535}
             [] w = 3 -> {0, 1, 255, 65535, 65536, 8388607, 16777215}
             [] w = 4 -> {0, 1, 2, 15, 16, 17, 52, 4096, 65535, 65536, 16777216, 2147483647, -2147483647, -2, -1}

\* t = hunk type, n = the value of its length / count field, m = how many longs (or relocation offsets, or symbols) really follow,
\* term = whether the terminating 0 of a reloc32 / symbol block is there
AmigaHunks == [t : {"code", "data", "bss", "reloc32", "symbol", "debug", "name", "unit", "bad"},
               n : {0, 1, 2, 1073741823, 1073741825, -1}, m : {0, 1, 2}, term : BOOLEAN]

Init ==
  \/ \E f \in ElfHeader : \E v \in Vals(f.w) : c = [k |-> "field", fmt |-> "elf", part |-> "header", idx |-> 0, f |-> f, v |-> v]
  \/ \E i \in 0..5 : \E f \in ElfSection : \E v \in Vals(f.w) : c = [k |-> "field", fmt |-> "elf", part |-> "section", idx |-> i, f |-> f, v |-> v]
  \/ \E i \in 0..4 : \E f \in ElfSym : \E v \in Vals(f.w) : c = [k |-> "field", fmt |-> "elf", part |-> "symbol", idx |-> i, f |-> f, v |-> v]
  \/ \E i \in 0..2 : \E f \in Uf2Block : \E v \in Vals(f.w) : c = [k |-> "field", fmt |-> "uf2", part |-> "block", idx |-> i, f |-> f, v |-> v]
  \/ \E i \in 0..1 : \E f \in WdcHead : \E v \in Vals(f.w) : c = [k |-> "field", fmt |-> "wdc", part |-> "block", idx |-> i, f |-> f, v |-> v]
  \/ \E fmt \in {"elf", "uf2", "wdc", "hex", "srec", "ti_txt", "bin", "macho", "amiga"} : \E n \in {0, 1, 2, 3, 4, 7, 8, 15, 16, 17, 31, 32, 33, 51, 52, 53, 63, 64, 100, 200, 400, 511, 512, 513} :
        c = [k |-> "truncate", fmt |-> fmt, n |-> n]
  \/ \E fmt \in {"hex", "srec", "ti_txt"} : \E m \in {"count_ff", "count_00", "bad_digit", "no_newline", "long_line", "empty_line", "type_9", "addr_ffff", "dup_eof", "lowercase", "crlf", "huge_file"} :
        c = [k |-> "text", fmt |-> fmt, m |-> m]
  \/ \E fmt \in {"macho", "amiga", "elf", "uf2"} : \E n \in 0..39 : c = [k |-> "flip", fmt |-> fmt, n |-> n]

  \* Mach-O and Amiga hunk files: every 32-bit word of the header / first load command / first hunks at the boundary values
  \* (byte order of the format), so that every count, size and offset field of those structures is covered
  \/ \E fmt \in {"macho", "amiga"} : \E i \in 0..(IF fmt = "macho" THEN 47 ELSE 15) : \E v \in Vals(4) : c = [k |-> "word", fmt |-> fmt, idx |-> i, v |-> v]
  \* Amiga hunk files built from the hunk grammar (the writer only emits header, code, end): a header, a code hunk,
  \* then one hunk of every type with its length / count field at the boundary values, declared and present lengths
  \* independent, followed by nothing, an end hunk or another code hunk; and each of these cut after every long
  \/ \E h \in AmigaHunks : \E tail \in {"none", "end", "code"} : c = [k |-> "hunks", fmt |-> "amiga", h |-> h, tail |-> tail, cut |-> -1]
  \/ \E h \in {x \in AmigaHunks : x.n \in {1, 2} /\ x.m = x.n} : \E cut \in 0..14 : c = [k |-> "hunks", fmt |-> "amiga", h |-> h, tail |-> "end", cut |-> cut]
  \* the hunk under test in front of the code hunk (the loader stops at the first code hunk), with the entry of the
  \* header's size table that the loader uses to step over a hunk it does not know at boundary values (-4: back onto itself)
  \/ \E h \in {x \in AmigaHunks : x.m = 1 /\ x.term} : \E tab \in {2, 0, -4, -8, -1, 2147483647} :
        c = [k |-> "hunks1", fmt |-> "amiga", h |-> h, tab |-> tab]

Next == FALSE /\ UNCHANGED c
Emit == PrintT("CASE " \o ToJson(c))

=============================================================================
