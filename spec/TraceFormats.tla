---------------------------- MODULE TraceFormats ----------------------------
(* Acceptor for C03.  Each line is one file written by the real code, split  *)
(* into records by the lexers of nv/tokenize.py, with the image recorded     *)
(* from the same run:  {"id","type","img","low","high","gran","file","syms", *)
(*  "entry"?, "rr","rb"}                                                     *)
EXTENDS ObjFormats, Json, IOUtils
Tr == ndJsonDeserialize(IOEnv.TRACE)
VARIABLE l
TInit == l = 1
TNext == l <= Len(Tr) /\ l' = l + 1
Report ==
  IF l > Len(Tr) THEN PrintT("VERDICT " \o ToJson([done |-> Len(Tr)]))
  ELSE LET e == Tr[l] IN
       /\ (FileOk(e) \/ PrintT("VERDICT " \o ToJson([id |-> e.id, side |-> "write", why |-> FileWhy(e)])))
       /\ (~e.load \/ ReadBackOk(e) \/ PrintT("VERDICT " \o ToJson([id |-> e.id, side |-> "read",
               why |-> IF e.rr # 0 THEN "loader rejected the file" ELSE "loaded image differs"])))
=============================================================================
