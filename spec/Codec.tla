-------------------------------- MODULE Codec --------------------------------
(***************************************************************************)
(* Assembler / disassembler agreement (properties C01 C06 C07 C08).        *)
(*                                                                         *)
(* The object of the specification is one *case*: a CPU, a load address    *)
(* and either a byte string (decode first) or an instruction text (encode  *)
(* first).  A case goes through the phases below; each phase is one        *)
(* observation of the real code (harness/m_codec.cpp):                     *)
(*                                                                         *)
(*   decode-first:  Decode(bytes)  -> (len, text)                          *)
(*                  Locality        same len/text with different tail     *)
(*                  Encode(text)   -> accepted?, bytes2                    *)
(*                  DecodeAgain    -> text2                                *)
(*   encode-first:  Encode(text)   -> accepted?, bytes                     *)
(*                  Walk            decode steps from the load address     *)
(*                  ReEncode        each decoded text, at its address      *)
(*                                                                         *)
(* Texts are compared as token sequences produced by a pure lexer          *)
(* (mnemonic, punctuation, numbers as decimal strings).                    *)
(***************************************************************************)
EXTENDS Word, FiniteSets, TLC

\* longest instruction in bytes per CPU, from the architecture documents; CPUs whose
\* maximum cannot be stated from a document get the conservative 16, and the three
\* byte-code machines with table instructions (java, dotnet, webasm) are not bounded.
MaxLenOf(cpu) ==
  \* naken_asm's msp430 entry shares the decoder of msp430x, which also renders the extended (430X) instructions: extension
  \* word + opcode + two operand words
  CASE cpu \in {"msp430", "msp430x"} -> 8
    [] cpu \in {"6502", "6800", "8048", "8041", "8051", "8008", "z80", "stm8", "1802", "4004", "tms1000", "tms1100",
                "f8", "m8c", "sweet16", "86000"} -> 5
    [] cpu \in {"65816", "6809", "68hc08"} -> 5
    [] cpu \in {"68000"} -> 10
    [] cpu \in {"mips", "mips32", "pic32", "n64_rsp", "ps2_ee", "powerpc", "sparc", "arm", "arm64", "cell", "riscv",
                "riscv64", "propeller", "propeller2", "sh4", "thumb", "arc", "xtensa", "lc3", "avr8", "pic14", "pic18",
                "pdk13", "pdk14", "pdk15", "pdk16", "pdp8", "agc", "copper", "f100_l", "cp1610", "unsp", "super_fx",
                "tms9900", "pdp11", "epiphany", "dspic", "pic24"} -> 8
    \* TMS34010: MOVB/MOVE @SAddress, @DAddress = opcode word + two 32-bit addresses
    [] cpu \in {"tms340"} -> 10
    [] cpu \in {"ps2_ee_vu0", "ps2_ee_vu1", "ebpf"} -> 16
    [] cpu \in {"java", "dotnet", "webasm"} -> 1000000
    [] OTHER -> 16

-----------------------------------------------------------------------------
(* decode-first case: e = [cpu, unit, len, tlen, guard, loc, acc, n1, n2, len2] *)

\* C08, single instruction: a length of at least one addressable unit and at most the
\* longest instruction, a NUL-terminated text inside the 128-byte buffer, nothing
\* written behind it, and no dependence on bytes after the instruction
Total(e)  == e.len >= e.unit /\ e.len <= MaxLenOf(e.cpu)
InBuffer(e) == e.tlen < 128 /\ e.guard
Local(e)  == e.loc
C08Single(e) == Total(e) /\ InBuffer(e) /\ Local(e)
C08Why(e) == IF e.len < e.unit THEN "length below one unit"
             ELSE IF e.len > MaxLenOf(e.cpu) THEN "length above the longest instruction"
             ELSE IF ~InBuffer(e) THEN "text not NUL-terminated inside the caller's buffer"
             ELSE "text or length depends on bytes after the instruction"

\* C07: a rendering the assembler accepts decodes, after re-encoding, to the same instruction:
\* same tokens, numbers compared as integers; a negative number and a non-negative one are
\* the same operand when they are the signed and unsigned reading of one 8/16/24-bit field
\* a token is [k |-> "n", v |-> Int] or [k |-> "w", v |-> STRING]
NumEq(a, b) == a = b \/ (a < 0 /\ b >= 0 /\ b - a \in {256, 65536, 16777216})
                     \/ (b < 0 /\ a >= 0 /\ a - b \in {256, 65536, 16777216})
TokEq(a, b) == a.k = b.k /\ (IF a.k = "n" THEN NumEq(a.v, b.v) ELSE a.v = b.v)
SameText(n1, n2) == Len(n1) = Len(n2) /\ \A i \in 1..Len(n1) : TokEq(n1[i], n2[i])
C07Fix(e) == e.acc => SameText(e.n1, e.n2)

-----------------------------------------------------------------------------
(* encode-first case: e = [cpu, unit, acc, b, walk] with walk a sequence of  *)
(* [off, len, racc, rb]                                                      *)

\* the walk tiles the emitted bytes: starts at 0, each step starts where the previous
\* ended, lengths positive, the last step ends exactly at the end
RECURSIVE TilesFrom(_, _, _, _)
TilesFrom(w, i, cur, n) ==
  IF i > Len(w) THEN cur = n
  ELSE w[i].off = cur /\ w[i].len >= 1 /\ cur + w[i].len <= n /\ TilesFrom(w, i + 1, cur + w[i].len, n)
Tiles(e) == TilesFrom(e.walk, 1, 0, Len(e.b))

\* assembling a decoded text again gives exactly the bytes it was decoded from
ReEncodes(e) == \A i \in 1..Len(e.walk) :
                  LET s == e.walk[i] IN
                  (s.racc /\ s.len >= 1 /\ s.off + s.len <= Len(e.b)) => s.rb = SubSeq(e.b, s.off + 1, s.off + s.len)

C01Fix(e) == e.acc => Tiles(e) /\ ReEncodes(e)
C01Why(e) == IF ~Tiles(e) THEN "walking the decoder over the emitted bytes does not consume exactly those bytes"
             ELSE "assembling the decoded text gives different bytes"

-----------------------------------------------------------------------------
(* C06: one instruction form probed with many operand values.              *)
(* g = [cpu, probes] with probes a sequence of [v (8-byte word), acc, b]   *)

\* the probe values: around every field boundary, closed under masking (for every
\* 2^k + d it also contains d, so a wrapped value meets the value it collides with)
ProbeKs == (1..17) \cup {20, 21, 23, 24, 26, 31, 32}
P2(k) == WShl(WOne(8), k)
ProbeSet == {WZero(8), WOne(8), WOnes(8), WFromNat(8, 2), WFromInt(8, -2)}
            \cup UNION {{WSub(P2(k), WOne(8)), P2(k), WAdd(P2(k), WOne(8)),
                         WNeg(P2(k)), WSub(WNeg(P2(k)), WOne(8)), WAdd(WNeg(P2(k)), WOne(8))} : k \in ProbeKs}

IsPow2(d) == ~WIsZero(d) /\ WIsZero(WAnd(d, WSub(d, WOne(8))))
\* v1 < 0 <= v2 are the signed and the unsigned spelling of one k-bit field value
SignedUnsignedPair(v1, v2) ==
  /\ WIsNeg(v1) /\ ~WIsNeg(v2)
  /\ LET d == WSub(v2, v1) IN
     IsPow2(d) /\ WLtU(v2, d) /\ ~WLtS(v1, WNeg(WShrL(d, 1)))

\* operands are C ints: 4294967295 and -1 are the unsigned and the signed 32-bit spelling of
\* one value, so values are compared after reduction to a signed 32-bit integer
Canon(v) == WSext(WTrunc(v, 4), 8)
Collides(p, q) == p.acc /\ q.acc /\ Canon(p.v) # Canon(q.v) /\ p.b = q.b
Legit(p, q) == SignedUnsignedPair(Canon(p.v), Canon(q.v)) \/ SignedUnsignedPair(Canon(q.v), Canon(p.v))
Injective(g) == \A i \in 1..Len(g.probes), j \in 1..Len(g.probes) :
                  (i < j /\ Collides(g.probes[i], g.probes[j])) => Legit(g.probes[i], g.probes[j])
Colliding(g) == {<<i, j>> \in (1..Len(g.probes)) \X (1..Len(g.probes)) :
                   i < j /\ Collides(g.probes[i], g.probes[j]) /\ ~Legit(g.probes[i], g.probes[j])}

\* expected encoding from an architecture module (Msp430Enc / Rv32iEnc)
C01Arch(e) == e.acc /\ e.b = e.expect
=============================================================================
