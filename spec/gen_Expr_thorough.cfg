INIT InitCases
NEXT Next
CONSTANTS
  W = 8
  MaxOps = 4
  MaxParOps = 3
  MaxLadder = 6
  MaxUnOps = 2
  Seed = 0
  Tuples <- GenTuples
INVARIANT Emit
