------------------------------- MODULE GenExpr -------------------------------
(* Case generator for C04: every enumerated token string is printed as one   *)
(* CASE line; the renderer turns it into `.dc64 <expr>` and the recorded     *)
(* bytes come back to TraceExpr.                                             *)
EXTENDS ExprCases, Json

CONSTANT Seed        \* selects the operand tuples of the run (VERIF_SEED)

VARIABLE c
vars == <<c>>

\* 64-bit operands chosen so that different parse trees give different values
P(n) == WFromNat(W, n)
B63  == WMinInt(W)                                   \* 0x8000000000000000
M63  == WNot(WMinInt(W))                             \* 0x7fffffffffffffff
U32  == WFromDigits(W, 16, <<15, 15, 15, 15, 15, 15, 15, 15>>, WZero(W))
K1   == WFromDigits(W, 16, <<1, 2, 3, 4, 5, 6, 7, 8, 9, 10, 11, 12, 13, 14, 15, 1>>, WZero(W))

TupleA == <<P(7), P(5), P(3), P(2), P(11), P(13), P(17)>>
TupleB == <<P(1000003), P(3), P(65537), P(5), P(257), P(2), P(19)>>
TupleC == <<M63, P(2), U32, P(3), B63, P(1), P(5)>>
TupleD == <<K1, P(17), WNeg(P(9)), P(4), WOnes(W), P(6), P(3)>>
TupleE == <<P(1), P(0), P(2), P(0), P(3), P(1), P(2)>>
\* seed-dependent small operands (all distinct, 1..61)
TupleS == LET s == Seed % 9973 IN
          <<P(2 + (s % 53)), P(3 + ((s \div 7) % 41)), P(2 + ((s \div 3) % 29)),
            P(1 + ((s \div 11) % 7)), P(5 + ((s \div 13) % 59)), P(1 + ((s \div 17) % 5)), P(2 + ((s \div 19) % 31))>>
GenTuples == {TupleA, TupleB, TupleC, TupleD, TupleE, TupleS}
QuickTuples == {TupleA, TupleC, TupleS}

\* --- literal spellings -------------------------------------------------------
\* a literal is [t |-> "num", base, ds (most significant first), style, us (underscore
\* after this many leading digits, 0 = none)]; its value is WFromDigits(ds)
Rep(d, n) == [i \in 1..n |-> d] \o <<>>

\* digit strings at and around the width boundaries of each notation (most significant first)
LitDs(base) ==
  CASE base = 16 -> {Rep(15, n) : n \in {1, 2, 4, 8, 9, 15, 16}}
                    \cup {<<1>> \o Rep(0, n) : n \in {0, 1, 4, 8, 15}}
                    \cup {<<8>> \o Rep(0, n) : n \in {3, 7, 15}}
                    \cup {<<7>> \o Rep(15, n) : n \in {3, 7, 15}}
                    \cup {<<1, 2, 3, 4, 5, 6, 7, 8, 9, 10, 11, 12, 13, 14, 15, 0>>, <<10, 11>>, <<0>>}
                    \* hex numbers whose h spelling begins like a 0b binary number: 0bh 0b1h 0b01h 0b2h
                    \cup {<<11>>, <<11, 1>>, <<11, 0, 1>>, <<11, 2>>}
    [] base = 2  -> {Rep(1, n) : n \in {1, 8, 16, 31, 32, 33, 63, 64}}
                    \cup {<<1>> \o Rep(0, n) : n \in {1, 7, 31, 32, 62, 63}}
                    \cup {<<1, 0, 1, 1, 0, 0, 1>>, <<0>>}
    [] base = 8  -> {Rep(7, n) : n \in {1, 2, 3, 11, 21}}
                    \cup {<<1>> \o Rep(0, n) : n \in {1, 5, 10, 11, 21}}
                    \cup {<<1>> \o Rep(7, 21), <<1, 2, 3, 4, 5, 6, 7>>}
    [] base = 10 -> {<<0>>,
                     <<1>>,
                     <<9>>,
                     <<1, 0>>,
                     <<1, 2, 7>>,
                     <<1, 2, 8>>,
                     <<2, 5, 5>>,
                     <<2, 5, 6>>,
                     <<3, 2, 7, 6, 7>>,
                     <<3, 2, 7, 6, 8>>,
                     <<6, 5, 5, 3, 5>>,
                     <<6, 5, 5, 3, 6>>,
                     <<2, 1, 4, 7, 4, 8, 3, 6, 4, 7>>,
                     <<2, 1, 4, 7, 4, 8, 3, 6, 4, 8>>,
                     <<4, 2, 9, 4, 9, 6, 7, 2, 9, 5>>,
                     <<4, 2, 9, 4, 9, 6, 7, 2, 9, 6>>,
                     <<9, 2, 2, 3, 3, 7, 2, 0, 3, 6, 8, 5, 4, 7, 7, 5, 8, 0, 7>>,
                     <<1, 2, 3, 4, 5, 6, 7, 8, 9, 0, 1, 2, 3, 4, 5, 6, 7, 8, 9>>,
                     <<1, 0, 0, 0, 0, 0, 0, 0, 0, 0, 0, 0, 0, 0, 0, 0, 0, 0, 0>>,
                     \* 2^63 and 2^64 - 1 written in decimal: the same 64-bit words as 0x8000000000000000 and 0xffffffffffffffff
                     <<9, 2, 2, 3, 3, 7, 2, 0, 3, 6, 8, 5, 4, 7, 7, 5, 8, 0, 8>>,
                     <<1, 8, 4, 4, 6, 7, 4, 4, 0, 7, 3, 7, 0, 9, 5, 5, 1, 6, 1, 5>>}

Styles == {[style |-> "dec", base |-> 10], [style |-> "0x", base |-> 16], [style |-> "h", base |-> 16],
           [style |-> "0b", base |-> 2], [style |-> "b", base |-> 2], [style |-> "q", base |-> 8],
           [style |-> "oct0", base |-> 8]}

Lit(ds, s, us) == [t |-> "num", base |-> s.base, ds |-> ds, style |-> s.style, us |-> us]

IsLiteralCase(ts) ==
  \/ \E s \in Styles : \E ds \in LitDs(s.base) : \E us \in {0, 1, 2} :
        \/ us < Len(ds) /\ ts = <<Lit(ds, s, us)>>
        \/ us = 0 /\ ts = <<Lit(ds, s, 0), Op("+"), Num(P(1))>>
        \/ us = 0 /\ ts = <<Op("-"), Lit(ds, s, 0)>>
        \/ us = 0 /\ ts = <<Num(P(3)), Op("*"), LP, Lit(ds, s, 0), Op(">>"), Num(P(1)), RP>>
  \* (36 59 34 35 40 41 44 47 42 58 46: characters that are tokens of the language themselves: $ ; " # ( ) , / * : .)
  \/ \E ch \in {32, 48, 65, 97, 126, 10, 13, 9, 92, 39, 0, 36, 59, 34, 35, 40, 41, 44, 47, 42, 58, 46} :
        ts = <<[t |-> "num", base |-> 256, ds |-> <<ch>>, style |-> "chr", us |-> 0]>>

\* spellings that are no literal of any documented notation (a prefix without digits, two suffixes, a digit behind the
\* suffix, a digit outside the base): a token of kind "bad" has no value, alone and as an operand
BadLits == {"0x", "1h2h", "1b0b", "12q8", "0x12h", "0b12", "12a", "0b1b"}
IsBadLiteralCase(ts) == \E x \in BadLits : \/ ts = <<[t |-> "bad", txt |-> x]>>
                                            \/ ts = <<Num(P(1)), Op("+"), [t |-> "bad", txt |-> x]>>
Tier == IF MaxOps >= 4 THEN "thorough" ELSE "quick"
Init == c \in {<<>>}  /\ FALSE
InitCases == \/ IsCase(c)
             \/ IsLiteralCase(c)
             \/ IsBadLiteralCase(c)
Next == FALSE /\ UNCHANGED c
Emit == PrintT("CASE " \o ToJson(c))
=============================================================================
