SPECIFICATION Spec
CONSTANTS
  MaxLen = 4
  MaxDeep = 4
INVARIANT Emit
INVARIANT EmitPool
