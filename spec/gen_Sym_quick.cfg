SPECIFICATION Spec
CONSTANTS
  MaxLen = 4
INVARIANT Emit
