INIT InitC
NEXT NextC
CONSTANTS
  MaxLen = 5
  MaxOps = 3
  CountsIfndef = TRUE
  CountsCloses = TRUE
INVARIANT EmitC
