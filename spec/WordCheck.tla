----------------------------- MODULE WordCheck -----------------------------
(* Word.tla checked against TLC's native integers where both are available: *)
(* every operand pair at 8 bits, a boundary-heavy grid at 16 and 24 bits.   *)
EXTENDS Word, TLC

ToNatU(a) == IF Len(a) = 1 THEN a[1] ELSE IF Len(a) = 2 THEN a[1] + 256 * a[2]
             ELSE a[1] + 256 * a[2] + 65536 * a[3]
Mod(n) == IF n = 1 THEN 256 ELSE IF n = 2 THEN 65536 ELSE 16777216
ToIntS(a) == IF WIsNeg(a) THEN ToNatU(a) - Mod(Len(a)) ELSE ToNatU(a)

Grid(n) == IF n = 1 THEN 0..255
           ELSE {0, 1, 2, 3, 7, 127, 128, 129, 255, 256, 257, 1000,
                 Mod(n) \div 2 - 1, Mod(n) \div 2, Mod(n) \div 2 + 1,
                 Mod(n) - 256, Mod(n) - 2, Mod(n) - 1, 12345 % Mod(n), 54321 % Mod(n)}

TDiv(x, y) == IF (x >= 0) = (y >= 0) THEN (IF x >= 0 THEN x \div y ELSE (-x) \div (-y))
              ELSE -((IF x >= 0 THEN x ELSE -x) \div (IF y >= 0 THEN y ELSE -y))
TRem(x, y) == x - y * TDiv(x, y)

Ok(n) == \A x \in Grid(n), y \in Grid(n) :
   LET a == WFromNat(n, x)  b == WFromNat(n, y)  m == Mod(n) IN
   /\ ToNatU(a) = x
   /\ ToNatU(WAdd(a, b)) = (x + y) % m
   /\ ToNatU(WSub(a, b)) = (x - y + m) % m
   /\ ToNatU(WNeg(a)) = (m - x) % m
   /\ (n <= 2 => ToNatU(WMul(a, b)) = ((x % 65536) * (y % 32768) + (IF y >= 32768 THEN (x * 32768) % m ELSE 0)) % m)
   /\ WLtU(a, b) = (x < y)
   /\ WLtS(a, b) = (ToIntS(a) < ToIntS(b))
   /\ WFromInt(n, ToIntS(a)) = a
   /\ (WDivDefined(a, b) =>
         /\ ToIntS(WDivS(a, b)) = TDiv(ToIntS(a), ToIntS(b))
         /\ ToIntS(WModS(a, b)) = TRem(ToIntS(a), ToIntS(b)))
   /\ (y # 0 => /\ ToNatU(WDivModU(a, b)[1]) = x \div y
                /\ ToNatU(WDivModU(a, b)[2]) = x % y)
   /\ \A k \in 0..(8 * n - 1) :
         /\ (y = 0 => ToNatU(WShrL(a, k)) = x \div (2 ^ k))
         /\ (y = 0 => ToIntS(WShrA(a, k)) = (IF ToIntS(a) >= 0 THEN ToIntS(a) \div (2 ^ k)
                                               ELSE -(((-ToIntS(a)) + (2 ^ k) - 1) \div (2 ^ k))))
         /\ (y = 0 /\ (n = 1 \/ k <= 7) => ToNatU(WShl(a, k)) = (x * (2 ^ k)) % m)

ASSUME Ok(1)
ASSUME Ok(2)
ASSUME Ok(3)
ASSUME WFromDigits(2, 10, <<6, 5, 5, 3, 5>>, WZero(2)) = <<255, 255>>
ASSUME WFromDigits(8, 16, <<15, 15, 15, 15, 15, 15, 15, 15, 15, 15, 15, 15, 15, 15, 15, 15>>, WZero(8)) = WOnes(8)
ASSUME WMul(WOnes(8), WOnes(8)) = WOne(8)
ASSUME WDivS(WFromInt(8, -7), WFromInt(8, 2)) = WFromInt(8, -3)
ASSUME WModS(WFromInt(8, -7), WFromInt(8, 2)) = WFromInt(8, -1)
ASSUME WShl(WOne(8), 63) = WMinInt(8)
ASSUME WShrA(WMinInt(8), 63) = WOnes(8)
ASSUME PrintT("NOTE WordCheck evaluated")
=============================================================================
