SPECIFICATION Spec
CONSTANTS
  Alphabet <- Full
  MaxLen = 5
INVARIANTS LabelStable
