SPECIFICATION Spec
CONSTANTS
  Alphabet <- Flat
  MaxLen = 6
INVARIANTS LabelStable
