INIT Init
NEXT Next
CONSTANTS
  Bases = {1, 2, 3, 4}
  Types = {"hex", "bin", "srec", "elf", "wdc", "uf2"}
INVARIANT Emit
INVARIANT EmitCpu
INVARIANT EmitLink
