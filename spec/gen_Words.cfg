SPECIFICATION Spec
CONSTANTS
  MaxRuns = 2
INVARIANT Emit
