------------------------------ MODULE GenRv32iEnc ------------------------------
(* RV32I instructions for the architecture clause of C01: every opcode with  *)
(* registers at the field corners (x0, x1, x15, x16, x31) and immediates at  *)
(* the ends of each field and one step beyond.                                *)
EXTENDS Rv32iEnc, TLC, Json
VARIABLE c
Regs == {0, 1, 15, 16, 31}
In(op, rd, rs1, rs2, imm) == [op |-> op, rd |-> rd, rs1 |-> rs1, rs2 |-> rs2, imm |-> imm]
Imm12 == {0, 1, -1, 5, 2047, -2048, 2048, -2049, 1365, -1366}
Imm13 == {0, 2, -2, 8, 4094, -4096, 4096, -4098, 1364, 2048, -2048}
Imm21 == {0, 2, -2, 2048, 4096, 1048574, -1048576, 1048576, 699050, -4096}
Imm20 == {0, 1, 15, 16, 603, 524288, 1048575, 1048576, 699050}
Init ==
  \/ \E op \in DOMAIN OpR, rd \in Regs, rs1 \in Regs, rs2 \in Regs : c = In(op, rd, rs1, rs2, 0)
  \/ \E op \in DOMAIN OpI \cup DOMAIN OpL \cup {"jalr"}, rd \in Regs, rs1 \in Regs, imm \in Imm12 : c = In(op, rd, rs1, 0, imm)
  \/ \E op \in DOMAIN OpSh, rd \in Regs, rs1 \in Regs, imm \in {0, 1, 8, 15, 16, 31, 32} : c = In(op, rd, rs1, 0, imm)
  \/ \E op \in DOMAIN OpS, rs1 \in Regs, rs2 \in Regs, imm \in Imm12 : c = In(op, 0, rs1, rs2, imm)
  \/ \E op \in DOMAIN OpB, rs1 \in Regs, rs2 \in Regs, imm \in Imm13 : c = In(op, 0, rs1, rs2, imm)
  \/ \E op \in {"lui", "auipc"}, rd \in Regs, imm \in Imm20 : c = In(op, rd, 0, 0, imm)
  \/ \E rd \in Regs, imm \in Imm21 : c = In("jal", rd, 0, 0, imm)
  \/ \E op \in {"ecall", "ebreak"} : c = In(op, 0, 0, 0, 0)
\* the RV64I word forms, for the field clause of C06 (assembled under .riscv64)
Init64 ==
  \/ \E op \in DOMAIN OpRW, rd \in Regs, rs1 \in Regs, rs2 \in Regs : c = In(op, rd, rs1, rs2, 0)
  \/ \E op \in DOMAIN OpShW, rd \in Regs, rs1 \in Regs, imm \in {0, 1, 15, 16, 31, 32, 33, 40, 63, 64, -1} : c = In(op, rd, rs1, 0, imm)
  \/ \E op \in {"addiw", "lwu", "ld"}, rd \in Regs, rs1 \in Regs, imm \in Imm12 : c = In(op, rd, rs1, 0, imm)
  \/ \E rs1 \in Regs, rs2 \in Regs, imm \in Imm12 : c = In("sd", 0, rs1, rs2, imm)
Next == FALSE /\ UNCHANGED c
Emit == PrintT("CASE " \o ToJson(c))
=============================================================================
