
