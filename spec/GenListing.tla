----------------------------- MODULE GenListing -----------------------------
(* Program shapes for C18: every sequence of 1..MaxLen statements over the  *)
(* alphabet below that writes at least one byte.  The check renders each    *)
(* with instructions of a CPU's pool (c = 0 short, 1 long) and computes the *)
(* sizes that Listing.tla's Layout needs.                                   *)
(*   org c:  0 -> 0x200, 1 -> 0x1000, 2 -> 0xfff0 (the program crosses      *)
(*           0x10000), 3 -> 0x12340                                         *)
(*   data c: size class  0 -> 4, 1 -> 16, 2 -> 20, 3 -> 36 bytes            *)
(*   inc c:  0 -> without .list, 1 -> with .list                            *)
(*   rep c:  .repeat of  0 -> one instruction x3, 1 -> two instructions x2, *)
(*           2 -> data x2, 3 -> an instruction and data x2                  *)
EXTENDS Integers, Sequences, TLC, Json
CONSTANT MaxLen
VARIABLE c
St(k, x) == [k |-> k, c |-> x]
Alphabet == {St("org", x) : x \in 0..3} \cup {St("insn", x) : x \in 0..1} \cup {St("data", x) : x \in 0..3}
            \cup {St("res", 0), St("label", 0), St("macro", 0)} \cup {St("rep", x) : x \in 0..3}
            \cup {St("inc", x) : x \in 0..1}
Writes(s) == s.k \in {"insn", "data", "macro", "rep", "inc"}
Init == \E n \in 1..MaxLen : \E p \in [1..n -> Alphabet] : (\E i \in 1..n : Writes(p[i])) /\ c = p
Next == FALSE /\ UNCHANGED c
Emit == PrintT("CASE " \o ToJson(c))
=============================================================================
