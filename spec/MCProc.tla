------------------------------- MODULE MCProc -------------------------------
EXTENDS Proc
\* every final state of the machine is one the acceptor accepts, and vice versa for
\* the observations the acceptor accepts (checked as an invariant over final states)
FinalAccepted == Done => Accepts(bad, [status |-> status, errs |-> errs, file |-> file])
=============================================================================
