SPECIFICATION Spec
CONSTANTS
  MaxLen = 2
INVARIANT Emit
INVARIANT EmitWrap
INVARIANT EmitWide
