INIT InitC
NEXT NextC
CONSTANTS
  MaxLen = 5
  MaxOps = 2
  CountsIfndef = TRUE
  CountsCloses = TRUE
INVARIANT EmitC
