---------------------------- MODULE MacroExpand ----------------------------
(***************************************************************************)
(* Property C09: .define/equ/.macro/.repeat are transparent text           *)
(* abstractions.  Expand(P) is the program obtained by performing the      *)
(* substitutions by hand; the meaning of P is AsmData!Denote(Expand(P)).   *)
(*                                                                         *)
(* Statements of P (besides the data/location statements of AsmData):      *)
(*   [k |-> "define", n, v]        .define n <v>       (v an item)         *)
(*   [k |-> "equ", n, v]           n equ <v>                               *)
(*   [k |-> "macro", n, np, body]  .macro n(p1..pnp) body .endm            *)
(*   [k |-> "invoke", n, args]     n(arg1, ..)                             *)
(*   [k |-> "repeat", cnt, body]   .repeat cnt body .endr                  *)
(*   [k |-> "pstmt", i]            (in a macro body) the i-th argument as  *)
(*                                 a whole statement                       *)
(* Items may additionally be [k |-> "ref", n] (a define/equ name),         *)
(* [k |-> "param", i], [k |-> "sum", a, b] (a + b of two such items) and,  *)
(* as a macro argument, [k |-> "stmt", s]: the text of a statement.        *)
(***************************************************************************)
EXTENDS AsmData

\* resolve an item to a num/str item under the definitions and the macro arguments
RECURSIVE Resolve(_, _, _)
Resolve(it, defs, args) ==
  CASE it.k = "ref"   -> IF it.n \in DOMAIN defs THEN Resolve(defs[it.n], defs, args) ELSE [k |-> "sym", n |-> it.n]
    [] it.k = "param" -> Resolve(args[it.i], defs, <<>>)
    [] it.k = "sum"   -> LET a == Resolve(it.a, defs, args)
                             b == Resolve(it.b, defs, args)
                         IN IF a.k = "num" /\ b.k = "num" THEN [k |-> "num", v |-> WAdd(a.v, b.v)] ELSE [k |-> "bad"]
    [] OTHER          -> it

ResolveStmt(s, defs, args) ==
  IF s.k = "data" THEN [s EXCEPT !.items = [i \in 1..Len(s.items) |-> Resolve(s.items[i], defs, args)] \o <<>>]
  ELSE s

\* env = [defs, macros]; returns [env, out]
RECURSIVE ExpandSeq(_, _, _, _, _)
ExpandBody(body, env, args) == ExpandSeq(body, 1, env, args, <<>>)

RECURSIVE Times(_, _)
Times(sq, n) == IF n = 0 THEN <<>> ELSE sq \o Times(sq, n - 1)

ExpandSeq(prog, i, env, args, out) ==
  IF i > Len(prog) THEN [env |-> env, out |-> out]
  ELSE LET s == prog[i] IN
    IF s.k \in {"define", "equ"} THEN
       ExpandSeq(prog, i + 1, [env EXCEPT !.defs = (s.n :> Resolve(s.v, env.defs, args)) @@ @], args, out)
    ELSE IF s.k = "macro" THEN
       ExpandSeq(prog, i + 1, [env EXCEPT !.macros = (s.n :> [np |-> s.np, body |-> s.body]) @@ @], args, out)
    ELSE IF s.k = "invoke" THEN
       LET m == env.macros[s.n]
           as == [j \in 1..Len(s.args) |-> Resolve(s.args[j], env.defs, args)] \o <<>>
           r == ExpandBody(m.body, env, as)
           o == out \o r.out
       IN IF o = o THEN ExpandSeq(prog, i + 1, env, args, o) ELSE [env |-> env, out |-> o]
    ELSE IF s.k = "pstmt" THEN
       LET o == Append(out, ResolveStmt(args[s.i].s, env.defs, <<>>))
       IN IF o = o THEN ExpandSeq(prog, i + 1, env, args, o) ELSE [env |-> env, out |-> o]
    ELSE IF s.k = "repeat" THEN
       LET r == ExpandBody(s.body, env, args)
           o == out \o Times(r.out, s.cnt)
       IN IF o = o THEN ExpandSeq(prog, i + 1, env, args, o) ELSE [env |-> env, out |-> o]
    ELSE LET o == Append(out, ResolveStmt(s, env.defs, args))
         IN IF o = o THEN ExpandSeq(prog, i + 1, env, args, o) ELSE [env |-> env, out |-> o]

Expand(prog) == ExpandSeq(prog, 1, [defs |-> <<>>, macros |-> <<>>], <<>>, <<>>).out

\* an expansion is meaningful when every item resolved to a number or a string
Flat(p) == \A i \in 1..Len(p) : p[i].k = "data" => \A j \in 1..Len(p[i].items) : p[i].items[j].k \in {"num", "str", "here", "sym"}

\* a name of the macro table (define, equ, macro) defined a second time is an error, not a substitution
IsDef(s) == s.k \in {"define", "equ", "macro"}
Redef(prog) == \E i \in 1..Len(prog) : \E j \in (i + 1)..Len(prog) : IsDef(prog[i]) /\ IsDef(prog[j]) /\ prog[i].n = prog[j].n

\* obs as in AsmData!Conforms
Transparent(prog, bpa, big0, obs) == IF Redef(prog) THEN obs.k = "rej"
                                     ELSE LET e == Expand(prog) IN Flat(e) => Conforms(e, bpa, big0, obs)
=============================================================================
