------------------------------- MODULE GenImage -------------------------------
(* Operation scripts for the real Memory class: writes of every width, line markers, clear and    *)
(* reads around 64 KiB page boundaries, with the pages created in any order.  Drawn by simulation; *)
(* BoundScripts are enumerated (every order of creating three pages, then every access width at   *)
(* every offset around the boundaries between them).                                              *)
EXTENDS Integers, Sequences, FiniteSets, TLC, Json
CONSTANT MaxLen
VARIABLES s, n
Pages == {0, 1, 2, 3, 7, 32767}
Offs == {0, 1, 2, 3, 4, 32768, 65531, 65532, 65533, 65534, 65535}
Addrs == {p * 65536 + o : p \in Pages, o \in Offs}
V32 == {<<120, 86, 52, 18>>, <<255, 255, 255, 255>>, <<1, 2, 3, 4>>, <<0, 0, 0, 128>>}
Op(k, a, v, line) == [k |-> k, a |-> a, v |-> v, line |-> line]
Writes == {Op("w8", a, <<v>>, 0) : a \in Addrs, v \in {1, 128, 255}}
          \cup {Op("w16", a, <<v[1], v[2]>>, 0) : a \in Addrs, v \in V32}
          \cup {Op("w32", a, v, 0) : a \in Addrs, v \in V32}
          \cup {Op("w", a, <<v>>, line) : a \in Addrs, v \in {0, 90}, line \in {-2, 1, 65535, 65536}}
          \cup {Op("wd", a, <<>>, line) : a \in Addrs, line \in {-3, 7}}
Reads == {Op(k, a, <<>>, 0) : k \in {"r8", "r16", "r32", "rd", "use"}, a \in Addrs}
Init == s = <<>> /\ n \in 3..MaxLen
\* the top page (32767) is left out of 16/32-bit accesses that would run past 2^31 (TLC integers)
Fits(o) == o.a + 4 < 2147483647
Pick == LET r == RandomElement(1..10) IN
        IF r <= 4 THEN RandomElement(Writes) ELSE IF r = 5 THEN Op("clr", 0, <<>>, 0) ELSE RandomElement(Reads)
NextR == Len(s) < n /\ (LET o == Pick IN s' = IF Fits(o) THEN Append(s, o) ELSE s) /\ UNCHANGED n
SpecR == Init /\ [][NextR]_<<s, n>>
Emit == Len(s) = n => PrintT("CASE " \o ToJson(s))
\* enumerated: three pages touched in each order, one multi-byte write across a boundary, reads of every width around it
Perm3 == {<<1, 2, 3>>, <<1, 3, 2>>, <<2, 1, 3>>, <<2, 3, 1>>, <<3, 1, 2>>, <<3, 2, 1>>}
Trip == {<<0, 1, 2>>, <<0, 1, 3>>, <<1, 2, 7>>, <<0, 2, 3>>}
Touches(t, p) == [i \in 1..3 |-> Op("w8", t[p[i]] * 65536 + 16, <<p[i]>>, 0)]
\* nothing written in the lower page: a value whose first byte lies in a page that does not exist
Lone == {<<Op("w16", q * 65536, <<52, 18>>, 0), Op(k, q * 65536 - d, <<>>, 0), Op("w8", 0, <<0>>, 0), Op(k, q * 65536 - d, <<>>, 0)>> :
           q \in {1, 2}, k \in {"r16", "r32"}, d \in {1, 2, 3}}
\* the line marker of a byte is the source line that wrote it (or DL_DATA / DL_NO_CG), whatever its size
Lines == {<<Op("w", a, <<90>>, line), Op("rd", a, <<>>, 0), Op("rd", a + 1, <<>>, 0), Op("wd", a + 1, <<>>, line), Op("rd", a + 1, <<>>, 0), Op("r8", a, <<>>, 0)>> :
            a \in {0, 65535, 131072}, line \in {-3, -2, 1, 32767, 32768, 65534, 65535, 65536, 131071, 1000000}}
\* a loader narrows low/high to the code it found while data it loaded lies outside: the data still reads back
Bounds == {<<Op("w8", d, <<52>>, 0), Op("w16", d + 1, <<120, 86>>, 0), Op("w32", c, <<1, 2, 3, 4>>, 0), Op("lo", c, <<>>, 0), Op("hi", c + 3, <<>>, 0),
             Op("r8", d, <<>>, 0), Op("r16", d + 1, <<>>, 0), Op("r32", d, <<>>, 0), Op("rd", d, <<>>, 0), Op("r32", c, <<>>, 0),
             Op("w8", d + 8, <<9>>, 0), Op("r8", d, <<>>, 0)>> :
             d \in {512, 65534, 196608}, c \in {63488, 131072}}
BoundScripts == {Touches(t, p) \o <<Op(wk, t[2] * 65536 - d, v, 0)>> \o
                   [i \in 1..4 |-> Op(rk, t[2] * 65536 - 4 + i, <<>>, 0)] \o <<Op("pmin", t[2] * 65536, <<>>, 0), Op("pmax", t[1] * 65536 + 5, <<>>, 0)>> :
                   t \in Trip, p \in Perm3, wk \in {"w16", "w32"}, d \in {1, 2, 3}, v \in {<<120, 86, 52, 18>>}, rk \in {"r8", "r16", "r32"}}
                \cup Lone \cup Lines \cup Bounds

InitF == s = <<>> /\ n = 0
NextF == FALSE /\ UNCHANGED <<s, n>>
EmitBound == (s = <<>>) => PrintT("BOUND " \o ToJson(BoundScripts))
=============================================================================
