INIT Init64
NEXT Next
INVARIANT Emit
