------------------------------ MODULE TraceCond ------------------------------
(* Acceptor for C10: {"id", "prog": [stmts], "obs": {"k": "ok"|"rej", "out": [bytes], *)
(*                     "syms": [{"n", "a"}]}} - one real two-pass assembly per line.   *)
EXTENDS Cond, Json, IOUtils

Tr == ndJsonDeserialize(IOEnv.TRACE)

VARIABLE l
Init == l = 1
Next == l <= Len(Tr) /\ l' = l + 1
Spec == Init /\ [][Next]_l

Report ==
  IF l > Len(Tr) THEN PrintT("VERDICT " \o ToJson([done |-> Len(Tr)]))
  ELSE LET e  == Tr[l]
           vd == Verdict(e.prog, e.obs)
       IN vd = "ok" \/
          PrintT("VERDICT " \o ToJson([id |-> e.id, vd |-> vd, dev |-> DevNames(e.prog),
                                        ref |-> RefRun(e.prog), imp |-> MRun(e.prog)]))
=============================================================================
