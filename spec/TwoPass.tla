------------------------------ MODULE TwoPass ------------------------------
(***************************************************************************)
(* The two-pass protocol of naken_asm (AsmContext::assemble run twice,     *)
(* Symbols::lock/scope_reset in between, per-CPU "operand unknown in pass  *)
(* 1" flag bytes kept in the image) for a variable-length instruction,     *)
(* modelled on MSP430 `mov.w #X, r5`: 2 bytes when X is known and one of   *)
(* the constant-generator values, otherwise 4.                             *)
(*                                                                         *)
(* Statements                                                              *)
(*   [k |-> "label", n]      n: followed by the probe `.dc32 $` `.dc32 n`  *)
(*   [k |-> "insn", r]       mov.w #r, r5 with r = [c |-> Int] a constant  *)
(*                           or [s |-> name] a symbol                      *)
(*   [k |-> "set", n, v]     .set n = v                                    *)
(*   [k |-> "scope"] [k |-> "ends"]                                        *)
(*   [k |-> "data", sz]      sz bytes of data                               *)
(*                                                                         *)
(* One action per statement and pass.  The property (C02) is LabelStable:  *)
(* in pass 2 every label is met at the address bound to it in pass 1.      *)
(***************************************************************************)
EXTENDS TwoPassFn

CONSTANTS Alphabet, MaxLen   \* programs: all sequences of 1..MaxLen statements over Alphabet

VARIABLES prog, ip, pass, pc, syms, scope, inscope, flag, sizes1, drift, err
vars == <<prog, ip, pass, pc, syms, scope, inscope, flag, sizes1, drift, err>>

S == prog[ip]

Init == /\ \E n \in 1..MaxLen : prog \in [1..n -> Alphabet]
        /\ ip = 1 /\ pass = 1 /\ pc = 0 /\ syms = <<>> /\ scope = 0 /\ inscope = FALSE
        /\ flag = {} /\ sizes1 = <<>> /\ drift = {} /\ err = FALSE

Running == ~err /\ ip <= Len(prog)

Label ==
  /\ Running /\ S.k = "label"
  /\ IF pass = 1
     THEN LET i == Find(syms, S.n, scope, inscope)
              cur == IF inscope THEN scope ELSE 0 IN
          \* Symbols::append: a name may be defined again only as a local in a scope
          IF i # 0 /\ (~inscope \/ syms[i].sc = scope)
          THEN err' = TRUE /\ UNCHANGED <<syms, drift>>
          ELSE /\ syms' = Append(syms, [n |-> S.n, sc |-> cur, a |-> pc, rw |-> FALSE])
               /\ UNCHANGED <<err, drift>>
     ELSE \* locked: append() does nothing; the label is where the location counter is
          LET i == Find(syms, S.n, scope, inscope) IN
          /\ drift' = IF i # 0 /\ syms[i].a # pc THEN drift \cup {S.n} ELSE drift
          /\ UNCHANGED <<syms, err>>
  /\ pc' = pc + ProbeSize
  /\ sizes1' = IF pass = 1 THEN Append(sizes1, ProbeSize) ELSE sizes1
  /\ ip' = ip + 1
  /\ UNCHANGED <<prog, pass, scope, inscope, flag>>

Insn ==
  /\ Running /\ S.k = "insn"
  /\ LET val == Value(S.r, syms, scope, inscope) IN
     IF pass = 1
     THEN LET long == ~val.known \/ val.v \notin CG IN
          /\ flag' = IF ~val.known THEN flag \cup {pc} ELSE flag
          /\ pc' = pc + (IF long THEN 4 ELSE 2)
          /\ sizes1' = Append(sizes1, IF long THEN 4 ELSE 2)
          /\ UNCHANGED err
     ELSE IF ~val.known THEN err' = TRUE /\ UNCHANGED <<pc, flag, sizes1>>
     ELSE LET long == pc \in flag \/ val.v \notin CG IN
          /\ pc' = pc + (IF long THEN 4 ELSE 2)
          /\ UNCHANGED <<flag, sizes1, err>>
  /\ ip' = ip + 1
  /\ UNCHANGED <<prog, pass, syms, scope, inscope, drift>>

SetSym ==
  /\ Running /\ S.k = "set"
  /\ LET i == Find(syms, S.n, scope, inscope) IN
     \* Symbols::set: updates a writable entry (also when locked), creates it in pass 1
     IF i # 0 THEN (IF syms[i].rw THEN syms' = [syms EXCEPT ![i].a = S.v] /\ UNCHANGED err
                    ELSE err' = TRUE /\ UNCHANGED syms)
     ELSE IF pass = 1
       THEN syms' = Append(syms, [n |-> S.n, sc |-> 0, a |-> S.v, rw |-> TRUE])   \* Symbols::set: scope 0
            /\ UNCHANGED err
       ELSE UNCHANGED <<syms, err>>
  /\ sizes1' = IF pass = 1 THEN Append(sizes1, 0) ELSE sizes1
  /\ ip' = ip + 1
  /\ UNCHANGED <<prog, pass, pc, scope, inscope, flag, drift>>

ScopeBegin ==
  /\ Running /\ S.k = "scope"
  /\ IF inscope THEN err' = TRUE /\ UNCHANGED <<scope, inscope>>
     ELSE scope' = scope + 1 /\ inscope' = TRUE /\ UNCHANGED err
  /\ sizes1' = IF pass = 1 THEN Append(sizes1, 0) ELSE sizes1
  /\ ip' = ip + 1
  /\ UNCHANGED <<prog, pass, pc, syms, flag, drift>>

ScopeEnd ==
  /\ Running /\ S.k = "ends"
  /\ inscope' = FALSE
  /\ sizes1' = IF pass = 1 THEN Append(sizes1, 0) ELSE sizes1
  /\ ip' = ip + 1
  /\ UNCHANGED <<prog, pass, pc, syms, scope, flag, drift, err>>

Data ==
  /\ Running /\ S.k = "data"
  /\ pc' = pc + S.sz
  /\ sizes1' = IF pass = 1 THEN Append(sizes1, S.sz) ELSE sizes1
  /\ ip' = ip + 1
  /\ UNCHANGED <<prog, pass, syms, scope, inscope, flag, drift, err>>

\* main(): symbols.lock(); symbols.scope_reset(); pass = 2; init()
EndPass1 ==
  /\ ~err /\ pass = 1 /\ ip > Len(prog)
  /\ pass' = 2 /\ ip' = 1 /\ pc' = 0 /\ scope' = 0 /\ inscope' = FALSE
  /\ UNCHANGED <<prog, syms, flag, sizes1, drift, err>>

Next == Label \/ Insn \/ SetSym \/ ScopeBegin \/ ScopeEnd \/ Data \/ EndPass1
Spec == Init /\ [][Next]_vars

Finished == pass = 2 /\ ip > Len(prog) /\ ~err

\* C02
LabelStable == drift = {}

\* the flag protocol alone (no scopes, no .set): sizes never change between passes
NoScopes == \A i \in 1..Len(prog) : prog[i].k \notin {"scope", "ends", "set"}
ProtocolSound == NoScopes => LabelStable

=============================================================================
