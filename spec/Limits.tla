-------------------------------- MODULE Limits --------------------------------
(***************************************************************************)
(* Bounded resources of naken_asm / naken_util and the process protocol of *)
(* properties C16 and C17.                                                 *)
(*                                                                         *)
(* Every fixed-size buffer of the tokenizer, macro processor and include   *)
(* handling is a resource with a capacity; the code appends to it while    *)
(* reading input.  Grow is enabled only below the capacity; at the         *)
(* capacity the only step is Overflow -> an error diagnostic and exit 1.   *)
(* The invariant of the design is fill <= capacity.                        *)
(*                                                                         *)
(*  Capacities (from the sources): token 512, macro body 1024, parameter   *)
(*  stack 4096, nested macros 128, unget buffer 512, include path 4096,    *)
(*  quoted string 512.                                                     *)
(***************************************************************************)
EXTENDS Integers, Sequences, TLC

CONSTANT Cap            \* capacity used when model checking (scaled down)
VARIABLES fill, need, outcome
vars == <<fill, need, outcome>>

Init == fill = 0 /\ need \in 0..(2 * Cap + 1) /\ outcome = "reading"
Grow == outcome = "reading" /\ fill < need /\ fill < Cap /\ fill' = fill + 1 /\ UNCHANGED <<need, outcome>>
Done == outcome = "reading" /\ fill = need /\ outcome' = "accepted" /\ UNCHANGED <<fill, need>>
Overflow == outcome = "reading" /\ fill < need /\ fill = Cap /\ outcome' = "error" /\ UNCHANGED <<fill, need>>
Next == Grow \/ Done \/ Overflow
Spec == Init /\ [][Next]_vars

NeverOverrun == fill <= Cap
OverLimitIsError == outcome = "accepted" => need <= Cap

-----------------------------------------------------------------------------
(* Acceptance of one observed run of naken_asm or naken_util.               *)
(*  e = [res, len, obs] with obs = [status, died (signal/sanitizer/timeout), diag] *)
Terminated(e) == ~e.obs.died
StatusOk(e)   == e.obs.status \in {0, 1}
Diagnosed(e)  == e.obs.status = 1 => e.obs.diag >= 1
RunOk(e) == Terminated(e) /\ StatusOk(e) /\ Diagnosed(e)
RunWhy(e) == IF ~Terminated(e) THEN "died: signal, sanitizer report or timeout"
             ELSE IF ~StatusOk(e) THEN "exit status is neither 0 nor 1"
             ELSE "exit status 1 without a diagnostic"
=============================================================================
