-------------------------------- MODULE Link --------------------------------
(***************************************************************************)
(* Linking of imported object code (C20): .o / .a files given to naken_asm *)
(* for a MIPS-family target.                                               *)
(*                                                                         *)
(* A scenario is                                                           *)
(*   files : sequence of [kind |-> "o" | "a", members |-> Seq(member)]     *)
(*           member = sequence of functions laid out one after the other   *)
(*           in the member's .text                                         *)
(*   function = [name, size (words), tail, calls |-> Seq([at |-> word      *)
(*              index, to |-> name])]  each call is a `jal 0` word with an *)
(*              R_MIPS_26 relocation naming `to`; tail # 0 is the value of *)
(*              the last word                                              *)
(*   refs  : the names the program calls (`jal name`), in program order    *)
(*   base  : address of the program's first byte; the program is           *)
(*           2 words per ref plus 2 words (jr $ra / nop)                   *)
(*                                                                         *)
(* The reference semantics is the property: the functions reachable from   *)
(* refs through calls are each placed once, after the program, at the      *)
(* address of their symbol, with their own bytes, every call patched to    *)
(* the callee's address; nothing else is placed; a name that no file       *)
(* defines is an error.                                                    *)
(*                                                                         *)
(* The machine below is AsmContext::link / Linker / link_function_mips as  *)
(* written: pass 1 discovers names token by token and function by          *)
(* function (Linker::symbol_list_buffer), assigning addresses as it goes;  *)
(* pass 2 places and patches.                                              *)
(***************************************************************************)
EXTENDS Integers, Sequences, FiniteSets, TLC

Forced(v) == v = v

\* all functions of a scenario, with the file and member they are in
AllFuncs(files) ==
  UNION {UNION {{[file |-> i, member |-> j, idx |-> k, f |-> files[i].members[j][k]] : k \in 1..Len(files[i].members[j])}
                : j \in 1..Len(files[i].members)} : i \in 1..Len(files)}
Defined(files) == {x.f.name : x \in AllFuncs(files)}
\* naken_asm takes the first definition it meets: files are searched last-given first (Linker::add_file
\* prepends), members and symbols in file order
Before(x, y) == \/ x.file > y.file
                \/ (x.file = y.file /\ x.member < y.member)
                \/ (x.file = y.file /\ x.member = y.member /\ x.idx < y.idx)
Def(files, n) == CHOOSE x \in AllFuncs(files) : x.f.name = n /\ \A y \in AllFuncs(files) : y.f.name = n => (y = x \/ Before(x, y))
Callees(files, n) == {Def(files, n).f.calls[c].to : c \in 1..Len(Def(files, n).f.calls)}
Unambiguous(files) == \A x, y \in AllFuncs(files) : x.f.name = y.f.name => x = y

\* reachability from the program's references
RECURSIVE Reach(_, _, _)
Reach(files, done, todo) ==
  IF todo = {} THEN done
  ELSE LET n == CHOOSE x \in todo : TRUE
           nx == IF n \in Defined(files) THEN Callees(files, n) ELSE {}
           d2 == done \cup {n} IN
       IF Forced(d2) THEN Reach(files, d2, (todo \cup nx) \ d2) ELSE d2
Needed(files, refs) == Reach(files, {}, {refs[i] : i \in 1..Len(refs)})
Resolvable(files, refs) == Needed(files, refs) \subseteq Defined(files)

\* offset (bytes) of a function in its member's .text
RECURSIVE OffsetIn(_, _)
OffsetIn(member, k) == IF k = 1 THEN 0 ELSE OffsetIn(member, k - 1) + 4 * member[k - 1].size
\* the words of a function as the object file holds them: call words are `jal 0`, the others
\* `addiu $v0, $0, imm` with an immediate that identifies function and word
Fid(n) == CASE n = "f" -> 1 [] n = "g" -> 2 [] n = "h" -> 3 [] n = "k" -> 4 [] n = "add" -> 5 [] OTHER -> 6
IsCallAt(f, w) == \E c \in 1..Len(f.calls) : f.calls[c].at = w
CalleeAt(f, w) == f.calls[CHOOSE c \in 1..Len(f.calls) : f.calls[c].at = w].to
\* f.tail # 0: the last word of the function is that value (e.g. a jal to a fixed address, no relocation)
ObjWord(f, w) == IF IsCallAt(f, w) THEN 201326592                                        \* 0x0c000000
                 ELSE IF w = f.size - 1 /\ f.tail # 0 THEN f.tail
                 ELSE 604110848 + Fid(f.name) * 16 + w                                    \* 0x24020000
\* the word the image must hold for word w of f when symbols are at sym[.]
\* jal holds bits 27..2 of the target (the upper four bits come from the address of the jal itself)
LinkedWord(f, w, sym) == IF IsCallAt(f, w) THEN 201326592 + ((sym[CalleeAt(f, w)] \div 4) % 67108864) ELSE ObjWord(f, w)
Bytes(w) == <<w % 256, (w \div 256) % 256, (w \div 65536) % 256, (w \div 16777216) % 256>>      \* little endian

ProgEnd(base, refs) == base + 8 * Len(refs) + 8

-----------------------------------------------------------------------------
(* The property, over an observed result: sym (name -> address) for the    *)
(* names the symbol table lists, img (set of <<address, byte>>).           *)
PlacedRight(files, n, sym, img) ==
  LET f == Def(files, n).f IN
  /\ n \in DOMAIN sym
  /\ \A w \in 0..(f.size - 1) : \A b \in 1..4 :
        <<sym[n] + 4 * w + b - 1, Bytes(LinkedWord(f, w, sym))[b]>> \in img

Span(a, n) == a..(a + n - 1)
NoOverlap(files, need, sym) ==
  \A x, y \in need : x # y => Span(sym[x], 4 * Def(files, x).f.size) \cap Span(sym[y], 4 * Def(files, y).f.size) = {}
\* everything behind the program is needed code: nothing unreferenced, nothing twice
OnlyNeeded(files, need, sym, img, end) ==
  {c[1] : c \in {d \in img : d[1] >= end}} = UNION {Span(sym[n], 4 * Def(files, n).f.size) : n \in need}

=============================================================================
