SPECIFICATION SpecR
CONSTANTS
  MaxLen = 6
INVARIANT Emit
