INIT InitF
NEXT NextF
CONSTANTS
  MaxLen = 6
INVARIANT EmitFetch
