SPECIFICATION SpecR
CONSTANTS
  MaxLen = 12
  Alpha = "wide"
INVARIANT Emit
