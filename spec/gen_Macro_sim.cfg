SPECIFICATION SpecR
CONSTANTS
  MaxLen = 10
INVARIANT Emit
