SPECIFICATION Spec
CONSTANTS
  W = 1
  MaxOps = 3
  MaxParOps = 2
  MaxLadder = 5
  MaxUnOps = 1
  Tuples <- MCTuples
INVARIANTS Agreement DevIsNamed Bounded
