----------------------------- MODULE CharSource -----------------------------
(***************************************************************************)
(* The character source of the tokenizer (core/tokens.cpp tokens_get_char, *)
(* tokens_unget_char; core/Macros.cpp macros_push_define,                  *)
(* macros_get_char): the file, a stack of macro / define texts being       *)
(* expanded, one unget buffer, and per expansion level a mark into the     *)
(* unget buffer (tokens.unget_stack) so that a character read ahead and    *)
(* pushed back before an expansion started is delivered only after that    *)
(* expansion's text.                                                       *)
(*                                                                         *)
(* Reference: the stream still to be delivered.  Get returns its head,     *)
(* Unget(c) puts c in front of it, Push(t) puts the text t in front of it: *)
(* this is what "macros and defines are transparent text abstractions"     *)
(* (C09) means at the level of characters.                                 *)
(***************************************************************************)
EXTENDS Integers, Sequences, TLC

EOFC == -1
Forced2(v) == v = v
Rev(s) == [i \in 1..Len(s) |-> s[Len(s) + 1 - i]]

(* implementation state:                                                    *)
(*   file   remaining characters of the file                                *)
(*   texts  stack of remaining expansion texts (macros.stack), top last     *)
(*   unget  the unget buffer (tokens.unget[0..unget_ptr-1])                 *)
(*   marks  tokens.unget_stack[0..unget_stack_ptr]: marks[1] = 0            *)
S0(f) == [file |-> f, texts |-> <<>>, unget |-> <<>>, marks |-> <<0>>]

Top(s) == s.marks[Len(s.marks)]
HasUnget(s) == Len(s.unget) > Top(s)
PopUnget(s) == [ch |-> s.unget[Len(s.unget)], s |-> [s EXCEPT !.unget = SubSeq(@, 1, Len(@) - 1)]]

\* macros_get_char: the loop over exhausted expansion levels
RECURSIVE MacroChar(_)
MacroChar(s) ==
  IF s.texts = <<>> THEN [ch |-> EOFC, s |-> s, from |-> "none"]
  ELSE LET t == s.texts[Len(s.texts)] IN
    IF t # <<>> THEN [ch |-> t[1], s |-> [s EXCEPT !.texts[Len(s.texts)] = Tail(t)], from |-> "macro"]
    ELSE LET s2 == [s EXCEPT !.texts = SubSeq(@, 1, Len(@) - 1), !.marks = SubSeq(@, 1, Len(@) - 1)] IN
         IF HasUnget(s2) THEN [ch |-> PopUnget(s2).ch, s |-> PopUnget(s2).s, from |-> "unget"]
         ELSE MacroChar(s2)

\* tokens_get_char
Get(s) ==
  IF HasUnget(s) THEN PopUnget(s)
  ELSE LET m == MacroChar(s) IN
    IF m.from # "none" THEN [ch |-> m.ch, s |-> m.s]
    ELSE IF HasUnget(m.s) THEN PopUnget(m.s)
    ELSE IF m.s.file = <<>> THEN [ch |-> EOFC, s |-> m.s]
    ELSE [ch |-> m.s.file[1], s |-> [m.s EXCEPT !.file = Tail(@)]]
Unget(s, c) == [s EXCEPT !.unget = Append(@, c)]
\* macros_push_define followed by unget_stack[++unget_stack_ptr] = unget_ptr (tokens_get)
Push(s, t) == [s EXCEPT !.texts = Append(@, t), !.marks = Append(@, Len(s.unget))]

\* the stream the state stands for
RECURSIVE StreamFrom(_, _)
StreamFrom(s, lvl) ==   \* lvl = number of expansion levels still to unfold (from the top)
  IF lvl = 0 THEN Rev(SubSeq(s.unget, 1, s.marks[2])) \o s.file      \* pushed back before the first expansion started
  ELSE LET hi == IF lvl = Len(s.texts) THEN Len(s.unget) ELSE s.marks[lvl + 2]
           lo == s.marks[lvl + 1] IN
       Rev(SubSeq(s.unget, lo + 1, hi)) \o s.texts[lvl] \o StreamFrom(s, lvl - 1)
Stream(s) == LET n == Len(s.texts) IN
             IF n = 0 THEN Rev(s.unget) \o s.file ELSE StreamFrom(s, n)
=============================================================================
