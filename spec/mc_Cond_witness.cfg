SPECIFICATION Spec
CONSTANTS
  MaxLen = 6
  CountsIfndef = TRUE
  CountsCloses = FALSE
INVARIANTS ShippedWellFormedAgree
