SPECIFICATION Spec
CONSTANTS
  MaxLen = 6
  CountsIfndef = TRUE
INVARIANTS ShippedWellFormedAgree
