------------------------------ MODULE TraceMsp430 ------------------------------
(* Acceptor for C14: {"id","reg","set","post","diff"} one real simulator step each *)
EXTENDS Msp430Cpu, Json, IOUtils
Tr == ndJsonDeserialize(IOEnv.TRACE)
VARIABLE l
TInit == l = 1
TNext == l <= Len(Tr) /\ l' = l + 1
Report ==
  IF l > Len(Tr) THEN PrintT("VERDICT " \o ToJson([done |-> Len(Tr)]))
  ELSE LET e == Tr[l] IN StepOk(e) \/ PrintT("VERDICT " \o ToJson([id |-> e.id, why |-> StepWhy(e)]))
=============================================================================
