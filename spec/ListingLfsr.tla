----------------------------- MODULE ListingLfsr -----------------------------
(***************************************************************************)
(* C18 for the TMS1000 / TMS1100, whose program counter is a 6-bit linear  *)
(* feedback shift register: an instruction with the linear address L       *)
(* (page = L div 64, position = L mod 64) is stored at the ROM address     *)
(* page * 64 + lfsr(position), and the listing prints                      *)
(*    LLL|pos page/ll: bb text          (TMS1000, page 0..f)               *)
(*    LLL|pos c/p/ll: bb text           (TMS1100, chapter c, page p)       *)
(* with ll the register value and bb the byte.  A listing line therefore   *)
(* claims "the byte at (L div 64) * 64 + ll is bb".                        *)
(*   e = [cpu, lines: Seq([lin, pos, c, p, ll, b]), img: Seq([a, b])]      *)
(***************************************************************************)
EXTENDS Integers, Sequences, FiniteSets, TLC
\* the register sequence of the TMS1000 program counter (data manual): position k -> register value
Lfsr == <<0, 1, 3, 7, 15, 31, 63, 62, 61, 59, 55, 47, 30, 60, 57, 51, 39, 14, 29, 58, 53, 43, 22, 44, 24, 48, 33, 2, 5, 11, 23, 46,
          28, 56, 49, 35, 6, 13, 27, 54, 45, 26, 52, 41, 18, 36, 8, 17, 34, 4, 9, 19, 38, 12, 25, 50, 37, 10, 21, 42, 20, 40, 16, 32>>
Cells(e) == {<<e.img[i].a, e.img[i].b>> : i \in 1..Len(e.img)}
Claim(l) == <<(l.lin \div 64) * 64 + l.ll, l.b>>
Claims(e) == {Claim(e.lines[i]) : i \in 1..Len(e.lines)}
\* the fields of a line agree with each other and with the register sequence
LineShape(e) == \A i \in 1..Len(e.lines) : LET l == e.lines[i] IN
                  /\ l.pos = l.lin % 64 /\ l.ll = Lfsr[l.pos + 1]
                  /\ (IF e.cpu = "tms1100" THEN l.c * 1024 + l.p * 64 = (l.lin \div 64) * 64 ELSE l.p * 64 = (l.lin \div 64) * 64)
ListedBytesTrue(e) == Claims(e) \subseteq Cells(e)
EveryByteListed(e) == {c[1] : c \in Cells(e)} \subseteq {c[1] : c \in Claims(e)}
OncePerByte(e) == Cardinality({c[1] : c \in Claims(e)}) = Len(e.lines)
LfsrOk(e) == LineShape(e) /\ ListedBytesTrue(e) /\ EveryByteListed(e) /\ OncePerByte(e)
LfsrWhy(e) == IF ~LineShape(e) THEN "LineShape" ELSE IF ~ListedBytesTrue(e) THEN "ListedBytesTrue"
              ELSE IF ~EveryByteListed(e) THEN "EveryByteListed" ELSE "OncePerByte"
=============================================================================
