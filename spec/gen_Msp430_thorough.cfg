INIT Init
NEXT Next
CONSTANTS
  Vals = {0, 1, 2, 9, 153, 255, 256, 32767, 32768, 32769, 39321, 65534, 65535, 4660, 22136}
  ByteVals = {0, 1, 9, 16, 127, 128, 129, 153, 154, 254, 255}
INVARIANT Emit
