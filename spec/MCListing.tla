----------------------------- MODULE MCListing -----------------------------
(* Model check of the listing design: for every small program the          *)
(* per-instruction entries and the data-section walk of main(), taken one  *)
(* loop iteration per step, tell the truth about the image and cover it.   *)
EXTENDS Listing, SequencesExt
CONSTANTS Bpa, MaxLen, Orgs, ISizes, DSizes
VARIABLES prog, i, ch, cur, rows, done
vars == <<prog, i, ch, cur, rows, done>>

S(k, n, m) == [k |-> k, n |-> n, m |-> m, d |-> 0, c |-> 0, name |-> "", listed |-> TRUE]
R(n, m, d, c) == [k |-> "rep", n |-> n, m |-> m, d |-> d, c |-> c, name |-> "", listed |-> TRUE]
Alphabet == {S("org", a, 0) : a \in Orgs} \cup {S("insn", n * Bpa, 0) : n \in ISizes}
            \cup {S("data", n * Bpa, 0) : n \in DSizes} \cup {S("res", Bpa, 0), S("res", 4 * Bpa, 0)}
            \cup {S("macro", Bpa, 2 * Bpa), R(Bpa, 0, 0, 3), R(Bpa, 2 * Bpa, 0, 2), R(0, 0, 4 * Bpa, 2), R(Bpa, 0, 4 * Bpa, 2)}
            \cup {[S("inc", Bpa, 4 * Bpa) EXCEPT !.listed = b] : b \in BOOLEAN}
            \cup {[S("label", 0, 0) EXCEPT !.name = "l"]}

Lay == Layout(prog, Bpa)
Byte(a) == (a * 7 + 3) % 256
Img == {<<a, Byte(a)>> : a \in Written(Lay)}
B == [a \in Written(Lay) |-> Byte(a)]
Low == Min(Written(Lay))
High == Max(Written(Lay))
\* DL_DATA: .db bytes and the copies .repeat makes of them
D == Addrs(Lay.data)

\* the entries list_output produces when the decoder's length is the instruction's length
RefEntries == LET Sorted == SetToSortSeq(Lay.code, LAMBDA x, y : x[1] < y[1])
              IN [j \in DOMAIN Sorted |-> [a |-> Sorted[j][1] \div Bpa,
                                          b |-> [k \in 1..Sorted[j][2] |-> Byte(Sorted[j][1] + k - 1)]]]

Init == /\ \E n \in 1..MaxLen : prog \in [1..n -> Alphabet]
        /\ Written(Lay) # {} /\ Disjoint(Lay)
        /\ i = Low /\ ch = 0 /\ cur = [a |-> 0, b |-> <<>>] /\ rows = <<>> /\ done = FALSE

Flush == IF cur.b # <<>> THEN Append(rows, cur) ELSE rows

DataByte == /\ ~done /\ i <= High /\ i \in D
            /\ rows' = IF ch = 0 THEN Flush ELSE rows
            /\ cur' = IF ch = 0 THEN [a |-> i \div Bpa, b |-> <<B[i]>>] ELSE [cur EXCEPT !.b = Append(@, B[i])]
            /\ ch' = IF ch + 1 = 16 THEN 0 ELSE ch + 1
            /\ i' = i + 1 /\ UNCHANGED <<prog, done>>
OtherByte == /\ ~done /\ i <= High /\ i \notin D
             /\ rows' = Flush /\ cur' = [a |-> 0, b |-> <<>>] /\ ch' = 0
             /\ i' = i + 1 /\ UNCHANGED <<prog, done>>
Finish == /\ ~done /\ i > High
          /\ rows' = Flush /\ cur' = [a |-> 0, b |-> <<>>] /\ done' = TRUE /\ UNCHANGED <<prog, i, ch>>
Next == DataByte \/ OtherByte \/ Finish
Spec == Init /\ [][Next]_vars

\* every step: what has been dumped so far is exactly the data bytes below i, at their true addresses
DumpInv == ClaimCells(Flush, Bpa) = {<<a, Byte(a)>> : a \in {x \in D : x < i}}
RowShape == \A r \in 1..Len(rows) : Len(rows[r].b) \in 1..16
\* the step machine and the recursive transcription agree
SameAsWalk == done => rows = DumpRows(Low, High, D, B, Bpa)
\* at the end the reference listing satisfies every clause of C18, except that code in an
\* include file without .list is missing
Final == done =>
  /\ ListedBytesTrue(Img, RefEntries, rows, Bpa)
  /\ Unlisted(Img, RefEntries, rows, Bpa) = Addrs(Lay.hidden)
  /\ EntriesTileCode(Lay, RefEntries, Bpa)
  /\ RowsAreData(Lay, rows, Bpa)
=============================================================================
