------------------------------ MODULE TraceExpr ------------------------------
(* Acceptor for C04 observations.  Each line of the trace is one execution   *)
(* of the real assembler on `.dc64 <expr>`:                                   *)
(*   {"id": n, "ts": [tokens], "obs": {"k": "val"|"rej"|"crash", "v": [8 bytes]}} *)
(* TLC recomputes the reference value and the shipped machine's value from   *)
(* the tokens and classifies the observation (Expr!Verdict).                 *)
EXTENDS Expr, Json, IOUtils

Tr == ndJsonDeserialize(IOEnv.TRACE)

VARIABLE l
vars == <<l>>

\* a literal given by its spelling has the value of its digit string
Norm(t) == IF t.t = "num"
           THEN (IF "ds" \in DOMAIN t
                 THEN [t |-> "num", v |-> WFromDigits(W, t.base, t.ds, WZero(W))]
                 ELSE [t |-> "num", v |-> t.v])
           ELSE t
Toks(e) == [i \in 1..Len(e.ts) |-> Norm(e.ts[i])] \o <<>>

Init == l = 1
Next == l <= Len(Tr) /\ l' = l + 1
Spec == Init /\ [][Next]_vars

\* the same expression as the 16-bit address of an instruction operand (e.ctx names the CPU and form): when the reference
\* value fits -32768..65535 the operand word is its low 16 bits, an expression without a value is rejected; other
\* values are the subject of C06
CtxOk(e, ts) == LET ref == RefEval(ts) IN
  IF ref.k = "val" /\ WInRangeS(ref.v, -32768, 65535) THEN e.obs.k = "val" /\ SubSeq(e.obs.v, 1, 2) = SubSeq(ref.v, 1, 2)
  ELSE IF ref.k = "rej" THEN e.obs.k = "rej" ELSE TRUE
Report ==
  IF l > Len(Tr) THEN PrintT("VERDICT " \o ToJson([done |-> Len(Tr)]))
  ELSE LET e   == Tr[l]
           ts  == Toks(e)
           vd  == IF "ctx" \in DOMAIN e THEN (IF CtxOk(e, ts) THEN "ok" ELSE "violation") ELSE Verdict(ts, e.obs)
       IN (vd = "ok" /\ "canary" \notin DOMAIN e) \/
          PrintT("VERDICT " \o ToJson([id |-> e.id, vd |-> vd, dev |-> ImplEval(ts).dev,
                                        ref |-> RefEval(ts), imp |-> ImplEval(ts).k]))
=============================================================================
