---- MODULE MCExpr_TTrace_1791138299 ----
EXTENDS Sequences, TLCExt, Toolbox, Naturals, TLC, MCExpr

_expression ==
    LET MCExpr_TEExpression == INSTANCE MCExpr_TEExpression
    IN MCExpr_TEExpression!expression
----

_trace ==
    LET MCExpr_TETrace == INSTANCE MCExpr_TETrace
    IN MCExpr_TETrace!trace
----

_inv ==
    ~(
        TLCGet("level") = Len(_TETrace)
        /\
        st = ([res |-> [k |-> "val", v |-> <<6>>], dev |-> {"ReduceWithoutLookahead"}, i |-> 8, fr |-> <<[vals |-> <<<<7>>, <<1>>>>, ops |-> <<"^">>, paren |-> FALSE, count |-> 3, un |-> <<>>]>>])
        /\
        ts = (<<[v |-> <<7>>, t |-> "num"], [t |-> "op", o |-> "^"], [v |-> <<5>>, t |-> "num"], [t |-> "op", o |-> "-"], [v |-> <<3>>, t |-> "num"], [t |-> "op", o |-> "/"], [v |-> <<2>>, t |-> "num"]>>)
    )
----

_init ==
    /\ st = _TETrace[1].st
    /\ ts = _TETrace[1].ts
----

_next ==
    /\ \E i,j \in DOMAIN _TETrace:
        /\ \/ /\ j = i + 1
              /\ i = TLCGet("level")
        /\ st  = _TETrace[i].st
        /\ st' = _TETrace[j].st
        /\ ts  = _TETrace[i].ts
        /\ ts' = _TETrace[j].ts

\* Uncomment the ASSUME below to write the states of the error trace
\* to the given file in Json format. Note that you can pass any tuple
\* to `JsonSerialize`. For example, a sub-sequence of _TETrace.
    \* ASSUME
    \*     LET J == INSTANCE Json
    \*         IN J!JsonSerialize("MCExpr_TTrace_1791138299.json", _TETrace)

=============================================================================

 Note that you can extract this module `MCExpr_TEExpression`
  to a dedicated file to reuse `expression` (the module in the 
  dedicated `MCExpr_TEExpression.tla` file takes precedence 
  over the module `MCExpr_TEExpression` below).

---- MODULE MCExpr_TEExpression ----
EXTENDS Sequences, TLCExt, Toolbox, Naturals, TLC, MCExpr

expression == 
    [
        \* To hide variables of the `MCExpr` spec from the error trace,
        \* remove the variables below.  The trace will be written in the order
        \* of the fields of this record.
        st |-> st
        ,ts |-> ts
        
        \* Put additional constant-, state-, and action-level expressions here:
        \* ,_stateNumber |-> _TEPosition
        \* ,_stUnchanged |-> st = st'
        
        \* Format the `st` variable as Json value.
        \* ,_stJson |->
        \*     LET J == INSTANCE Json
        \*     IN J!ToJson(st)
        
        \* Lastly, you may build expressions over arbitrary sets of states by
        \* leveraging the _TETrace operator.  For example, this is how to
        \* count the number of times a spec variable changed up to the current
        \* state in the trace.
        \* ,_stModCount |->
        \*     LET F[s \in DOMAIN _TETrace] ==
        \*         IF s = 1 THEN 0
        \*         ELSE IF _TETrace[s].st # _TETrace[s-1].st
        \*             THEN 1 + F[s-1] ELSE F[s-1]
        \*     IN F[_TEPosition - 1]
    ]

=============================================================================



Parsing and semantic processing can take forever if the trace below is long.
 In this case, it is advised to uncomment the module below to deserialize the
 trace from a generated binary file.

\*
\*---- MODULE MCExpr_TETrace ----
\*EXTENDS IOUtils, TLC, MCExpr
\*
\*trace == IODeserialize("MCExpr_TTrace_1791138299.bin", TRUE)
\*
\*=============================================================================
\*

---- MODULE MCExpr_TETrace ----
EXTENDS TLC, MCExpr

trace == 
    <<
    ([st |-> [res |-> [k |-> "run", v |-> <<0>>], dev |-> {}, i |-> 1, fr |-> <<[vals |-> <<>>, ops |-> <<>>, paren |-> FALSE, count |-> 0, un |-> <<>>]>>],ts |-> <<[v |-> <<7>>, t |-> "num"], [t |-> "op", o |-> "^"], [v |-> <<5>>, t |-> "num"], [t |-> "op", o |-> "-"], [v |-> <<3>>, t |-> "num"], [t |-> "op", o |-> "/"], [v |-> <<2>>, t |-> "num"]>>]),
    ([st |-> [res |-> [k |-> "run", v |-> <<0>>], dev |-> {}, i |-> 2, fr |-> <<[vals |-> <<<<7>>>>, ops |-> <<>>, paren |-> FALSE, count |-> 1, un |-> <<>>]>>],ts |-> <<[v |-> <<7>>, t |-> "num"], [t |-> "op", o |-> "^"], [v |-> <<5>>, t |-> "num"], [t |-> "op", o |-> "-"], [v |-> <<3>>, t |-> "num"], [t |-> "op", o |-> "/"], [v |-> <<2>>, t |-> "num"]>>]),
    ([st |-> [res |-> [k |-> "run", v |-> <<0>>], dev |-> {}, i |-> 3, fr |-> <<[vals |-> <<<<7>>>>, ops |-> <<"^">>, paren |-> FALSE, count |-> 2, un |-> <<>>]>>],ts |-> <<[v |-> <<7>>, t |-> "num"], [t |-> "op", o |-> "^"], [v |-> <<5>>, t |-> "num"], [t |-> "op", o |-> "-"], [v |-> <<3>>, t |-> "num"], [t |-> "op", o |-> "/"], [v |-> <<2>>, t |-> "num"]>>]),
    ([st |-> [res |-> [k |-> "run", v |-> <<0>>], dev |-> {}, i |-> 4, fr |-> <<[vals |-> <<<<7>>, <<5>>>>, ops |-> <<"^">>, paren |-> FALSE, count |-> 3, un |-> <<>>]>>],ts |-> <<[v |-> <<7>>, t |-> "num"], [t |-> "op", o |-> "^"], [v |-> <<5>>, t |-> "num"], [t |-> "op", o |-> "-"], [v |-> <<3>>, t |-> "num"], [t |-> "op", o |-> "/"], [v |-> <<2>>, t |-> "num"]>>]),
    ([st |-> [res |-> [k |-> "run", v |-> <<0>>], dev |-> {}, i |-> 5, fr |-> <<[vals |-> <<<<7>>, <<5>>>>, ops |-> <<"^", "-">>, paren |-> FALSE, count |-> 4, un |-> <<>>]>>],ts |-> <<[v |-> <<7>>, t |-> "num"], [t |-> "op", o |-> "^"], [v |-> <<5>>, t |-> "num"], [t |-> "op", o |-> "-"], [v |-> <<3>>, t |-> "num"], [t |-> "op", o |-> "/"], [v |-> <<2>>, t |-> "num"]>>]),
    ([st |-> [res |-> [k |-> "run", v |-> <<0>>], dev |-> {"ReduceWithoutLookahead"}, i |-> 6, fr |-> <<[vals |-> <<<<7>>, <<2>>>>, ops |-> <<"^">>, paren |-> FALSE, count |-> 3, un |-> <<>>]>>],ts |-> <<[v |-> <<7>>, t |-> "num"], [t |-> "op", o |-> "^"], [v |-> <<5>>, t |-> "num"], [t |-> "op", o |-> "-"], [v |-> <<3>>, t |-> "num"], [t |-> "op", o |-> "/"], [v |-> <<2>>, t |-> "num"]>>]),
    ([st |-> [res |-> [k |-> "run", v |-> <<0>>], dev |-> {"ReduceWithoutLookahead"}, i |-> 7, fr |-> <<[vals |-> <<<<7>>, <<2>>>>, ops |-> <<"^", "/">>, paren |-> FALSE, count |-> 4, un |-> <<>>]>>],ts |-> <<[v |-> <<7>>, t |-> "num"], [t |-> "op", o |-> "^"], [v |-> <<5>>, t |-> "num"], [t |-> "op", o |-> "-"], [v |-> <<3>>, t |-> "num"], [t |-> "op", o |-> "/"], [v |-> <<2>>, t |-> "num"]>>]),
    ([st |-> [res |-> [k |-> "run", v |-> <<0>>], dev |-> {"ReduceWithoutLookahead"}, i |-> 8, fr |-> <<[vals |-> <<<<7>>, <<1>>>>, ops |-> <<"^">>, paren |-> FALSE, count |-> 3, un |-> <<>>]>>],ts |-> <<[v |-> <<7>>, t |-> "num"], [t |-> "op", o |-> "^"], [v |-> <<5>>, t |-> "num"], [t |-> "op", o |-> "-"], [v |-> <<3>>, t |-> "num"], [t |-> "op", o |-> "/"], [v |-> <<2>>, t |-> "num"]>>]),
    ([st |-> [res |-> [k |-> "val", v |-> <<6>>], dev |-> {"ReduceWithoutLookahead"}, i |-> 8, fr |-> <<[vals |-> <<<<7>>, <<1>>>>, ops |-> <<"^">>, paren |-> FALSE, count |-> 3, un |-> <<>>]>>],ts |-> <<[v |-> <<7>>, t |-> "num"], [t |-> "op", o |-> "^"], [v |-> <<5>>, t |-> "num"], [t |-> "op", o |-> "-"], [v |-> <<3>>, t |-> "num"], [t |-> "op", o |-> "/"], [v |-> <<2>>, t |-> "num"]>>])
    >>
----


=============================================================================

---- CONFIG MCExpr_TTrace_1791138299 ----
CONSTANTS
    W = 1
    MaxOps = 3
    MaxParOps = 1
    MaxUnOps = 0
    Tuples <- MCTuples

INVARIANT
    _inv

CHECK_DEADLOCK
    \* CHECK_DEADLOCK off because of PROPERTY or INVARIANT above.
    FALSE

INIT
    _init

NEXT
    _next

CONSTANT
    _TETrace <- _trace

ALIAS
    _expression
=============================================================================
\* Generated on Sun Oct 04 18:25:04 UTC 2026