INIT Init
NEXT Next
CONSTANTS
  MaxSegs = 3
INVARIANT Emit
INVARIANT EmitOrd
