INIT Init
NEXT Next
CONSTANTS
  N = 4
  MaxLenC = 3
  Unit = 1
INVARIANTS LoopAccepted LoopCovers RejectsMutants
CHECK_DEADLOCK FALSE
