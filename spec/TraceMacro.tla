----------------------------- MODULE TraceMacro -----------------------------
(* Acceptor for C09: {"id","bpa","big","prog","obs"} real assembly of P; accepted iff the
   recorded image/symbols are those of Denote(Expand(P)) *)
EXTENDS MacroExpand, Json, IOUtils
Tr == ndJsonDeserialize(IOEnv.TRACE)
VARIABLE l
TInit == l = 1
TNext == l <= Len(Tr) /\ l' = l + 1
Report ==
  IF l > Len(Tr) THEN PrintT("VERDICT " \o ToJson([done |-> Len(Tr)]))
  ELSE LET e == Tr[l] IN
       \* a program of uninterpreted instruction lines: obs is the real assembly of P, ref that of GenMacro's Expand(P)
       IF "ref" \in DOMAIN e THEN (e.obs = e.ref \/ PrintT("VERDICT " \o ToJson([id |-> e.id, why |-> "the program and its expansion by hand assemble differently"])))
       ELSE
       Transparent(e.prog, e.bpa, e.big, e.obs) \/
       PrintT("VERDICT " \o ToJson([id |-> e.id, why |-> IF Redef(e.prog) THEN "a name defined twice was accepted" ELSE Why(Expand(e.prog), e.bpa, e.big, e.obs)]))
=============================================================================
