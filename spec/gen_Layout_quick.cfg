INIT Init
NEXT Next
CONSTANTS
  MaxSegs = 2
INVARIANT Emit
INVARIANT EmitOrd
