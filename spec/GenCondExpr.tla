----------------------------- MODULE GenCondExpr -----------------------------
(* mode "cond" of the C10 generator: one wrapped program per enumerated condition *)
EXTENDS GenCond

VARIABLE c
InitC == IsCond(c) /\ prog = Wrap(c)
NextC == FALSE /\ UNCHANGED <<c, prog>>
EmitC == PrintT("CASE " \o ToJson(prog))
=============================================================================
