------------------------------- MODULE MCExpr -------------------------------
(* Model checking the shipped 3-value / 2-operator evaluator against the     *)
(* reference on every enumerated token string (8-bit words).                 *)
EXTENDS ExprCases

VARIABLES ts, st
vars == <<ts, st>>

Init == IsCase(ts) /\ st = MInit(ts)
Next == st.res.k = "run" /\ st' = MStep(st, ts) /\ UNCHANGED ts
Spec == Init /\ [][Next]_vars

Finished == st.res.k # "run"

\* the machine agrees with the reference whenever no named deviation fired
Agreement == Finished /\ st.dev = {} =>
               LET ref == RefEval(ts) IN
               ref.k = "any" \/ st.res.k = "any" \/ SameRes(st.res, ref)

\* a fired deviation is never the harmless kind that still yields a crash-free wrong "reject"
DevIsNamed == st.dev \subseteq {"ReduceWithoutLookahead"}

\* the evaluator never holds more than 3 values / 2 operators per frame
Bounded == \A i \in DOMAIN st.fr : Len(st.fr[i].vals) <= 3 /\ Len(st.fr[i].ops) <= 2

\* expected to be VIOLATED: witnesses that the design defects are reachable
NoPrematureReduce == ~("ReduceWithoutLookahead" \in st.dev /\ Finished /\ st.res.k = "val"
                        /\ ~SameRes(st.res, RefEval(ts)))

T1 == <<WFromNat(W, 7), WFromNat(W, 5), WFromNat(W, 3), WFromNat(W, 2), WFromNat(W, 11), WFromNat(W, 1)>>
T2 == <<WFromNat(W, 1), WFromNat(W, 0), WFromNat(W, 2), WFromNat(W, 0), WFromNat(W, 3), WFromNat(W, 1)>>
MCTuples == {T1, T2}
=============================================================================
