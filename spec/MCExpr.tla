------------------------------- MODULE MCExpr -------------------------------
(* Model checking the shipped evaluator (value stack, stack of waiting       *)
(* operators) against the reference on every enumerated token string (8-bit  *)
(* words).                                                                   *)
EXTENDS ExprCases

VARIABLES ts, st
vars == <<ts, st>>

Init == IsCase(ts) /\ st = MInit(ts)
Next == st.res.k = "run" /\ st' = MStep(st, ts) /\ UNCHANGED ts
Spec == Init /\ [][Next]_vars

Finished == st.res.k # "run"

\* the machine agrees with the reference whenever no named deviation fired
Agreement == Finished /\ st.dev = {} =>
               LET ref == RefEval(ts) IN
               ref.k = "any" \/ st.res.k = "any" \/ SameRes(st.res, ref)

\* no deviation is named any more (Expr.ReduceWithoutLookahead was repaired in the code)
DevIsNamed == st.dev = {}

\* the waiting operators of a frame are in order of strictly rising tightness, so a frame never holds more than one
\* operator per level (6; the leading "+" of an operand sits below them) and one value more than operators
Rising(ops) == \A i \in 1..Len(ops) - 1 : Level(ops[i]) > Level(ops[i + 1])
Bounded == \A i \in DOMAIN st.fr : /\ Len(st.fr[i].ops) <= 7 /\ Len(st.fr[i].vals) <= Len(st.fr[i].ops) + 1
                                   /\ Rising(st.fr[i].ops)

T1 == <<WFromNat(W, 7), WFromNat(W, 5), WFromNat(W, 3), WFromNat(W, 2), WFromNat(W, 11), WFromNat(W, 1), WFromNat(W, 6)>>
T2 == <<WFromNat(W, 1), WFromNat(W, 0), WFromNat(W, 2), WFromNat(W, 0), WFromNat(W, 3), WFromNat(W, 1), WFromNat(W, 2)>>
MCTuples == {T1, T2}
=============================================================================
