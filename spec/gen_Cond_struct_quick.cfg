INIT InitS
NEXT NextS
CONSTANTS
  MaxLen = 5
  MaxOps = 2
  CountsIfndef = TRUE
  CountsCloses = TRUE
INVARIANT EmitS
