SPECIFICATION Spec
CONSTANTS
  MaxLen = 5
  Alpha = "tiny"
INVARIANT Emit
