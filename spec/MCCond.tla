------------------------------- MODULE MCCond -------------------------------
(* Model checking the shipped conditional-assembly control flow against the  *)
(* reference on every statement sequence up to a bound.                      *)
EXTENDS Cond

CONSTANT MaxLen

VARIABLE prog
Alphabet == {[k |-> "if", c |-> <<[t |-> "num", v |-> 1]>>],
             [k |-> "if", c |-> <<[t |-> "num", v |-> 0]>>],
             [k |-> "ifdef", n |-> "U"], [k |-> "ifndef", n |-> "U"],
             [k |-> "else"], [k |-> "endif"], [k |-> "mark", b |-> 0], [k |-> "note", d |-> "else"]}
\* marks get distinct bytes by position so that order and identity are visible
Number(p) == IF p = <<>> THEN <<>> ELSE [i \in 1..Len(p) |-> IF p[i].k = "mark" THEN [p[i] EXCEPT !.b = 16 + i] ELSE p[i]]

Init == prog = <<>>
\* a second .else in one block is left out of the enumeration: whether it is an error
\* inside skipped text is not something the property settles
SecondElse(p) == LET st == RFold(Number(p), 1, St0) IN
                 st.stack # <<>> /\ st.stack[Len(st.stack)].else
Next == Len(prog) < MaxLen /\ \E s \in Alphabet :
           /\ (s.k = "else" => ~SecondElse(prog))
           /\ prog' = Append(prog, s)
Spec == Init /\ [][Next]_prog

P == Number(prog)
\* whenever no deviation fires the machine and the reference agree
Agreement == LET m == MRun(P) IN (DevNames(P) = {} => SameRun(m, RefRun(P)))
\* with both switches repaired the machine IS the reference
RepairedAgrees == SameRun(MRunC(P, Repaired), RefRun(P))
\* expected to be VIOLATED (witness): a well-formed program the shipped flow mis-assembles
ShippedWellFormedAgree == LET r == RefRun(P) IN (~r.err => SameRun(MRun(P), r))
=============================================================================
