------------------------------ MODULE ExprCases ------------------------------
(* Enumerations of expression token strings, shared by the model-checking   *)
(* configuration (W = 1) and the case generator for the real code (W = 8).  *)
EXTENDS Expr

CONSTANTS MaxOps,      \* flat expressions with 1..MaxOps binary operators
          MaxParOps,   \* ... with one parenthesis pair, up to MaxParOps operators
          MaxUnOps,    \* ... with unary decorations, up to MaxUnOps operators
          MaxLadder,   \* ... long flat expressions over one operator per level, 5..MaxLadder operators
          Tuples       \* set of operand tuples (sequences of words, length >= 7)

Num(v) == [t |-> "num", v |-> v]
Op(o)  == [t |-> "op", o |-> o]
LP == [t |-> "lp"]
RP == [t |-> "rp"]

OpSeqs(k) == [1..k -> BinOps]
\* one operator of each level: a string of six can keep six operators waiting (1 | 2 ^ 3 & 4 << 5 + 6 * 7)
LadderOps == {"*", "+", "<<", "&", "^", "|"}
LadderSeqs(k) == [1..k -> LadderOps]

\* operand i decorated by d in {"", "-", "~", "-~", "~-"}
Dec(d, v) == CASE d = ""   -> <<Num(v)>>
               [] d = "-"  -> <<Op("-"), Num(v)>>
               [] d = "~"  -> <<Op("~"), Num(v)>>
               [] d = "-~" -> <<Op("-"), Op("~"), Num(v)>>
               [] d = "~-" -> <<Op("~"), Op("-"), Num(v)>>
               [] d = "-(" -> <<Op("-"), LP, Num(v), RP>>
               [] d = "~(" -> <<Op("~"), LP, Num(v), RP>>

\* n1 o1 n2 o2 ... with a parenthesis pair around operands a..b (a = 0: none)
\* and decorations ds[i]
RECURSIVE Build(_, _, _, _, _, _)
Build(os, tup, ds, a, b, i) ==
  IF i > Len(os) + 1 THEN <<>>
  ELSE (IF i = a THEN <<LP>> ELSE <<>>) \o Dec(ds[i], tup[i]) \o (IF i = b THEN <<RP>> ELSE <<>>)
       \o (IF i <= Len(os) THEN <<Op(os[i])>> ELSE <<>>)
       \o Build(os, tup, ds, a, b, i + 1)

Plain(k) == [i \in 1..(k + 1) |-> ""]



Decs == {"", "-", "~", "-~", "-(", "~("}

\* two parenthesis pairs: (a o b) o (c o d), ((a o b) o c) o d, a o (b o (c o d)), (a o (b o c)) o d
Shape2(os, t) == {
   <<LP, Num(t[1]), Op(os[1]), Num(t[2]), RP, Op(os[2]), LP, Num(t[3]), Op(os[3]), Num(t[4]), RP>>,
   <<LP, LP, Num(t[1]), Op(os[1]), Num(t[2]), RP, Op(os[2]), Num(t[3]), RP, Op(os[3]), Num(t[4])>>,
   <<Num(t[1]), Op(os[1]), LP, Num(t[2]), Op(os[2]), LP, Num(t[3]), Op(os[3]), Num(t[4]), RP, RP>>,
   <<LP, Num(t[1]), Op(os[1]), LP, Num(t[2]), Op(os[2]), Num(t[3]), RP, RP, Op(os[3]), Num(t[4])>>,
   <<Num(t[1]), Op(os[1]), Op("-"), LP, Num(t[2]), Op(os[2]), Num(t[3]), RP, Op(os[3]), Num(t[4])>> }

\* expressions without a value, and malformed ones (t = first operand tuple)
Bad(t) == LET z == WZero(W) IN {
   <<Num(t[1]), Op("/"), Num(z)>>,
   <<Num(t[1]), Op("%"), Num(z)>>,
   <<Num(t[1]), Op("/"), LP, Num(t[2]), Op("-"), Num(t[2]), RP>>,
   <<Num(t[1]), Op("+"), Num(t[2]), Op("/"), Num(z), Op("*"), Num(t[3])>>,
   <<Num(t[1]), Op("|"), Num(t[2]), Op("%"), Num(z)>>,
   <<Num(z), Op("/"), Num(z)>>,
   <<Num(WMinInt(W)), Op("/"), Op("-"), Num(WOne(W))>>,
   <<Num(WMinInt(W)), Op("%"), Op("-"), Num(WOne(W))>>,
   <<Num(t[1]), Op("+")>>,
   <<Num(t[1]), Op("*"), Num(t[2]), Op("-")>>,
   <<Num(t[1]), Op("+"), Num(t[2]), Op("*"), Num(t[3]), Op("|")>>,
   <<LP, Num(t[1])>>,
   <<LP, Num(t[1]), Op("+"), Num(t[2])>>,
   <<Num(t[1]), Op("*"), LP, Num(t[2]), Op("+"), Num(t[3])>>,
   <<LP, LP, Num(t[1]), RP>>,
   <<Num(t[1]), RP>>,
   <<LP, Num(t[1]), RP, RP>>,
   <<Num(t[1]), Num(t[2])>>,
   <<Num(t[1]), Op("+"), Op("*"), Num(t[2])>>,
   <<Op("*"), Num(t[1])>>,
   <<Num(t[1]), Op("~"), Num(t[2])>>,
   <<LP, RP>>,
   <<Num(t[1]), Op("+"), LP, RP>>,
   <<Op("-")>>,
   <<Op("-"), Op("*"), Num(t[1])>>,
   <<Num(t[1]), LP, Num(t[2]), RP>>,
   <<LP, Num(t[1]), RP, Num(t[2])>>,
   <<LP, Num(t[1]), RP, LP, Num(t[2]), RP>>,
   <<Num(t[1]), Op("+"), Num(t[2]), RP, Op("*"), Num(t[3])>> }


\* The enumeration is a predicate, not a set: TLC evaluates every zero-arity constant
\* definition at start-up, and materialising (sorting) 10^5 token strings takes minutes;
\* quantifiers in Init are enumerated lazily.
IsCase(ts) ==
  \/ \E k \in 1..MaxOps : \E os \in OpSeqs(k), tup \in Tuples : ts = Build(os, tup, Plain(k), 0, 0, 1)
  \/ \E k \in 5..MaxLadder : \E os \in LadderSeqs(k), tup \in Tuples : ts = Build(os, tup, Plain(k), 0, 0, 1)
  \/ \E k \in 1..MaxParOps : \E a \in 1..k, b \in 2..(k + 1) : \E os \in OpSeqs(k), tup \in Tuples :
        ts = Build(os, tup, Plain(k), a, b, 1)
  \/ \E k \in 0..MaxUnOps : \E os \in OpSeqs(k), tup \in Tuples, ds \in [1..(k + 1) -> Decs] :
        ts = Build(os, tup, ds, 0, 0, 1)
  \/ \E os \in OpSeqs(3), tup \in Tuples : ts \in Shape2(os, tup)
  \/ \E tup \in Tuples : ts \in Bad(tup)
=============================================================================
