----------------------------- MODULE GenTwoPass -----------------------------
(* Program generator for C02: BFS over short programs, simulation for long. *)
EXTENDS Integers, Sequences, TLC, Json

CONSTANTS MaxLen, Alpha
VARIABLES prog, n

L(x) == [k |-> "label", n |-> x]
IC(c) == [k |-> "insn", r |-> [c |-> c]]
IS(x) == [k |-> "insn", r |-> [s |-> x]]
Names == {"a", "b", "c"}
Wide == {L(x) : x \in Names} \cup {IS(x) : x \in Names}
            \cup {IC(c) : c \in {0, 1, 2, 3, 4, 8, 255, 256, 1000, 65535}}
            \cup {[k |-> "data", sz |-> z] : z \in {2, 4, 250}}
            \cup {[k |-> "scope"], [k |-> "ends"]}
            \cup {[k |-> "set", n |-> x, v |-> v] : x \in {"a", "b"}, v \in {0, 2, 300}}
            \cup {[k |-> "mode", d |-> x] : x \in {"msp430_cpu4", "code", "list"}}

Small == {L("a"), L("b"), IC(1), IC(100), IS("a"), IS("b"), [k |-> "data", sz |-> 2],
          [k |-> "scope"], [k |-> "ends"], [k |-> "set", n |-> "a", v |-> 2], [k |-> "set", n |-> "a", v |-> 100], [k |-> "set", n |-> "b", v |-> 0]}
Tiny == {L("a"), L("b"), IC(100), IS("a"), [k |-> "data", sz |-> 2],
         [k |-> "scope"], [k |-> "ends"], [k |-> "set", n |-> "a", v |-> 2]}
Alphabet == IF Alpha = "small" THEN Small ELSE IF Alpha = "tiny" THEN Tiny ELSE Wide

Init == prog = <<>> /\ n \in 1..MaxLen
Next == Len(prog) < n /\ \E s \in Alphabet : prog' = Append(prog, s) /\ UNCHANGED n
NextR == Len(prog) < n /\ prog' = Append(prog, RandomElement(Alphabet)) /\ UNCHANGED n
Spec == Init /\ [][Next]_<<prog, n>>
SpecR == Init /\ [][NextR]_<<prog, n>>
Emit == Len(prog) = n => PrintT("CASE " \o ToJson(prog))
=============================================================================
