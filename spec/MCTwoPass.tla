----------------------------- MODULE MCTwoPass -----------------------------
EXTENDS TwoPass
L(n) == [k |-> "label", n |-> n]
IC(c) == [k |-> "insn", r |-> [c |-> c]]
IS(n) == [k |-> "insn", r |-> [s |-> n]]
Flat == {L("a"), L("b"), IC(1), IC(100), IS("a"), IS("b"), [k |-> "data", sz |-> 2]}
Full == Flat \cup {[k |-> "scope"], [k |-> "ends"], [k |-> "set", n |-> "a", v |-> 2],
                   [k |-> "set", n |-> "a", v |-> 100]}
\* expected to be VIOLATED with Full: the witness program
=============================================================================
