SPECIFICATION SpecR
CONSTANTS
  MaxLen = 14
INVARIANT Emit
