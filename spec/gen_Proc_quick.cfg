INIT Init
NEXT Next
CONSTANTS
  Bases = {1, 2, 3}
  Types = {"hex", "bin"}
INVARIANT Emit
INVARIANT EmitCpu
INVARIANT EmitLink
