INIT InitCases
NEXT Next
CONSTANTS
  W = 8
  MaxOps = 3
  MaxParOps = 2
  MaxLadder = 5
  MaxUnOps = 1
  Seed = 0
  Tuples <- QuickTuples
INVARIANT Emit
