SPECIFICATION Spec
INVARIANT Report
