-------------------------------- MODULE Determ --------------------------------
(***************************************************************************)
(* C13: the image is a function of the source alone.  AsmData!Denote and   *)
(* TwoPass have no variable for options, output names or process history;  *)
(* the trace side states it on groups of real runs of one source:          *)
(*   g = [id, ref (runs [a, d] of the plain in-process assembly),          *)
(*        runs (sequence of [how, ok, img, left])]                         *)
(* where `how` names the variation (history A;A, B;A, failed C;A, ...).    *)
(* left = addresses whose bytes are in the final image only because pass 1 *)
(* wrote them.  File-level variations (reporting options, output types and *)
(* names) are decided by ObjFormats!FileOk against the same reference.     *)
(***************************************************************************)
EXTENDS Integers, Sequences, TLC
SameImage(r, ref) == r.ok /\ r.img = ref
NoLeftover(r) == r.left = <<>>
GroupOk(g) == \A i \in 1..Len(g.runs) : SameImage(g.runs[i], g.ref) /\ NoLeftover(g.runs[i])
Bad(g) == {i \in 1..Len(g.runs) : ~(SameImage(g.runs[i], g.ref) /\ NoLeftover(g.runs[i]))}
=============================================================================
