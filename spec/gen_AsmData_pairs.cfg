SPECIFICATION Spec
CONSTANTS
  MaxLen = 2
  Seed = 0
INVARIANT Emit
INVARIANT EmitOverlay
