INIT InitS
NEXT NextS
CONSTANTS
  MaxLen = 6
  MaxOps = 2
  CountsIfndef = TRUE
  CountsCloses = TRUE
INVARIANT EmitS
