---------------------------- MODULE MCCharSource ----------------------------
(* Every sequence of Get / Unget / Push operations up to a depth refines the *)
(* reference stream.                                                         *)
EXTENDS CharSource
CONSTANTS Chars, Texts, Files, MaxOps, MaxLevels
VARIABLES s, n, last, ok
vars == <<s, n, last, ok>>
TextsDef == {<<>>, <<97>>, <<97, 98>>}
FilesDef == {<<>>, <<49, 50, 51>>}
Init == \E f \in Files : s = S0(f) /\ n = 0 /\ last = 0 /\ ok = TRUE
DoGet == /\ n < MaxOps
         /\ LET g == Get(s) st == Stream(s) IN
            /\ ok' = (ok /\ g.ch = (IF st = <<>> THEN EOFC ELSE st[1]) /\ Stream(g.s) = (IF st = <<>> THEN <<>> ELSE Tail(st)))
            /\ s' = g.s /\ last' = g.ch
         /\ n' = n + 1
DoUnget == /\ n < MaxOps /\ Len(s.unget) < 4
           /\ \E c \in Chars :
                /\ ok' = (ok /\ Stream(Unget(s, c)) = <<c>> \o Stream(s))
                /\ s' = Unget(s, c)
           /\ n' = n + 1 /\ UNCHANGED last
DoPush == /\ n < MaxOps /\ Len(s.texts) < MaxLevels
          /\ \E t \in Texts :
               /\ ok' = (ok /\ Stream(Push(s, t)) = t \o Stream(s))
               /\ s' = Push(s, t)
          /\ n' = n + 1 /\ UNCHANGED last
Next == DoGet \/ DoUnget \/ DoPush
Spec == Init /\ [][Next]_vars
Refines == ok
=============================================================================
