SPECIFICATION Spec
CONSTANTS
  Chars = {120, 121}
  Texts <- TextsDef
  Files <- FilesDef
  MaxOps = 7
  MaxLevels = 3
INVARIANT Refines
CHECK_DEADLOCK FALSE
