------------------------------ MODULE TraceImage ------------------------------
(* Acceptor: {"id", "big", "ops", "obs"}: obs[i] = what the real Memory object returned for operation i and its  *)
(* low_address / high_address afterwards; they must be what Image.tla says.                                     *)
EXTENDS Image, Json, IOUtils
Tr == ndJsonDeserialize(IOEnv.TRACE)
VARIABLE l
TInit == l = 1
TNext == l <= Len(Tr) /\ l' = l + 1
PSz == 65536
Report ==
  IF l > Len(Tr) THEN PrintT("VERDICT " \o ToJson([done |-> Len(Tr)]))
  ELSE LET e == Tr[l]
           i == Replay(S0, e.ops, e.obs, 1, e.big, PSz) IN
       i = 0 \/ LET st == After(S0, SubSeq(e.ops, 1, i - 1), 1, e.big, PSz)
                    nx == Apply(st, e.ops[i], e.big, PSz) IN
                PrintT("VERDICT " \o ToJson([id |-> e.id, at |-> i, op |-> e.ops[i].k,
                        expect |-> [v |-> Expect(st, e.ops[i], e.big, PSz), low |-> nx.low, high |-> nx.high]]))
=============================================================================
