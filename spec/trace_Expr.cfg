SPECIFICATION Spec
CONSTANTS
  W = 8
INVARIANT Report
