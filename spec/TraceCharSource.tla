--------------------------- MODULE TraceCharSource ---------------------------
(* Acceptor: {"id","file","ops","got"}: got = the characters the real         *)
(* tokens_get_char delivered for the G operations of the script (-1 = EOF);   *)
(* they must be the heads of the reference stream.                            *)
EXTENDS CharSource, Json, IOUtils
Tr == ndJsonDeserialize(IOEnv.TRACE)
VARIABLE l
TInit == l = 1
TNext == l <= Len(Tr) /\ l' = l + 1
\* replay on the reference: the stream is a plain sequence
RECURSIVE Ref(_, _, _, _)
Ref(st, ops, i, out) ==
  IF i > Len(ops) THEN out
  ELSE LET o == ops[i] IN
    IF o.k = "G" THEN (LET o2 == Append(out, IF st = <<>> THEN EOFC ELSE st[1]) IN
                       IF Forced2(o2) THEN Ref(IF st = <<>> THEN st ELSE Tail(st), ops, i + 1, o2) ELSE out)
    ELSE IF o.k = "U" THEN Ref(<<o.c>> \o st, ops, i + 1, out)
    ELSE Ref(o.t \o st, ops, i + 1, out)
Report ==
  IF l > Len(Tr) THEN PrintT("VERDICT " \o ToJson([done |-> Len(Tr)]))
  ELSE LET e == Tr[l] r == Ref(e.file, e.ops, 1, <<>>) IN
       r = e.got \/ PrintT("VERDICT " \o ToJson([id |-> e.id, expect |-> r]))
=============================================================================
