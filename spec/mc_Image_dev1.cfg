SPECIFICATION Spec
CONSTANTS
  PS = 4
  NP = 3
  MaxOps = 4
  NextIsAdjacent = TRUE
  FirstPageOnly = FALSE
INVARIANT Refines
INVARIANT PagesOk
