---------------------------- MODULE TraceTwoPass ----------------------------
(* Acceptor for C02: {"id","prog","rule":{"set","lt","short","long"},"modelled", *)
(*  "obs":{"k","probes":[{"n","here","bound"}]}}                                 *)
EXTENDS TwoPassFn, Json, IOUtils
Tr == ndJsonDeserialize(IOEnv.TRACE)
VARIABLE l
TInit == l = 1
TNext == l <= Len(Tr) /\ l' = l + 1
Rule(r) == [set |-> {r.set[j] : j \in 1..Len(r.set)}, lt |-> r.lt, short |-> r.short, long |-> r.long]
Report ==
  IF l > Len(Tr) THEN PrintT("VERDICT " \o ToJson([done |-> Len(Tr)]))
  ELSE LET e == Tr[l]
           vd == Verdict(e.prog, Rule(e.rule), e.modelled, e.obs)
       IN vd = "ok" \/ PrintT("VERDICT " \o ToJson([id |-> e.id, vd |-> vd, drift |-> ObsDrift(e.obs),
                                                     predicted |-> Predict(e.prog, Rule(e.rule))]))
=============================================================================
