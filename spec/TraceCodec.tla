------------------------------ MODULE TraceCodec ------------------------------
(* Acceptor for the decode-first and encode-first observations of m_codec.     *)
EXTENDS Codec, Json, IOUtils
Tr == ndJsonDeserialize(IOEnv.TRACE)
VARIABLE l
TInit == l = 1
TNext == l <= Len(Tr) /\ l' = l + 1
Report ==
  IF l > Len(Tr) THEN PrintT("VERDICT " \o ToJson([done |-> Len(Tr)]))
  ELSE LET e == Tr[l] IN
    IF e.kind = "dis" THEN
       /\ (C08Single(e) \/ PrintT("VERDICT " \o ToJson([id |-> e.id, p |-> "C08", why |-> C08Why(e)])))
       /\ (C07Fix(e) \/ PrintT("VERDICT " \o ToJson([id |-> e.id, p |-> "C07", why |-> "decodes differently after re-encoding"])))
    ELSE IF e.kind = "enc" THEN
       (C01Fix(e) \/ PrintT("VERDICT " \o ToJson([id |-> e.id, p |-> "C01", why |-> C01Why(e)])))
    ELSE IF e.kind = "probe" THEN
       (Injective(e) \/ PrintT("VERDICT " \o ToJson([id |-> e.id, p |-> "C06",
           why |-> "two operand values share one encoding", pairs |-> Colliding(e)])))
    ELSE
       (C01Arch(e) \/ PrintT("VERDICT " \o ToJson([id |-> e.id, p |-> "C01", why |-> "bytes differ from the architecture's encoding"])))
=============================================================================
