--------------------------------- MODULE Util ---------------------------------
(***************************************************************************)
(* naken_util memory commands (core/UtilContext.cpp) for property C19.     *)
(* State: mem (byte address -> byte, 0 where never written), for a CPU     *)
(* with bpa bytes per address unit and a byte order.                       *)
(*   Write(w, a, vals)  write / write16 / write32  <a> v1 v2 ..            *)
(*   Print(w, a, b)     print / print16 / print32  <a>-<b>                 *)
(* Addresses in commands are in address units; a range a-b shows the units *)
(* a .. b-1 (the dump stops before b); rows start every 16 bytes and are   *)
(* labelled with the unit address of their first byte.                     *)
(***************************************************************************)
EXTENDS Integers, Sequences, FiniteSets, TLC

Rd(mem, a) == IF a \in DOMAIN mem THEN mem[a] ELSE 0
Bytes(v, w, big) == LET le == [i \in 1..w |-> (v \div (256 ^ (i - 1))) % 256] IN
                    IF big THEN [i \in 1..w |-> le[w + 1 - i]] ELSE le
\* v is given as a sequence of w bytes, least significant first (values may need 32 bits)
Ordered(vb, big) == IF big THEN [i \in 1..Len(vb) |-> vb[Len(vb) + 1 - i]] ELSE vb

RECURSIVE WriteAll(_, _, _, _, _)
WriteAll(mem, addr, vals, w, big) ==
  IF vals = <<>> THEN mem
  ELSE LET b == Ordered(SubSeq(vals[1], 1, w), big)
           m == [x \in (DOMAIN mem) \cup (addr..(addr + w - 1)) |-> IF x >= addr /\ x < addr + w THEN b[x - addr + 1] ELSE mem[x]]
       IN IF m = m THEN WriteAll(m, addr + w, Tail(vals), w, big) ELSE m

Write(mem, bpa, big, w, a, vals) == WriteAll(mem, a * bpa, vals, w, big)

\* the value printed for the w bytes at addr, as a sequence of bytes least significant first
ShownAt(mem, addr, w, big) == LET raw == [i \in 1..w |-> Rd(mem, addr + i - 1)] IN
                              IF big THEN [i \in 1..w |-> raw[w + 1 - i]] ELSE raw

\* expected dump: sequence of [label, vals] rows
PrintRows(mem, bpa, big, w, a, b) ==
  LET start == a * bpa
      end0  == b * bpa
      end   == IF start >= end0 THEN start + 128 ELSE end0
      n     == (end - start + w - 1) \div w                  \* number of values
      perrow == 16 \div w
      nrows == (n + perrow - 1) \div perrow
  IN [r \in 1..nrows |->
        [label |-> (start + (r - 1) * 16) \div bpa,
         vals  |-> [k \in 1..(IF r < nrows THEN perrow ELSE n - (nrows - 1) * perrow) |->
                      ShownAt(mem, start + (r - 1) * 16 + (k - 1) * w, w, big)]]]

\* replay a session: cmds is a sequence of [k, w, a, b, vals, out]; returns the index of the first
\* print whose recorded output differs from the model (0 = all agree)
RECURSIVE Replay(_, _, _, _, _)
Replay(mem, bpa, big, cmds, i) ==
  IF i > Len(cmds) THEN 0
  ELSE LET c == cmds[i] IN
    IF c.k = "write" THEN
       LET m == Write(mem, bpa, big, c.w, c.a, c.vals) IN IF m = m THEN Replay(m, bpa, big, cmds, i + 1) ELSE 0
    ELSE IF c.out = PrintRows(mem, bpa, big, c.w, c.a, c.b) THEN Replay(mem, bpa, big, cmds, i + 1)
    ELSE i

RECURSIVE MemAfter(_, _, _, _, _)
MemAfter(mem, bpa, big, cmds, i) ==
  IF i > Len(cmds) THEN mem
  ELSE IF cmds[i].k = "write" THEN MemAfter(Write(mem, bpa, big, cmds[i].w, cmds[i].a, cmds[i].vals), bpa, big, cmds, i + 1)
  ELSE MemAfter(mem, bpa, big, cmds, i + 1)

InitMem(cells) == [a \in {cells[i].a : i \in 1..Len(cells)} |-> cells[CHOOSE i \in 1..Len(cells) : cells[i].a = a].b]
SessionOk(e) == Replay(InitMem(e.init), e.bpa, e.big, e.cmds, 1) = 0
-----------------------------------------------------------------------------
(* "agrees with what the simulator then fetches": a load-immediate          *)
(* instruction of the CPU (from its architecture manual) at the unit        *)
(* address pc; after one simulator step the register holds the immediate    *)
(* that is in memory there.                                                 *)
(*   msp430  mov.w #imm16, r5   35 40 lo hi                                 *)
(*   6502    lda #imm8          a9 nn                                       *)
(*   z80     ld a, n            3e nn                                       *)
(*   avr8    ldi r16, K         1110 KKKK 0000 KKKK, low byte first         *)
LoadBytes(cpu, v) ==
  CASE cpu = "msp430" -> <<53, 64, v % 256, v \div 256>>
    [] cpu = "6502"   -> <<169, v % 256>>
    [] cpu = "z80"    -> <<62, v % 256>>
    [] cpu = "avr8"   -> <<v % 16, 224 + ((v \div 16) % 16)>>
IsLoadAt(cpu, mem, x) ==
  CASE cpu = "msp430" -> Rd(mem, x) = 53 /\ Rd(mem, x + 1) = 64
    [] cpu = "6502"   -> Rd(mem, x) = 169
    [] cpu = "z80"    -> Rd(mem, x) = 62
    [] cpu = "avr8"   -> Rd(mem, x) < 16 /\ Rd(mem, x + 1) \div 16 = 14
ImmAt(cpu, mem, x) ==
  CASE cpu = "msp430" -> Rd(mem, x + 2) + 256 * Rd(mem, x + 3)
    [] cpu = "6502"   -> Rd(mem, x + 1)
    [] cpu = "z80"    -> Rd(mem, x + 1)
    [] cpu = "avr8"   -> ((Rd(mem, x + 1) % 16) * 16) + (Rd(mem, x) % 16)
\* e = [cpu, bpa, big, init, cmds (writes), pc (unit address), reg (value the register shows after one step)]
FetchOk(e) == LET mem == MemAfter(InitMem(e.init), e.bpa, e.big, e.cmds, 1) IN
              IsLoadAt(e.cpu, mem, e.pc * e.bpa) => e.reg = ImmAt(e.cpu, mem, e.pc * e.bpa)
FetchExpect(e) == ImmAt(e.cpu, MemAfter(InitMem(e.init), e.bpa, e.big, e.cmds, 1), e.pc * e.bpa)

=============================================================================
