--------------------------------- MODULE Util ---------------------------------
(***************************************************************************)
(* naken_util memory commands (core/UtilContext.cpp) for property C19.     *)
(* State: mem (byte address -> byte, 0 where never written), for a CPU     *)
(* with bpa bytes per address unit and a byte order.                       *)
(*   Write(w, a, vals)  write / write16 / write32  <a> v1 v2 ..            *)
(*   Print(w, a, b)     print / print16 / print32  <a>-<b>                 *)
(* Addresses in commands are in address units; a range a-b shows the units *)
(* a .. b-1 (the dump stops before b); rows start every 16 bytes and are   *)
(* labelled with the unit address of their first byte.                     *)
(***************************************************************************)
EXTENDS Integers, Sequences, FiniteSets, TLC

Rd(mem, a) == IF a \in DOMAIN mem THEN mem[a] ELSE 0
Bytes(v, w, big) == LET le == [i \in 1..w |-> (v \div (256 ^ (i - 1))) % 256] IN
                    IF big THEN [i \in 1..w |-> le[w + 1 - i]] ELSE le
\* v is given as a sequence of w bytes, least significant first (values may need 32 bits)
Ordered(vb, big) == IF big THEN [i \in 1..Len(vb) |-> vb[Len(vb) + 1 - i]] ELSE vb

RECURSIVE WriteAll(_, _, _, _, _)
WriteAll(mem, addr, vals, w, big) ==
  IF vals = <<>> THEN mem
  ELSE LET b == Ordered(SubSeq(vals[1], 1, w), big)
           m == [x \in (DOMAIN mem) \cup (addr..(addr + w - 1)) |-> IF x >= addr /\ x < addr + w THEN b[x - addr + 1] ELSE mem[x]]
       IN IF m = m THEN WriteAll(m, addr + w, Tail(vals), w, big) ELSE m

Write(mem, bpa, big, w, a, vals) == WriteAll(mem, a * bpa, vals, w, big)

\* the value printed for the w bytes at addr, as a sequence of bytes least significant first
ShownAt(mem, addr, w, big) == LET raw == [i \in 1..w |-> Rd(mem, addr + i - 1)] IN
                              IF big THEN [i \in 1..w |-> raw[w + 1 - i]] ELSE raw

\* expected dump: sequence of [label, vals] rows
PrintRows(mem, bpa, big, w, a, b) ==
  LET start == a * bpa
      end0  == b * bpa
      end   == IF start >= end0 THEN start + 128 ELSE end0
      n     == (end - start + w - 1) \div w                  \* number of values
      perrow == 16 \div w
      nrows == (n + perrow - 1) \div perrow
  IN [r \in 1..nrows |->
        [label |-> (start + (r - 1) * 16) \div bpa,
         vals  |-> [k \in 1..(IF r < nrows THEN perrow ELSE n - (nrows - 1) * perrow) |->
                      ShownAt(mem, start + (r - 1) * 16 + (k - 1) * w, w, big)]]]

(* interactive asm (main/naken_util.cpp assemble_code): `asm <org>` or `asm` (continue behind the   *)
(* last block), source lines, an empty line.  A block is a sequence of items                         *)
(*   [k |-> "data", w, vals]   .db / .dc16 / .dc32 v1, v2, ..   (bytes in the CPU's order)           *)
(*   [k |-> "org", a]          .org a   (a in address units)                                         *)
(*   [k |-> "res", cnt]         .resb cnt  (cnt bytes skipped, nothing written)                           *)
(*   [k |-> "insn", cpu, imm]  the load-immediate instruction of LoadBytes                           *)
(* st = [mem, pc (byte address), hi (highest byte address written by the block, -1 if none)].        *)
(* Only the bytes the items denote change; the next block without an address starts at the unit      *)
(* behind the highest byte written (org = -2, nothing said, when the block ends inside a unit).       *)
LoadBytes(cpu, v) ==
  CASE cpu = "msp430" -> <<53, 64, v % 256, v \div 256>>
    [] cpu = "6502"   -> <<169, v % 256>>
    [] cpu = "z80"    -> <<62, v % 256>>
    [] cpu = "avr8"   -> <<v % 16, 224 + ((v \div 16) % 16)>>
Max2(a, b) == IF a > b THEN a ELSE b
\* [k |-> "lab", n] defines the label n at the current address, [k |-> "ref", n] is `.dc16 n`: the label's address in
\* units, wherever in the block it is defined (the block is assembled in two passes)
ItemSize(it) == CASE it.k = "res" -> it.cnt [] it.k = "insn" -> Len(LoadBytes(it.cpu, it.imm)) [] it.k = "lab" -> 0
                  [] it.k = "ref" -> 2 [] it.k = "org" -> 0 [] OTHER -> it.w * Len(it.vals)
RECURSIVE LabPass(_, _, _, _)
LabPass(pc, items, i, acc) ==
  IF i > Len(items) THEN acc
  ELSE LET it == items[i]
           a2 == IF it.k = "lab" THEN (it.n :> pc) @@ acc ELSE acc
           p2 == IF it.k = "org" THEN it.a ELSE pc + ItemSize(it)
       IN IF a2 = a2 /\ p2 = p2 THEN LabPass(p2, items, i + 1, a2) ELSE acc
RECURSIVE AsmItems(_, _, _, _)
AsmItems(st, big, items, i) ==
  IF i > Len(items) THEN st
  ELSE LET it == items[i]
           nx == CASE it.k = "org" -> [st EXCEPT !.pc = it.a]
                   [] it.k = "res" -> [st EXCEPT !.pc = @ + it.cnt]
                   [] it.k = "lab" -> st
                   [] it.k = "ref" -> LET v == st.labs[it.n] \div st.bpa IN
                        [st EXCEPT !.mem = WriteAll(st.mem, st.pc, <<<<v % 256, (v \div 256) % 256, 0, 0>>>>, 2, big),
                                   !.pc = @ + 2, !.hi = Max2(@, st.pc + 1)]
                   [] it.k = "insn" -> LET bs == LoadBytes(it.cpu, it.imm) IN
                        [st EXCEPT !.mem = WriteAll(st.mem, st.pc, [j \in 1..Len(bs) |-> <<bs[j]>>], 1, FALSE),
                                   !.pc = @ + Len(bs), !.hi = Max2(@, st.pc + Len(bs) - 1)]
                   [] OTHER -> [st EXCEPT !.mem = WriteAll(st.mem, st.pc, it.vals, it.w, big),
                                          !.pc = @ + it.w * Len(it.vals), !.hi = Max2(@, st.pc + it.w * Len(it.vals) - 1)]
       IN IF nx = nx THEN AsmItems(nx, big, items, i + 1) ELSE st
\* items give .org in units; scale here
ScaleItems(items, bpa) == [j \in 1..Len(items) |-> IF items[j].k = "org" THEN [items[j] EXCEPT !.a = @ * bpa] ELSE items[j]]
\* s = [mem, org (unit address where `asm` without an argument continues)]
AsmBlock(s, bpa, big, c) ==
  LET o  == IF c.a >= 0 THEN c.a ELSE s.org
      its == ScaleItems(c.items, bpa)
      st == AsmItems([mem |-> s.mem, pc |-> o * bpa, hi |-> -1, labs |-> LabPass(o * bpa, its, 1, <<>>), bpa |-> bpa], big, its, 1)
  IN [mem |-> st.mem, org |-> IF st.hi < 0 THEN o ELSE IF (st.hi + 1) % bpa = 0 THEN (st.hi + 1) \div bpa ELSE -2]

StepCmd(s, bpa, big, c) ==
  CASE c.k = "write" -> [s EXCEPT !.mem = Write(s.mem, bpa, big, c.w, c.a, c.vals)]
    [] c.k = "asm"   -> AsmBlock(s, bpa, big, c)
    [] OTHER         -> s

\* replay a session: cmds is a sequence of [k, w, a, b, vals, out] (asm: [k, a, items]); returns the index of
\* the first print whose recorded output differs from the model (0 = all agree)
RECURSIVE ReplayS(_, _, _, _, _)
ReplayS(s, bpa, big, cmds, i) ==
  IF i > Len(cmds) THEN 0
  ELSE LET c == cmds[i] IN
    IF c.k = "print" THEN
       IF c.out = PrintRows(s.mem, bpa, big, c.w, c.a, c.b) THEN ReplayS(s, bpa, big, cmds, i + 1) ELSE i
    ELSE IF c.k = "asm" /\ c.a < 0 /\ s.org < 0 THEN 0            \* continues behind a block that ended inside a unit
    ELSE LET n == StepCmd(s, bpa, big, c) IN IF n = n THEN ReplayS(n, bpa, big, cmds, i + 1) ELSE 0
Replay(mem, bpa, big, cmds, i) == ReplayS([mem |-> mem, org |-> 0], bpa, big, cmds, i)

RECURSIVE StateAfter(_, _, _, _, _)
StateAfter(s, bpa, big, cmds, i) ==
  IF i > Len(cmds) THEN s
  ELSE LET n == StepCmd(s, bpa, big, cmds[i]) IN IF n = n THEN StateAfter(n, bpa, big, cmds, i + 1) ELSE s
MemAfter(mem, bpa, big, cmds, i) == StateAfter([mem |-> mem, org |-> 0], bpa, big, cmds, i).mem

InitMem(cells) == [a \in {cells[i].a : i \in 1..Len(cells)} |-> cells[CHOOSE i \in 1..Len(cells) : cells[i].a = a].b]
(* symbol names in addresses and ranges: e.syms is the symbol table of the loaded file, a sequence of         *)
(* [name, a] with a in address units; a command names a symbol in sa (start / write address) or sb (range end) *)
(* and the symbol stands for its address exactly as a number would.                                            *)
SymVal(syms, nm) == syms[CHOOSE i \in 1..Len(syms) : syms[i].name = nm].a
HasSym(c, f) == f \in DOMAIN c /\ c[f] # ""
ResolveCmd(syms, c) ==
  LET c1 == IF HasSym(c, "sa") THEN [c EXCEPT !.a = SymVal(syms, c.sa)] ELSE c
  IN IF HasSym(c, "sb") THEN [c1 EXCEPT !.b = SymVal(syms, c.sb)] ELSE c1
Res(e) == IF "syms" \in DOMAIN e THEN [i \in 1..Len(e.cmds) |-> ResolveCmd(e.syms, e.cmds[i])] ELSE e.cmds
SessionOk(e) == Replay(InitMem(e.init), e.bpa, e.big, Res(e), 1) = 0
-----------------------------------------------------------------------------
(* "agrees with what the simulator then fetches": a load-immediate          *)
(* instruction of the CPU (from its architecture manual) at the unit        *)
(* address pc; after one simulator step the register holds the immediate    *)
(* that is in memory there.                                                 *)
(*   msp430  mov.w #imm16, r5   35 40 lo hi                                 *)
(*   6502    lda #imm8          a9 nn                                       *)
(*   z80     ld a, n            3e nn                                       *)
(*   avr8    ldi r16, K         1110 KKKK 0000 KKKK, low byte first         *)
IsLoadAt(cpu, mem, x) ==
  CASE cpu = "msp430" -> Rd(mem, x) = 53 /\ Rd(mem, x + 1) = 64
    [] cpu = "6502"   -> Rd(mem, x) = 169
    [] cpu = "z80"    -> Rd(mem, x) = 62
    [] cpu = "avr8"   -> Rd(mem, x) < 16 /\ Rd(mem, x + 1) \div 16 = 14
ImmAt(cpu, mem, x) ==
  CASE cpu = "msp430" -> Rd(mem, x + 2) + 256 * Rd(mem, x + 3)
    [] cpu = "6502"   -> Rd(mem, x + 1)
    [] cpu = "z80"    -> Rd(mem, x + 1)
    [] cpu = "avr8"   -> ((Rd(mem, x + 1) % 16) * 16) + (Rd(mem, x) % 16)
\* e = [cpu, bpa, big, init, cmds (writes), pc (unit address), reg (value the register shows after one step)]
FetchOk(e) == LET mem == MemAfter(InitMem(e.init), e.bpa, e.big, Res(e), 1) IN
              IsLoadAt(e.cpu, mem, e.pc * e.bpa) => e.reg = ImmAt(e.cpu, mem, e.pc * e.bpa)
FetchExpect(e) == ImmAt(e.cpu, MemAfter(InitMem(e.init), e.bpa, e.big, Res(e), 1), e.pc * e.bpa)

=============================================================================
