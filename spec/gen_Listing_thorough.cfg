INIT Init
NEXT Next
CONSTANTS
  MaxLen = 4
INVARIANT Emit
