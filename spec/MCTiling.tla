------------------------------ MODULE MCTiling ------------------------------
EXTENDS Tiling
CONSTANTS N, MaxLenC, Unit
VARIABLES DL, low, high
Init == /\ DL \in [{a \in 0..(N + MaxLenC * Unit) : a % Unit = 0} -> {k * Unit : k \in 1..MaxLenC}]
        /\ low \in {0, Unit} /\ high \in {h \in low..N : (h + 1) % Unit = 0}
Next == FALSE /\ UNCHANGED <<DL, low, high>>
Starts == Loop(low, high, DL, <<>>)
Lines == [i \in 1..Len(Starts) |-> Starts[i] \div Unit]
LoopAccepted == TilingWhy(Lines, DL, Unit, low, high) = ""
LoopCovers == /\ low..high \subseteq Covered(Starts, DL)
              /\ \A i, j \in 1..Len(Starts) : i < j => Starts[i] + DL[Starts[i]] <= Starts[j]
\* the acceptor rejects a walk with a line removed, repeated or shifted
Mutants == {[i \in 1..(Len(Lines) - 1) |-> IF i < k THEN Lines[i] ELSE Lines[i + 1]] : k \in 1..Len(Lines)}
           \cup {[i \in 1..Len(Lines) |-> IF i = k THEN Lines[i] + 1 ELSE Lines[i]] : k \in 1..Len(Lines)}
RejectsMutants == \A m \in Mutants : TilingWhy(m, DL, Unit, low, high) # ""
=============================================================================
