------------------------------- MODULE Rv32iEnc -------------------------------
(***************************************************************************)
(* The RV32I base instruction set encodings (The RISC-V Instruction Set    *)
(* Manual, Volume I, chapter 2 and the RV32I listing in chapter 24):       *)
(* formats R, I, S, B, U, J.  Written from the manual, not from            *)
(* asm/riscv.cpp or disasm/riscv.cpp.                                      *)
(*                                                                         *)
(* TLC integers are 32-bit and signed, so a word is the pair <<lo, hi>> of *)
(* its 16-bit halves.                                                      *)
(*                                                                         *)
(* An instruction is [op, rd, rs1, rs2, imm]: imm is the signed value of   *)
(* the assembly operand (byte offset for loads/stores, the distance to the *)
(* target for branches and jal, the 20-bit field for lui/auipc, the shift  *)
(* amount for slli/srli/srai).                                             *)
(***************************************************************************)
EXTENDS Integers, Sequences

Bits(v, lo, n) == (v \div (2 ^ lo)) % (2 ^ n)
\* two's complement of a signed value in n bits (n <= 21)
TC(v, n) == ((v % (2 ^ n)) + (2 ^ n)) % (2 ^ n)

\* word pieces: each function gives <<lo16, hi16>>
R(f7, rs2, rs1, f3, rd, opc) ==
  << Bits(rs1, 0, 1) * 32768 + f3 * 4096 + rd * 128 + opc,  f7 * 512 + rs2 * 16 + Bits(rs1, 1, 4) >>
I(imm12, rs1, f3, rd, opc) ==
  << Bits(rs1, 0, 1) * 32768 + f3 * 4096 + rd * 128 + opc,  imm12 * 16 + Bits(rs1, 1, 4) >>
S(imm12, rs2, rs1, f3, opc) == R(Bits(imm12, 5, 7), rs2, rs1, f3, Bits(imm12, 0, 5), opc)
\* imm13: the byte offset in 13 bits, bit 0 is not encoded
B(imm13, rs2, rs1, f3, opc) ==
  R(Bits(imm13, 12, 1) * 64 + Bits(imm13, 5, 6), rs2, rs1, f3, Bits(imm13, 1, 4) * 2 + Bits(imm13, 11, 1), opc)
U(imm20, rd, opc) == << Bits(imm20, 0, 4) * 4096 + rd * 128 + opc,  Bits(imm20, 4, 16) >>
\* imm21: the byte offset in 21 bits, bit 0 is not encoded
J(imm21, rd, opc) ==
  U(Bits(imm21, 20, 1) * 524288 + Bits(imm21, 1, 10) * 512 + Bits(imm21, 11, 1) * 256 + Bits(imm21, 12, 8), rd, opc)

OpR == [add |-> <<0, 0>>, sub |-> <<32, 0>>, sll |-> <<0, 1>>, slt |-> <<0, 2>>, sltu |-> <<0, 3>>, xor |-> <<0, 4>>,
        srl |-> <<0, 5>>, sra |-> <<32, 5>>, or |-> <<0, 6>>, and |-> <<0, 7>>]
OpI == [addi |-> 0, slti |-> 2, sltiu |-> 3, xori |-> 4, ori |-> 6, andi |-> 7]
OpSh == [slli |-> <<0, 1>>, srli |-> <<0, 5>>, srai |-> <<32, 5>>]
OpL == [lb |-> 0, lh |-> 1, lw |-> 2, lbu |-> 4, lhu |-> 5]
OpS == [sb |-> 0, sh |-> 1, sw |-> 2]
OpB == [beq |-> 0, bne |-> 1, blt |-> 4, bge |-> 5, bltu |-> 6, bgeu |-> 7]

InRange(v, n) == v >= -(2 ^ (n - 1)) /\ v < 2 ^ (n - 1)

\* Enc(i): the word, or <<>> when the operand cannot be encoded
Enc(i) ==
  CASE i.op \in DOMAIN OpR  -> R(OpR[i.op][1], i.rs2, i.rs1, OpR[i.op][2], i.rd, 51)
    [] i.op \in DOMAIN OpI  -> IF InRange(i.imm, 12) THEN I(TC(i.imm, 12), i.rs1, OpI[i.op], i.rd, 19) ELSE <<>>
    [] i.op \in DOMAIN OpSh -> IF i.imm >= 0 /\ i.imm < 32 THEN R(OpSh[i.op][1], i.imm, i.rs1, OpSh[i.op][2], i.rd, 19) ELSE <<>>
    [] i.op \in DOMAIN OpL  -> IF InRange(i.imm, 12) THEN I(TC(i.imm, 12), i.rs1, OpL[i.op], i.rd, 3) ELSE <<>>
    [] i.op \in DOMAIN OpS  -> IF InRange(i.imm, 12) THEN S(TC(i.imm, 12), i.rs2, i.rs1, OpS[i.op], 35) ELSE <<>>
    [] i.op \in DOMAIN OpB  -> IF InRange(i.imm, 13) /\ i.imm % 2 = 0 THEN B(TC(i.imm, 13), i.rs2, i.rs1, OpB[i.op], 99) ELSE <<>>
    [] i.op = "lui"   -> IF i.imm >= 0 /\ i.imm < 1048576 THEN U(i.imm, i.rd, 55) ELSE <<>>
    [] i.op = "auipc" -> IF i.imm >= 0 /\ i.imm < 1048576 THEN U(i.imm, i.rd, 23) ELSE <<>>
    [] i.op = "jal"   -> IF InRange(i.imm, 21) /\ i.imm % 2 = 0 THEN J(TC(i.imm, 21), i.rd, 111) ELSE <<>>
    [] i.op = "jalr"  -> IF InRange(i.imm, 12) THEN I(TC(i.imm, 12), i.rs1, 0, i.rd, 103) ELSE <<>>
    [] i.op = "ecall"  -> <<115, 0>>
    [] i.op = "ebreak" -> <<115, 16>>
    [] OTHER -> <<>>

-----------------------------------------------------------------------------
(* RV64I additions that only exist in the 64-bit variant (manual, chapter 5): the word forms.  Their shift amount   *)
(* is 5 bits wide (bit 25 belongs to funct7), their immediates 12 bits.                                            *)
OpRW  == [addw |-> <<0, 0>>, subw |-> <<32, 0>>, sllw |-> <<0, 1>>, srlw |-> <<0, 5>>, sraw |-> <<32, 5>>]
OpShW == [slliw |-> <<0, 1>>, srliw |-> <<0, 5>>, sraiw |-> <<32, 5>>]
OpL64 == [lwu |-> 6, ld |-> 3]
Enc64(i) ==
  CASE i.op \in DOMAIN OpRW  -> R(OpRW[i.op][1], i.rs2, i.rs1, OpRW[i.op][2], i.rd, 59)
    [] i.op \in DOMAIN OpShW -> IF i.imm >= 0 /\ i.imm < 32 THEN R(OpShW[i.op][1], i.imm, i.rs1, OpShW[i.op][2], i.rd, 27) ELSE <<>>
    [] i.op = "addiw" -> IF InRange(i.imm, 12) THEN I(TC(i.imm, 12), i.rs1, 0, i.rd, 27) ELSE <<>>
    [] i.op \in DOMAIN OpL64 -> IF InRange(i.imm, 12) THEN I(TC(i.imm, 12), i.rs1, OpL64[i.op], i.rd, 3) ELSE <<>>
    [] i.op = "sd" -> IF InRange(i.imm, 12) THEN S(TC(i.imm, 12), i.rs2, i.rs1, 3, 35) ELSE <<>>
    [] OTHER -> <<>>
Is64(i) == i.op \in DOMAIN OpRW \cup DOMAIN OpShW \cup DOMAIN OpL64 \cup {"addiw", "sd"}
EncAny(i) == IF Is64(i) THEN Enc64(i) ELSE Enc(i)

BytesOfWord(w) == <<w[1] % 256, w[1] \div 256, w[2] % 256, w[2] \div 256>>
=============================================================================
