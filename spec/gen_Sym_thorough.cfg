SPECIFICATION Spec
CONSTANTS
  MaxLen = 5
INVARIANT Emit
