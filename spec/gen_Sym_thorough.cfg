SPECIFICATION Spec
CONSTANTS
  MaxLen = 5
  MaxDeep = 4
INVARIANT Emit
INVARIANT EmitPool
