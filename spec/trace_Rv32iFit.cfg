INIT TInit
NEXT TNext
INVARIANT ReportFit
