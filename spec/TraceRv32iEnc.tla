----------------------------- MODULE TraceRv32iEnc -----------------------------
(* Acceptor: {"id","i","acc","b"}: the bytes the real assembler emitted for   *)
(* the instruction must be the manual's word.                                 *)
EXTENDS Rv32iEnc, TLC, Json, IOUtils
Tr == ndJsonDeserialize(IOEnv.TRACE)
VARIABLE l
TInit == l = 1
TNext == l <= Len(Tr) /\ l' = l + 1
Why(e) == LET w == Enc(e.i) IN
          \* an operand the field cannot hold: whether it is rejected or wrapped is C06's question, not this clause's
          IF w = <<>> THEN ""
          ELSE IF ~e.acc THEN "rejected"
          ELSE IF e.b = BytesOfWord(w) THEN "" ELSE "bytes are not the architecture encoding"
Report ==
  IF l > Len(Tr) THEN PrintT("VERDICT " \o ToJson([done |-> Len(Tr)]))
  ELSE LET e == Tr[l] w == Why(e) IN
       w = "" \/ PrintT("VERDICT " \o ToJson([id |-> e.id, why |-> w]))
=============================================================================
