----------------------------- MODULE TraceRv32iEnc -----------------------------
(* Acceptor: {"id","i","acc","b"}: the bytes the real assembler emitted for   *)
(* the instruction must be the manual's word.                                 *)
EXTENDS Rv32iEnc, TLC, Json, IOUtils
Tr == ndJsonDeserialize(IOEnv.TRACE)
VARIABLE l
TInit == l = 1
TNext == l <= Len(Tr) /\ l' = l + 1
Why(e) == LET w == Enc(e.i) IN
          \* an operand the field cannot hold: whether it is rejected or wrapped is C06's question, not this clause's
          IF w = <<>> THEN ""
          ELSE IF ~e.acc THEN "rejected"
          ELSE IF e.b = BytesOfWord(w) THEN "" ELSE "bytes are not the architecture encoding"
\* C06, decided with the manual's field widths: an operand the field cannot hold is an error; an operand it can hold
\* is encoded as the manual says (events of the 64-bit word forms carry them as well)
\* the property lets an assembler take the signed and the unsigned spelling of one field value (addi x1, x2, 4095 for
\* the 12-bit field 0xfff = -1): Alt(i) is the other spelling of i's operand in a field of FieldBits(i.op) bits
FieldBits(op) == IF op \in DOMAIN OpSh \cup DOMAIN OpShW THEN 5
                 ELSE IF op \in DOMAIN OpB THEN 13 ELSE IF op = "jal" THEN 21 ELSE IF op \in {"lui", "auipc"} THEN 20 ELSE 12
Alt(i) == LET n == FieldBits(i.op) IN
          IF i.imm >= 2 ^ (n - 1) /\ i.imm < 2 ^ n THEN [i EXCEPT !.imm = @ - 2 ^ n]
          ELSE IF i.imm < 0 /\ i.imm >= -(2 ^ (n - 1)) THEN [i EXCEPT !.imm = @ + 2 ^ n]
          ELSE i
FitWhy(e) == LET w == EncAny(e.i)
                 wa == EncAny(Alt(e.i)) IN
             IF w # <<>> THEN (IF ~e.acc THEN "rejected" ELSE IF e.b = BytesOfWord(w) THEN "" ELSE "bytes are not the architecture encoding")
             ELSE IF Alt(e.i) # e.i /\ wa # <<>> THEN (IF e.acc /\ e.b # BytesOfWord(wa) THEN "bytes are not the architecture encoding of the field value" ELSE "")
             ELSE IF e.acc THEN "an operand that does not fit its field was accepted" ELSE ""
ReportFit ==
  IF l > Len(Tr) THEN PrintT("VERDICT " \o ToJson([done |-> Len(Tr)]))
  ELSE LET e == Tr[l] w == FitWhy(e) IN
       w = "" \/ PrintT("VERDICT " \o ToJson([id |-> e.id, why |-> w]))
Report ==
  IF l > Len(Tr) THEN PrintT("VERDICT " \o ToJson([done |-> Len(Tr)]))
  ELSE LET e == Tr[l] w == Why(e) IN
       w = "" \/ PrintT("VERDICT " \o ToJson([id |-> e.id, why |-> w]))
=============================================================================
