------------------------------ MODULE GenLimits ------------------------------
(* Cases for C16: every bounded resource at capacity-1, capacity, capacity+1, 2x, 16x; nesting at 8192 and 300000 *)
EXTENDS Integers, Sequences, TLC, Json
VARIABLE c
Res == {[r |-> "ident", cap |-> 512], [r |-> "number", cap |-> 512], [r |-> "string", cap |-> 512],
        [r |-> "ticks", cap |-> 4], [r |-> "ident_dots", cap |-> 512], [r |-> "ident_slashes", cap |-> 512], [r |-> "macro_name", cap |-> 512], [r |-> "macro_body", cap |-> 1024],
        [r |-> "macro_params", cap |-> 1024], [r |-> "macro_arg", cap |-> 1024], [r |-> "macro_arg_escapes", cap |-> 512], [r |-> "macro_args_total", cap |-> 4096], [r |-> "macro_call_commas", cap |-> 255], [r |-> "macro_param_count", cap |-> 127],
        [r |-> "macro_param_count", cap |-> 255], [r |-> "empty_define_uses", cap |-> 128], [r |-> "out_path", cap |-> 1024],
        [r |-> "equ_text", cap |-> 512], [r |-> "define_text", cap |-> 1024], [r |-> "include_name", cap |-> 512],
        [r |-> "include_path", cap |-> 4096], [r |-> "include_paths_total", cap |-> 4096], [r |-> "operands", cap |-> 16],
        [r |-> "nest_macro", cap |-> 128], [r |-> "nest_if", cap |-> 128], [r |-> "nest_include", cap |-> 128],
        [r |-> "nest_paren", cap |-> 128], [r |-> "nest_unary", cap |-> 128], [r |-> "nest_unary_paren", cap |-> 128],
        [r |-> "nest_unary_operand", cap |-> 128], [r |-> "nest_ifexpr_not", cap |-> 128], [r |-> "nest_ifexpr_paren", cap |-> 128], [r |-> "repeat_count", cap |-> 65536],
        [r |-> "resb", cap |-> 65536], [r |-> "data_fill", cap |-> 65536], [r |-> "db_items", cap |-> 512],
        [r |-> "label_count", cap |-> 512], [r |-> "line_length", cap |-> 4096], [r |-> "comment_length", cap |-> 4096],
        [r |-> "define_recursion", cap |-> 2], [r |-> "equ_recursion", cap |-> 2], [r |-> "define_chain", cap |-> 128], [r |-> "include_self", cap |-> 1]}
\* names of defines / equ / macros are stored with a one-byte length: lengths around 127 and 255, with a value of 123 characters
NameRes == {[r |-> "equ_name", cap |-> 127], [r |-> "define_name", cap |-> 127], [r |-> "macro_name_value", cap |-> 127],
            [r |-> "equ_name", cap |-> 255], [r |-> "define_name", cap |-> 255]}
\* per-CPU token chains: every back end splits its operands itself (the renderer runs these for every CPU of cpu_list[] with
\* that CPU's first corpus mnemonic): n suffixes glued to the mnemonic (add.s.s.s), n operator characters as an operand
\* (tblrd *+*+), an operand list of n items, an open parenthesis as the last thing of the file (no newline)
CpuRes == {"cpu_suffix_chain", "cpu_symbol_chain", "cpu_operand_list", "cpu_open_paren_eof", "cpu_open_bracket_eof"}
CpuCases == {[res |-> r, cap |-> 16, len |-> n] : r \in CpuRes, n \in {3, 40, 600}}
\* two nestings multiplied: a recursion that is unbounded in one dimension (a file or macro that includes / invokes itself)
\* with len levels of the other nesting wrapped around every step; every such input is over the limit and must be an error,
\* whatever the per-level limits are (the recursion of assemble() is as deep as the product)
Prod == {"prod_include_if", "prod_macro_if", "prod_include_macro_if", "prod_include_repeat1"}
ProdCases == {[res |-> r, cap |-> 1, len |-> n] : r \in Prod, n \in {2, 16, 64, 126, 127, 128}}
\* entries of the macro table are carved out of pools of 32768 bytes (an entry is 4 bytes, the name, the text and two
\* terminators): texts of every length that brings an entry to the size of a pool, one byte at a time
PoolCases == {[res |-> r, cap |-> 32768, len |-> n] : r \in {"define_value_exact", "macro_body_exact"}, n \in 32700..32775}
Lens(cap) == {1, cap \div 2, cap - 1, cap, cap + 1, cap + 2, 2 * cap, 2 * cap + 1} \cup (IF cap <= 4096 THEN {16 * cap} ELSE {})
\* recursion in the code follows the nesting of the input: these are also tried far beyond any stack
Deep == {"empty_define_uses", "nest_paren", "nest_unary", "nest_unary_paren", "nest_unary_operand", "nest_if", "nest_ifexpr_not", "nest_ifexpr_paren"}
\* statements that only one of the two passes sees (the guard asks for a name that is defined further down, so
\* its answer differs between the passes): the symbol table is locked and the macro table reset in pass 2
Guards == {"p2_ifdef", "p2_if_defined", "p2_else", "p1_ifndef", "p1_else"}
Laters == {"label", "set", "equ"}
Stmts  == {"set", "set_existing", "label", "db", "insn", "macro", "define", "equ", "org", "scope", "func", "export",
           "include", "binfile", "repeat", "align", "entry_point", "call_undefined", "undef"}
PassCases == {[res |-> "pass_only", cap |-> 1, len |-> 1, guard |-> g, later |-> d, stmt |-> t] : g \in Guards, d \in Laters, t \in Stmts}
Init == \/ c \in PassCases
        \/ c \in PoolCases
        \/ c \in ProdCases
        \/ c \in CpuCases
        \/ \E x \in NameRes : \E n \in {x.cap - 2, x.cap - 1, x.cap, x.cap + 1, x.cap + 2} : c = [res |-> x.r, cap |-> x.cap, len |-> n]
        \/ \E x \in Res : \E n \in Lens(x.cap) \cup (IF x.r \in Deep THEN {8192, 300000} ELSE {}) :
          n >= 1 /\ c = [res |-> x.r, cap |-> x.cap, len |-> n]
Next == FALSE /\ UNCHANGED c
Emit == PrintT("CASE " \o ToJson(c))
=============================================================================
