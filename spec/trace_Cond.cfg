SPECIFICATION Spec
CONSTANTS
  CountsIfndef = TRUE
INVARIANT Report
