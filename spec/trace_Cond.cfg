SPECIFICATION Spec
CONSTANTS
  CountsIfndef = TRUE
  CountsCloses = TRUE
INVARIANT Report
