----------------------------- MODULE TraceTiling -----------------------------
(* Acceptor for the range half of C08.  One line per run of the real         *)
(* naken_util -<cpu> -bin [-address A] -disasm | -disasm_range a-b:           *)
(*  {"id","unit","low","high" (byte addresses of the range),"lines" (the      *)
(*   address column of the output, in output order),"dl" ([a, n]: length the  *)
(*   real single-instruction decoder returns at byte address a)}              *)
EXTENDS Tiling, Json, IOUtils
Tr == ndJsonDeserialize(IOEnv.TRACE)
VARIABLE l
TInit == l = 1
TNext == l <= Len(Tr) /\ l' = l + 1
DLOf(e) == [a \in {e.dl[i].a : i \in 1..Len(e.dl)} |-> e.dl[CHOOSE i \in 1..Len(e.dl) : e.dl[i].a = a].n]
Report ==
  IF l > Len(Tr) THEN PrintT("VERDICT " \o ToJson([done |-> Len(Tr)]))
  ELSE LET e == Tr[l] w == TilingWhy(e.lines, DLOf(e), e.unit, e.low, e.high) IN
       w = "" \/ PrintT("VERDICT " \o ToJson([id |-> e.id, why |-> w]))
=============================================================================
