------------------------------ MODULE TraceUtil ------------------------------
EXTENDS Util, Json, IOUtils
Tr == ndJsonDeserialize(IOEnv.TRACE)
VARIABLE l
TInit == l = 1
TNext == l <= Len(Tr) /\ l' = l + 1
Report ==
  IF l > Len(Tr) THEN PrintT("VERDICT " \o ToJson([done |-> Len(Tr)]))
  ELSE LET e == Tr[l] IN
       IF "pc" \in DOMAIN e
       THEN FetchOk(e) \/ PrintT("VERDICT " \o ToJson([id |-> e.id, at |-> 0, expect |-> FetchExpect(e)]))
       ELSE SessionOk(e) \/
       LET cm == Res(e)
           i == Replay(InitMem(e.init), e.bpa, e.big, cm, 1) IN
       PrintT("VERDICT " \o ToJson([id |-> e.id, at |-> i,
                 expect |-> PrintRows(MemAfter(InitMem(e.init), e.bpa, e.big, SubSeq(cm, 1, i - 1), 1), e.bpa, e.big, cm[i].w, cm[i].a, cm[i].b)]))
=============================================================================
