--------------------------- MODULE TraceListingLfsr ---------------------------
EXTENDS ListingLfsr, Json, IOUtils
Tr == ndJsonDeserialize(IOEnv.TRACE)
VARIABLE l
TInit == l = 1
TNext == l <= Len(Tr) /\ l' = l + 1
Report ==
  IF l > Len(Tr) THEN PrintT("VERDICT " \o ToJson([done |-> Len(Tr)]))
  ELSE LET e == Tr[l] IN LfsrOk(e) \/ PrintT("VERDICT " \o ToJson([id |-> e.id, why |-> LfsrWhy(e)]))
=============================================================================
