----------------------------- MODULE Msp430Cpu -----------------------------
(***************************************************************************)
(* One instruction step of the MSP430 16-bit core, transcribed from the    *)
(* MSP430x2xx Family User's Guide (SLAU144), chapter 3 (CPU, addressing    *)
(* modes, instruction set).                                                *)
(*                                                                         *)
(* State: reg (16 registers, 0 = PC, 1 = SP, 2 = SR, 3 = CG), memory as a  *)
(* background pattern Bg(a) overridden by the function `set` (byte cells). *)
(* Step(s) returns the next state or marks the instruction as not part of  *)
(* the core instruction set (illegal).  Results the guide leaves undefined *)
(* (V after DADD, DADD on non-BCD digits) are returned as "any".           *)
(***************************************************************************)
EXTENDS Integers, Sequences, FiniteSets, TLC

LOCAL INSTANCE Bitwise

Bg(a) == (a * 7 + 3) % 256
\* a state with a field `zero` has an all-zero background (a freshly loaded naken_util), otherwise Bg
Rd8(s, a)  == LET x == a % 65536 IN IF x \in DOMAIN s.set THEN s.set[x] ELSE IF "zero" \in DOMAIN s THEN 0 ELSE Bg(x)
Rd16(s, a) == LET e == (a % 65536) - ((a % 65536) % 2) IN Rd8(s, e) + 256 * Rd8(s, e + 1)   \* word access ignores bit 0
Wr8(s, a, v)  == [s EXCEPT !.set = ((a % 65536) :> (v % 256)) @@ @]
Wr16(s, a, v) == LET e == (a % 65536) - ((a % 65536) % 2) IN
                 [s EXCEPT !.set = (e :> (v % 256)) @@ ((e + 1) :> ((v \div 256) % 256)) @@ @]

Reg(s, n) == s.reg[n + 1]
SetReg(s, n, v) == [s EXCEPT !.reg[n + 1] = v % 65536]

\* status register bits
CF == 1  ZF == 2  NF == 4  VF == 256
Flag(s, f) == (Reg(s, 2) \div f) % 2
SetFlags(s, c, z, n, v) ==
  LET sr   == Reg(s, 2)
      base == sr - (sr % 8) - ((sr \div VF) % 2) * VF        \* everything but C Z N V
  IN SetReg(s, 2, base + c * CF + z * ZF + n * NF + v * VF)

Msb(bw) == IF bw = 1 THEN 128 ELSE 32768
Mask(bw) == IF bw = 1 THEN 256 ELSE 65536
Neg(x, bw) == (x \div Msb(bw)) % 2
B2N(b) == IF b THEN 1 ELSE 0

-----------------------------------------------------------------------------
(* operand fetch.  PC already points behind the opcode word.  Returns      *)
(* [s (PC advanced, auto-increment applied), val, ea (-1 = register)]      *)

Inc(r, bw) == IF r \in {0, 1} THEN 2 ELSE IF bw = 1 THEN 1 ELSE 2

Src(s, r, as, bw) ==
  IF r = 3 THEN [s |-> s, val |-> (CASE as = 0 -> 0 [] as = 1 -> 1 [] as = 2 -> 2 [] as = 3 -> Mask(bw) - 1), ea |-> -1]
  ELSE IF r = 2 /\ as = 2 THEN [s |-> s, val |-> 4, ea |-> -1]
  ELSE IF r = 2 /\ as = 3 THEN [s |-> s, val |-> 8, ea |-> -1]
  ELSE IF as = 0 THEN [s |-> s, val |-> Reg(s, r) % Mask(bw), ea |-> -1]
  ELSE IF as = 1 THEN
       LET x    == Rd16(s, Reg(s, 0))
           base == IF r = 2 THEN 0 ELSE Reg(s, r)          \* &abs = x(SR) with SR read as 0; x(PC) is symbolic
           ea   == (base + x) % 65536
           s1   == SetReg(s, 0, Reg(s, 0) + 2)
       IN [s |-> s1, val |-> IF bw = 1 THEN Rd8(s, ea) ELSE Rd16(s, ea), ea |-> ea]
  ELSE \* @Rn and @Rn+
       LET ea == Reg(s, r)
           v  == IF bw = 1 THEN Rd8(s, ea) ELSE Rd16(s, ea)
           s1 == IF as = 3 THEN SetReg(s, r, Reg(s, r) + Inc(r, bw)) ELSE s
       IN [s |-> s1, val |-> v, ea |-> ea]

\* destination of a two-operand instruction: Ad = 0 register, Ad = 1 indexed/symbolic/absolute
Dst(s, r, ad, bw) ==
  IF ad = 0 THEN [s |-> s, val |-> Reg(s, r) % Mask(bw), ea |-> -1]
  ELSE LET x    == Rd16(s, Reg(s, 0))
           base == IF r = 2 THEN 0 ELSE Reg(s, r)
           ea   == (base + x) % 65536
           s1   == SetReg(s, 0, Reg(s, 0) + 2)
       IN [s |-> s1, val |-> IF bw = 1 THEN Rd8(s, ea) ELSE Rd16(s, ea), ea |-> ea]

\* write back: a byte result written to a register clears bits 15..8
Put(s, r, ea, bw, v) ==
  IF ea = -1 THEN (IF r = 3 THEN s ELSE SetReg(s, r, v % Mask(bw)))
  ELSE IF bw = 1 THEN Wr8(s, ea, v) ELSE Wr16(s, ea, v)

-----------------------------------------------------------------------------
(* arithmetic *)
AddFlags(a, b, c, bw) ==
  LET sum == a + b + c
      r   == sum % Mask(bw)
  IN [r |-> r, c |-> sum \div Mask(bw), z |-> B2N(r = 0), n |-> Neg(r, bw),
      v |-> B2N(Neg(a, bw) = Neg(b, bw) /\ Neg(r, bw) # Neg(a, bw))]

Inv(x, bw) == Mask(bw) - 1 - x

\* BCD addition digit by digit; defined only when all digits are 0..9
RECURSIVE DaddDigits(_, _, _, _)
DaddDigits(a, b, c, n) ==
  IF n = 0 THEN [r |-> 0, c |-> c]
  ELSE LET d   == (a % 16) + (b % 16) + c
           dig == IF d > 9 THEN d - 10 ELSE d
           rest == DaddDigits(a \div 16, b \div 16, IF d > 9 THEN 1 ELSE 0, n - 1)
       IN [r |-> dig + 16 * rest.r, c |-> rest.c]
RECURSIVE IsBcd(_, _)
IsBcd(x, n) == n = 0 \/ ((x % 16) <= 9 /\ IsBcd(x \div 16, n - 1))

\* [st (state with result and flags), any (set of flag names left undefined)]
TwoOp(s0, op, sreg, as, ad, bw, dreg) ==
  LET f1 == Src(s0, sreg, as, bw)
      f2 == Dst(f1.s, dreg, ad, bw)
      s  == f2.s
      a  == f1.val
      d  == f2.val
      cin == Flag(s0, CF)
      wb(v) == Put(s, dreg, f2.ea, bw, v)
      logic(r, store, vflag) ==
         LET t == IF store THEN wb(r) ELSE s
         IN SetFlags(t, B2N(r # 0), B2N(r = 0), Neg(r, bw), vflag)
  IN CASE op = 4  -> [st |-> wb(a), any |-> {}]                                               \* MOV
       [] op = 5  -> LET x == AddFlags(a, d, 0, bw) IN [st |-> SetFlags(wb(x.r), x.c, x.z, x.n, x.v), any |-> {}]
       [] op = 6  -> LET x == AddFlags(a, d, cin, bw) IN [st |-> SetFlags(wb(x.r), x.c, x.z, x.n, x.v), any |-> {}]
       [] op = 7  -> LET x == AddFlags(Inv(a, bw), d, cin, bw) IN [st |-> SetFlags(wb(x.r), x.c, x.z, x.n, x.v), any |-> {}]
       [] op = 8  -> LET x == AddFlags(Inv(a, bw), d, 1, bw) IN [st |-> SetFlags(wb(x.r), x.c, x.z, x.n, x.v), any |-> {}]
       [] op = 9  -> LET x == AddFlags(Inv(a, bw), d, 1, bw) IN [st |-> SetFlags(s, x.c, x.z, x.n, x.v), any |-> {}]
       [] op = 10 -> LET n == IF bw = 1 THEN 2 ELSE 4
                         x == DaddDigits(a, d, cin, n)
                     IN IF IsBcd(a, n) /\ IsBcd(d, n)
                        THEN [st |-> SetFlags(wb(x.r), x.c, B2N(x.r = 0), Neg(x.r, bw), 0), any |-> {"V"}]
                        ELSE [st |-> s, any |-> {"all"}]
       [] op = 11 -> [st |-> logic(a & d, FALSE, 0), any |-> {}]                               \* BIT
       [] op = 12 -> [st |-> wb(d & Inv(a, bw)), any |-> {}]                                   \* BIC
       [] op = 13 -> [st |-> wb(d | a), any |-> {}]                                            \* BIS
       [] op = 14 -> [st |-> logic(a ^^ d, TRUE, B2N(Neg(a, bw) = 1 /\ Neg(d, bw) = 1)), any |-> {}]   \* XOR
       [] op = 15 -> [st |-> logic(a & d, TRUE, 0), any |-> {}]                                \* AND

\* single operand instructions: opcode bits 9..7
OneOp(s0, op, as, bw, r) ==
  LET f == Src(s0, r, as, bw)
      s == f.s
      a == f.val
      cin == Flag(s0, CF)
      wb(v) == Put(s, r, f.ea, bw, v)
  IN CASE op = 0 -> LET res == (a \div 2) + cin * Msb(bw) IN                                   \* RRC
                    [st |-> SetFlags(wb(res), a % 2, B2N(res = 0), Neg(res, bw), 0), any |-> {}, ill |-> FALSE]
       [] op = 1 -> LET res == (a % 256) * 256 + (a \div 256) IN                               \* SWPB
                    [st |-> wb(res), any |-> {}, ill |-> bw = 1]
       [] op = 2 -> LET res == (a \div 2) + Neg(a, bw) * Msb(bw) IN                            \* RRA
                    [st |-> SetFlags(wb(res), a % 2, B2N(res = 0), Neg(res, bw), 0), any |-> {}, ill |-> FALSE]
       [] op = 3 -> LET res == (a % 256) + (IF (a % 256) >= 128 THEN 65280 ELSE 0) IN          \* SXT
                    [st |-> SetFlags(wb(res), B2N(res # 0), B2N(res = 0), Neg(res, 0), 0), any |-> {}, ill |-> bw = 1]
       [] op = 4 -> LET sp == (Reg(s, 1) - 2 + 65536) % 65536                                  \* PUSH
                        t  == SetReg(s, 1, sp)
                    \* PUSH.B: the guide does not say what the upper byte of the stack word holds
                    IN [st |-> IF bw = 1 THEN Wr8(t, sp, a) ELSE Wr16(t, sp, a),
                        any |-> IF bw = 1 THEN {"pushhi"} ELSE {}, ill |-> FALSE]
       [] op = 5 -> LET sp == (Reg(s, 1) - 2 + 65536) % 65536                                  \* CALL
                        t  == Wr16(SetReg(s, 1, sp), sp, Reg(s, 0))
                    IN [st |-> SetReg(t, 0, a), any |-> {}, ill |-> bw = 1]
       [] op = 6 -> LET sr == Rd16(s0, Reg(s0, 1))                                             \* RETI
                        pc == Rd16(s0, Reg(s0, 1) + 2)
                    IN [st |-> SetReg(SetReg(SetReg(s0, 2, sr), 0, pc), 1, Reg(s0, 1) + 4), any |-> {},
                        ill |-> ~(as = 0 /\ r = 0 /\ bw = 0)]
       [] op = 7 -> [st |-> s0, any |-> {}, ill |-> TRUE]

Cond(s, c) == LET C == Flag(s, CF) Z == Flag(s, ZF) N == Flag(s, NF) V == Flag(s, VF) IN
  CASE c = 0 -> Z = 0 [] c = 1 -> Z = 1 [] c = 2 -> C = 0 [] c = 3 -> C = 1
    [] c = 4 -> N = 1 [] c = 5 -> N = V [] c = 6 -> N # V [] c = 7 -> TRUE

\* one step from state s (PC at the opcode)
Step(s) ==
  LET w  == Rd16(s, Reg(s, 0))
      s1 == SetReg(s, 0, Reg(s, 0) + 2)
      top == w \div 4096
  IN IF top >= 4 THEN
        LET r == TwoOp(s1, top, (w \div 256) % 16, (w \div 16) % 4, (w \div 128) % 2, (w \div 64) % 2, w % 16)
        IN [st |-> r.st, any |-> r.any, ill |-> FALSE]
     ELSE IF top \in {2, 3} THEN
        LET off == w % 1024
            so  == IF off >= 512 THEN off - 1024 ELSE off
        IN [st |-> IF Cond(s1, (w \div 1024) % 8) THEN SetReg(s1, 0, (Reg(s1, 0) + 2 * so + 131072) % 65536) ELSE s1,
            any |-> {}, ill |-> FALSE]
     ELSE IF w \div 1024 = 4 THEN
        LET r == OneOp(s1, (w \div 128) % 8, (w \div 16) % 4, (w \div 64) % 2, w % 16)
        IN [st |-> r.st, any |-> r.any, ill |-> r.ill]
     ELSE [st |-> s, any |-> {}, ill |-> TRUE]


-----------------------------------------------------------------------------
(* Running a routine (second half of C14).  Cycle counts: SLAU144 tables   *)
(* 3-14 (interrupt/reset excluded), 3-15 (format II) and 3-16 (format I);  *)
(* a constant-generator source counts as a register source.                *)
SrcClass(r, as) == IF r = 3 \/ (r = 2 /\ as \in {2, 3}) \/ as = 0 THEN "reg"
                   ELSE IF as = 1 THEN "idx" ELSE IF as = 2 THEN "ind" ELSE "inc"      \* #N is @PC+
CyclesTwo(sreg, as, ad, dreg) ==
  LET sc == SrcClass(sreg, as) IN
  IF ad = 1 THEN (CASE sc = "reg" -> 4 [] sc = "ind" -> 5 [] sc = "inc" -> 5 [] sc = "idx" -> 6)
  ELSE IF dreg = 0 THEN (CASE sc = "reg" -> 2 [] sc = "ind" -> 2 [] sc = "inc" -> 3 [] sc = "idx" -> 3)
  ELSE (CASE sc = "reg" -> 1 [] sc = "ind" -> 2 [] sc = "inc" -> 2 [] sc = "idx" -> 3)
CyclesOne(op, r, as) ==
  LET sc == SrcClass(r, as) IN
  IF op = 6 THEN 5                                                                    \* reti
  ELSE IF op = 4 THEN (CASE sc = "reg" -> 3 [] sc = "ind" -> 4 [] sc = "inc" -> (IF r = 0 THEN 4 ELSE 5) [] sc = "idx" -> 5)   \* push
  ELSE IF op = 5 THEN (CASE sc = "reg" -> 4 [] sc = "ind" -> 4 [] sc = "inc" -> 5 [] sc = "idx" -> 5)   \* call
  ELSE (CASE sc = "reg" -> 1 [] sc = "ind" -> 3 [] sc = "inc" -> 3 [] sc = "idx" -> 4)
Cycles(s) ==
  LET w == Rd16(s, Reg(s, 0)) top == w \div 4096 IN
  IF top >= 4 THEN CyclesTwo((w \div 256) % 16, (w \div 16) % 4, (w \div 128) % 2, w % 16)
  ELSE IF top \in {2, 3} THEN 2
  ELSE CyclesOne((w \div 128) % 8, w % 16, (w \div 16) % 4)

IsCall(s) == LET w == Rd16(s, Reg(s, 0)) IN w \div 128 = 37              \* 0x1280..0x12ff
IsRet(s)  == Rd16(s, Reg(s, 0)) = 16688                                   \* 0x4130  mov @SP+, PC

\* run from s until the ret that leaves the routine (more rets than calls), a write to the byte address bio
\* (-1: none) or an instruction outside the core set; at most `fuel` instructions
\* does the instruction at PC store to byte address b (whatever the value)?  Only mov/add.. with an
\* absolute or indexed destination are used for this in the generated routines: the destination address
WritesTo(s, b) ==
  LET w == Rd16(s, Reg(s, 0)) top == w \div 4096
      s1 == SetReg(s, 0, Reg(s, 0) + 2) IN
  top >= 4 /\ (w \div 128) % 2 = 1 /\ top \notin {9, 11}
  /\ LET so == Src(s1, (w \div 256) % 16, (w \div 16) % 4, (w \div 64) % 2)
         dd == Dst(so.s, w % 16, 1, (w \div 64) % 2) IN
     dd.ea = b \/ ((w \div 64) % 2 = 0 /\ dd.ea + 1 = b)
RECURSIVE RunFrom(_, _, _, _, _)
RunFrom(s, depth, cyc, bio, fuel) ==
  IF fuel = 0 THEN [end |-> "fuel", st |-> s, cycles |-> cyc, exit |-> 0]
  ELSE LET r == Step(s)
           c2 == cyc + Cycles(s)
           d2 == depth + (IF IsCall(s) THEN 1 ELSE IF IsRet(s) THEN -1 ELSE 0) IN
    IF r.ill \/ r.any # {} THEN [end |-> "unsettled", st |-> s, cycles |-> cyc, exit |-> 0]
    ELSE IF bio >= 0 /\ bio \in DOMAIN r.st.set /\ (bio \notin DOMAIN s.set \/ r.st.set[bio] # s.set[bio] \/ WritesTo(s, bio))
      THEN [end |-> "break_io", st |-> r.st, cycles |-> c2, exit |-> r.st.set[bio]]
    ELSE IF d2 < 0 THEN [end |-> "ret", st |-> r.st, cycles |-> c2, exit |-> 0]
    ELSE RunFrom(r.st, d2, c2, bio, fuel - 1)

-----------------------------------------------------------------------------
(* Conformance of one observed step.                                        *)
(* e = [reg (pre, 16), set (pre, sequence of [a, b]), post (16 regs),        *)
(*      diff (sequence of [a, b]: bytes that differ from the pre-state)]     *)
SeqFn(sq) == [a \in {sq[i].a : i \in 1..Len(sq)} |-> (CHOOSE i \in 1..Len(sq) : sq[i].a = a)]
CellFn(sq) == [a \in {sq[i].a : i \in 1..Len(sq)} |-> sq[CHOOSE i \in 1..Len(sq) : sq[i].a = a].b]
Pre(e) == [reg |-> e.reg, set |-> CellFn(e.set)]

\* bytes of the expected state that differ from the pre-state
ExpDiff(pre, st) == {a \in DOMAIN st.set : st.set[a] # Rd8(pre, a)}
FlagMask(any) == IF "all" \in any THEN 0 ELSE IF "V" \in any THEN 65535 - VF ELSE 65535
MaskSr(x, any) == IF "V" \in any THEN x - ((x \div VF) % 2) * VF ELSE x

StepOk(e) ==
  LET pre == Pre(e)
      r   == Step(pre)
      obs == CellFn(e.diff)
  IN IF r.ill THEN TRUE                \* outside the core instruction set: C14 is silent (C15 covers survival)
     ELSE IF "all" \in r.any THEN TRUE
     ELSE LET ign == IF "pushhi" \in r.any THEN {(Reg(r.st, 1) + 1) % 65536} ELSE {} IN
          /\ \A n \in 0..15 : n # 2 => e.post[n + 1] = Reg(r.st, n)
          /\ MaskSr(e.post[3], r.any) = MaskSr(Reg(r.st, 2), r.any)
          /\ (DOMAIN obs) \ ign = ExpDiff(pre, r.st) \ ign
          /\ \A a \in (DOMAIN obs) \ ign : obs[a] = r.st.set[a]

StepWhy(e) ==
  LET pre == Pre(e)
      r   == Step(pre)
      obs == CellFn(e.diff)
      badreg == {n \in 0..15 : n # 2 /\ e.post[n + 1] # Reg(r.st, n)}
  IN IF badreg # {} THEN [what |-> "register", regs |-> badreg, expect |-> [n \in badreg |-> Reg(r.st, n)]]
     ELSE IF MaskSr(e.post[3], r.any) # MaskSr(Reg(r.st, 2), r.any)
          THEN [what |-> "flags", regs |-> {2}, expect |-> [n \in {2} |-> Reg(r.st, 2)]]
     ELSE [what |-> "memory", regs |-> {}, expect |-> [a \in ExpDiff(pre, r.st) |-> r.st.set[a]]]
=============================================================================
