------------------------------- MODULE GenUtil -------------------------------
(* Sessions for C19: drawn sequences of write*/print* commands; the acceptor replays them on Util.tla *)
EXTENDS Integers, Sequences, FiniteSets, TLC, Json
CONSTANT MaxLen
VARIABLES s, n
Vals == {<<0, 0, 0, 0>>, <<1, 0, 0, 0>>, <<127, 0, 0, 0>>, <<255, 0, 0, 0>>, <<52, 18, 0, 0>>, <<255, 255, 0, 0>>,
         <<120, 86, 52, 18>>, <<255, 255, 255, 255>>, <<0, 128, 0, 0>>, <<90, 165, 60, 195>>}
Addrs == {0, 4, 16, 32, 60, 64, 256, 4096, 65532, 65533, 65534, 65535}      \* the last four: around a 64 KiB page boundary
W(w, a, vs) == [k |-> "write", w |-> w, a |-> a, vals |-> vs]
P(w, a, b) == [k |-> "print", w |-> w, a |-> a, b |-> b]
Cmds == {W(w, a, <<v>>) : w \in {1, 2, 4}, a \in Addrs, v \in Vals}
        \cup {W(w, a, <<v1, v2, v3>>) : w \in {1, 2, 4}, a \in {16, 64}, v1 \in {<<1, 0, 0, 0>>}, v2 \in Vals, v3 \in {<<52, 18, 0, 0>>}}
        \cup {P(w, a, b) : w \in {1, 2, 4}, a \in {0, 16, 32, 64, 256, 4096}, b \in {0, 20, 36, 68, 80, 260, 4100, 4128}}
        \cup {P(w, 65520, 65552) : w \in {1, 2, 4}}
\* interactive asm blocks: data items in every width, .org / .resb gaps inside a block, with and without an address
D(w, vs) == [k |-> "data", w |-> w, vals |-> vs]
Items == {D(1, <<<<1, 0, 0, 0>>, <<2, 0, 0, 0>>, <<3, 0, 0, 0>>, <<4, 0, 0, 0>>>>), D(2, <<<<52, 18, 0, 0>>>>), D(2, <<<<255, 255, 0, 0>>, <<0, 128, 0, 0>>>>),
          D(4, <<<<120, 86, 52, 18>>>>), D(4, <<<<90, 165, 60, 195>>, <<1, 0, 0, 0>>>>),
          [k |-> "res", cnt |-> 4], [k |-> "res", cnt |-> 12], [k |-> "org", a |-> 32], [k |-> "org", a |-> 272], [k |-> "org", a |-> 16384]}
IsData(it) == it.k = "data"
Blocks == {<<i1>> : i1 \in {x \in Items : IsData(x)}} \cup {<<i1, i2>> : i1 \in Items, i2 \in {x \in Items : IsData(x)}}
          \cup {<<i1, i2, i3>> : i1 \in {x \in Items : IsData(x)}, i2 \in {x \in Items : ~IsData(x)}, i3 \in {x \in Items : IsData(x)}}
\* blocks with labels: a backward and a forward reference, a gap between the label and its use
Lab(x) == [k |-> "lab", n |-> x]
Ref(x) == [k |-> "ref", n |-> x]
LabBlocks == {<<Lab("la"), i1, Ref("la")>> : i1 \in {x \in Items : x.k # "org"}}
             \cup {<<Ref("lb"), i1, Lab("lb"), Ref("lb")>> : i1 \in {x \in Items : x.k # "org"}}
             \cup {<<Lab("la"), Ref("lb"), Ref("la"), Lab("lb")>>}
\* blocks that place nothing: the next block without an address starts where such a block did
EmptyBlocks == {<<[k |-> "res", cnt |-> 4]>>, <<Lab("la")>>, <<[k |-> "org", a |-> 32], [k |-> "res", cnt |-> 12]>>}
A(a, its) == [k |-> "asm", a |-> a, items |-> its]
AsmCmds == {A(a, b) : a \in {-1, 0, 16, 60, 256, 16380}, b \in Blocks} \cup {A(a, b) : a \in {-1, 16, 256}, b \in LabBlocks \cup EmptyBlocks}
\* fetch sessions: write a load-immediate instruction byte by byte, optionally overwrite its immediate with
\* another write (8, 16 or 32 bits wide, which the byte order then places), execute it
\* via = "asm": the instruction is assembled interactively instead of written byte by byte
FetchCases == {[cpu |-> cpu, pc |-> pc, imm |-> imm, ow |-> ow, ov |-> ov, via |-> via] :
                 cpu \in {"msp430", "6502", "z80", "avr8"}, pc \in {256, 512, 4096}, imm \in {0, 1, 90, 128, 255, 4660, 65535},
                 ow \in {0, 1, 2}, ov \in {<<165, 0, 0, 0>>, <<52, 18, 0, 0>>}, via \in {"write", "asm"}}
Init == s = <<>> /\ n \in 2..MaxLen
\* one command in four is an asm block
NextR == Len(s) < n /\ s' = Append(s, IF RandomElement(1..4) = 1 THEN RandomElement(AsmCmds) ELSE RandomElement(Cmds)) /\ UNCHANGED n
SpecR == Init /\ [][NextR]_<<s, n>>
Emit == Len(s) = n => PrintT("CASE " \o ToJson(s))
\* boundary sessions (always run, not drawn): one write of every width at every address next to a 64 KiB page
\* boundary, then the bytes and the values around it are printed
AsmSessions == {<<W(1, 16, <<<<119, 0, 0, 0>>>>), W(1, 280, <<<<119, 0, 0, 0>>>>), A(a, b), A(-1, <<D(2, <<<<52, 18, 0, 0>>>>)>>), P(1, 0, 64), P(1, 256, 320), P(2, 16368, 16400)>> :
                  a \in {0, 16, 256, 16380}, b \in Blocks}
               \cup {<<A(a, b), A(-1, <<D(2, <<<<52, 18, 0, 0>>>>)>>), P(1, 0, 64), P(1, 256, 320)>> : a \in {16, 256}, b \in LabBlocks \cup EmptyBlocks}
\* symbol sessions: the loaded file defines foo, bar and last (unit addresses); writes and ranges name them
Syms == <<[name |-> "foo", a |-> 256], [name |-> "bar", a |-> 260], [name |-> "last", a |-> 280]>>
SymVal(syms, nm) == syms[CHOOSE i \in 1..Len(syms) : syms[i].name = nm].a
PS(w, a, sa, b, sb) == [k |-> "print", w |-> w, a |-> a, sa |-> sa, b |-> b, sb |-> sb]
\* (the property names symbols as range arguments; the address of write* is given as a number)
SymSessions == {<<W(w, SymVal(Syms, nm), <<<<120, 86, 52, 18>>>>), PS(w, -1, "foo", -1, "last"), PS(1, -1, x, 288, ""), PS(1, 248, "", -1, y), PS(w, -1, x, -1, y)>> :
                  w \in {1, 2, 4}, nm \in {"foo", "bar", "last"}, x \in {"foo", "bar"}, y \in {"bar", "last"}}
BoundSessions == {<<W(w, a, <<v>>), P(1, 65520, 65552), P(w, 65520, 65552)>> :
                    w \in {1, 2, 4}, a \in {65532, 65533, 65534, 65535}, v \in {<<120, 86, 52, 18>>, <<255, 255, 255, 255>>}}
                 \cup {<<W(w, 65530, <<<<1, 0, 0, 0>>, <<120, 86, 52, 18>>, <<90, 165, 60, 195>>>>), P(1, 65520, 65552)>> : w \in {2, 4}}
InitF == s = <<>> /\ n = 0
NextF == FALSE /\ UNCHANGED <<s, n>>
EmitFetch == (s = <<>>) => (PrintT("FETCH " \o ToJson(FetchCases)) /\ PrintT("BOUND " \o ToJson(BoundSessions)) /\ PrintT("ASMS " \o ToJson(AsmSessions))
             /\ PrintT("SYMS " \o ToJson([syms |-> Syms, sessions |-> SymSessions])))
=============================================================================
