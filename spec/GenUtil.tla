------------------------------- MODULE GenUtil -------------------------------
(* Sessions for C19: drawn sequences of write*/print* commands; the acceptor replays them on Util.tla *)
EXTENDS Integers, Sequences, TLC, Json
CONSTANT MaxLen
VARIABLES s, n
Vals == {<<0, 0, 0, 0>>, <<1, 0, 0, 0>>, <<127, 0, 0, 0>>, <<255, 0, 0, 0>>, <<52, 18, 0, 0>>, <<255, 255, 0, 0>>,
         <<120, 86, 52, 18>>, <<255, 255, 255, 255>>, <<0, 128, 0, 0>>, <<90, 165, 60, 195>>}
Addrs == {0, 4, 16, 32, 60, 64, 256, 4096}
W(w, a, vs) == [k |-> "write", w |-> w, a |-> a, vals |-> vs]
P(w, a, b) == [k |-> "print", w |-> w, a |-> a, b |-> b]
Cmds == {W(w, a, <<v>>) : w \in {1, 2, 4}, a \in Addrs, v \in Vals}
        \cup {W(w, a, <<v1, v2, v3>>) : w \in {1, 2, 4}, a \in {16, 64}, v1 \in {<<1, 0, 0, 0>>}, v2 \in Vals, v3 \in {<<52, 18, 0, 0>>}}
        \cup {P(w, a, b) : w \in {1, 2, 4}, a \in {0, 16, 32, 64, 256, 4096}, b \in {0, 20, 36, 68, 80, 260, 4100, 4128}}
Init == s = <<>> /\ n \in 2..MaxLen
NextR == Len(s) < n /\ s' = Append(s, RandomElement(Cmds)) /\ UNCHANGED n
SpecR == Init /\ [][NextR]_<<s, n>>
Emit == Len(s) = n => PrintT("CASE " \o ToJson(s))
=============================================================================
