------------------------------- MODULE GenUtil -------------------------------
(* Sessions for C19: drawn sequences of write*/print* commands; the acceptor replays them on Util.tla *)
EXTENDS Integers, Sequences, FiniteSets, TLC, Json
CONSTANT MaxLen
VARIABLES s, n
Vals == {<<0, 0, 0, 0>>, <<1, 0, 0, 0>>, <<127, 0, 0, 0>>, <<255, 0, 0, 0>>, <<52, 18, 0, 0>>, <<255, 255, 0, 0>>,
         <<120, 86, 52, 18>>, <<255, 255, 255, 255>>, <<0, 128, 0, 0>>, <<90, 165, 60, 195>>}
Addrs == {0, 4, 16, 32, 60, 64, 256, 4096, 65532, 65533, 65534, 65535}      \* the last four: around a 64 KiB page boundary
W(w, a, vs) == [k |-> "write", w |-> w, a |-> a, vals |-> vs]
P(w, a, b) == [k |-> "print", w |-> w, a |-> a, b |-> b]
Cmds == {W(w, a, <<v>>) : w \in {1, 2, 4}, a \in Addrs, v \in Vals}
        \cup {W(w, a, <<v1, v2, v3>>) : w \in {1, 2, 4}, a \in {16, 64}, v1 \in {<<1, 0, 0, 0>>}, v2 \in Vals, v3 \in {<<52, 18, 0, 0>>}}
        \cup {P(w, a, b) : w \in {1, 2, 4}, a \in {0, 16, 32, 64, 256, 4096}, b \in {0, 20, 36, 68, 80, 260, 4100, 4128}}
        \cup {P(w, 65520, 65552) : w \in {1, 2, 4}}
\* fetch sessions: write a load-immediate instruction byte by byte, optionally overwrite its immediate with
\* another write (8, 16 or 32 bits wide, which the byte order then places), execute it
FetchCases == {[cpu |-> cpu, pc |-> pc, imm |-> imm, ow |-> ow, ov |-> ov] :
                 cpu \in {"msp430", "6502", "z80", "avr8"}, pc \in {256, 512, 4096}, imm \in {0, 1, 90, 128, 255, 4660, 65535},
                 ow \in {0, 1, 2}, ov \in {<<165, 0, 0, 0>>, <<52, 18, 0, 0>>}}
Init == s = <<>> /\ n \in 2..MaxLen
NextR == Len(s) < n /\ s' = Append(s, RandomElement(Cmds)) /\ UNCHANGED n
SpecR == Init /\ [][NextR]_<<s, n>>
Emit == Len(s) = n => PrintT("CASE " \o ToJson(s))
\* boundary sessions (always run, not drawn): one write of every width at every address next to a 64 KiB page
\* boundary, then the bytes and the values around it are printed
BoundSessions == {<<W(w, a, <<v>>), P(1, 65520, 65552), P(w, 65520, 65552)>> :
                    w \in {1, 2, 4}, a \in {65532, 65533, 65534, 65535}, v \in {<<120, 86, 52, 18>>, <<255, 255, 255, 255>>}}
                 \cup {<<W(w, 65530, <<<<1, 0, 0, 0>>, <<120, 86, 52, 18>>, <<90, 165, 60, 195>>>>), P(1, 65520, 65552)>> : w \in {2, 4}}
InitF == s = <<>> /\ n = 0
NextF == FALSE /\ UNCHANGED <<s, n>>
EmitFetch == (s = <<>>) => (PrintT("FETCH " \o ToJson(FetchCases)) /\ PrintT("BOUND " \o ToJson(BoundSessions)))
=============================================================================
