SPECIFICATION Spec
INVARIANTS TypeOK Atomic NeverSilent FinalAccepted
