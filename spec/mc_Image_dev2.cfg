SPECIFICATION Spec
CONSTANTS
  PS = 4
  NP = 3
  MaxOps = 4
  NextIsAdjacent = FALSE
  FirstPageOnly = TRUE
INVARIANT Refines
INVARIANT PagesOk
