---------------------------- MODULE TraceAsmData ----------------------------
(* Acceptor for C05: each trace line is one two-pass assembly of a data-    *)
(* directive program by the real code:                                      *)
(*  {"id", "bpa", "big", "prog": [stmts], "obs": {"k", "img", "syms", "low", "high"}} *)
EXTENDS AsmData, Json, IOUtils

Tr == ndJsonDeserialize(IOEnv.TRACE)

VARIABLE l
vars == <<l>>
Init == l = 1
Next == l <= Len(Tr) /\ l' = l + 1
Spec == Init /\ [][Next]_vars

Report ==
  IF l > Len(Tr) THEN PrintT("VERDICT " \o ToJson([done |-> Len(Tr)]))
  ELSE LET e == Tr[l] IN
       IF "hi" \in DOMAIN e THEN (ShiftOk(e) \/ PrintT("VERDICT " \o ToJson([id |-> e.id, why |-> ShiftWhy(e), ref |-> [err |-> FALSE]])))
       ELSE
       Conforms(e.prog, e.bpa, e.big, e.obs) \/
       PrintT("VERDICT " \o ToJson([id |-> e.id, why |-> Why(e.prog, e.bpa, e.big, e.obs),
                                     ref |-> [err |-> Denote(e.prog, e.bpa, e.big).err]]))
=============================================================================
