SPECIFICATION Spec
CONSTANTS
  MaxLen = 7
  CountsIfndef = TRUE
INVARIANTS Agreement RepairedAgrees
