SPECIFICATION Spec
CONSTANTS
  MaxLen = 7
  CountsIfndef = TRUE
  CountsCloses = TRUE
INVARIANTS Agreement RepairedAgrees
