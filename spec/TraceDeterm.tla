----------------------------- MODULE TraceDeterm -----------------------------
EXTENDS Determ, ObjFormats, Json, IOUtils
Tr == ndJsonDeserialize(IOEnv.TRACE)
VARIABLE l
TInit == l = 1
TNext == l <= Len(Tr) /\ l' = l + 1
Report ==
  IF l > Len(Tr) THEN PrintT("VERDICT " \o ToJson([done |-> Len(Tr)]))
  ELSE LET e == Tr[l] IN
    IF e.kind = "group" THEN
       (GroupOk(e) \/ PrintT("VERDICT " \o ToJson([id |-> e.id, why |-> "image differs between runs of one source",
                                                     hows |-> {e.runs[i].how : i \in Bad(e)}])))
    ELSE (FileOk(e) \/ PrintT("VERDICT " \o ToJson([id |-> e.id, why |-> FileWhy(e), hows |-> {e.how}])))
=============================================================================
