SPECIFICATION Spec
CONSTANTS
  MaxLen = 3
  Alpha = "wide"
INVARIANT Emit
