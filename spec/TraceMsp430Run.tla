--------------------------- MODULE TraceMsp430Run ---------------------------
(* Acceptor for the routine half of C14: {"id","words","org","bio","regs"     *)
(* (the 16 registers of the final dump),"cycles","status"} from                *)
(* naken_util -msp430 -set_pc <org> [-break_io <bio>] -run <file>.             *)
EXTENDS Msp430Cpu, Json, IOUtils
Tr == ndJsonDeserialize(IOEnv.TRACE)
VARIABLE l
TInit == l = 1
TNext == l <= Len(Tr) /\ l' = l + 1
WordCells(org, ws) == [a \in UNION {{org + 2 * (i - 1), org + 2 * (i - 1) + 1} : i \in 1..Len(ws)} |->
                         LET i == ((a - org) \div 2) + 1 IN IF (a - org) % 2 = 0 THEN ws[i] % 256 ELSE ws[i] \div 256]
Cells(e) == WordCells(e.org, e.words) @@ WordCells(768, e.data)
\* naken_util's reset state: registers 0, SP = 0x0800, PC from -set_pc
Start(e) == [reg |-> [i \in 1..16 |-> IF i = 1 THEN e.org ELSE IF i = 2 THEN 2048 ELSE 0], set |-> Cells(e), zero |-> TRUE]
Why(e) ==
  LET r == RunFrom(Start(e), 0, 0, e.bio, 400) IN
  IF r.end \in {"fuel", "unsettled"} THEN ""
  ELSE IF r.end = "break_io" THEN (IF e.status = r.exit THEN "" ELSE "exit status is not the value written to the break_io address")
  ELSE IF e.status # 0 THEN "exit status"
  ELSE IF \E n \in 0..15 : n # 3 /\ e.regs[n + 1] # Reg(r.st, n) THEN "registers after the final ret"
  ELSE IF e.cycles # r.cycles THEN "cycle count"
  ELSE ""
Expect(e) == LET r == RunFrom(Start(e), 0, 0, e.bio, 400) IN [end |-> r.end, regs |-> r.st.reg, cycles |-> r.cycles, exit |-> r.exit]
Report ==
  IF l > Len(Tr) THEN PrintT("VERDICT " \o ToJson([done |-> Len(Tr)]))
  ELSE LET e == Tr[l] w == Why(e) IN
       w = "" \/ PrintT("VERDICT " \o ToJson([id |-> e.id, why |-> w, expect |-> Expect(e)]))
=============================================================================
