SPECIFICATION Spec
CONSTANTS
  W = 1
  MaxOps = 3
  MaxParOps = 1
  MaxUnOps = 0
  Tuples <- MCTuples
INVARIANTS NoPrematureReduce
