------------------------------- MODULE GenCond -------------------------------
(* Case generator for C10.                                                   *)
(*  mode "struct": every sequence of conditional-structure statements up to  *)
(*                 MaxLen (BFS), marks numbered by position;                 *)
(*  mode "cond":   one .if/.else/.endif around every enumerated condition.   *)
EXTENDS Cond, Json

CONSTANTS MaxLen, MaxOps

VARIABLE prog

N(v) == [t |-> "num", v |-> v]
Nm(n) == [t |-> "name", n |-> n]
Df(n) == [t |-> "defined", n |-> n]
O(o) == [t |-> "op", o |-> o]
NOT == [t |-> "not"]
LP == [t |-> "lp"]
RP == [t |-> "rp"]

If(c) == [k |-> "if", c |-> c]
Mark(b) == [k |-> "mark", b |-> b]

\* ---- structures --------------------------------------------------------------
Alphabet == {If(<<N(1)>>), If(<<N(0)>>), If(<<Df("DX")>>),
             [k |-> "ifdef", n |-> "U"], [k |-> "ifndef", n |-> "U"],
             [k |-> "ifdef", n |-> "DX"], [k |-> "ifndef", n |-> "DX"],
             [k |-> "else"], [k |-> "endif"], Mark(0),
             [k |-> "define", n |-> "DX", v |-> 1], [k |-> "label", n |-> "lx"],
             [k |-> "note", d |-> "else"], [k |-> "note", d |-> "endif"], [k |-> "note", d |-> "ifdef"]}
Number(p) == IF p = <<>> THEN <<>>
             ELSE [i \in 1..Len(p) |-> IF p[i].k = "mark" THEN [p[i] EXCEPT !.b = 16 + i] ELSE p[i]]
Count(p, k) == Cardinality({i \in 1..Len(p) : p[i].k = k})
SecondElse(p) == LET st == RFold(Number(p), 1, St0) IN
                 st.stack # <<>> /\ st.stack[Len(st.stack)].else

\* ---- conditions ----------------------------------------------------------------
MinInt == -2147483647 - 1
\* DH is defined with a hexadecimal spelling (.define DH 0x10): a define stands for its number in every documented notation
Prefix == <<[k |-> "define", n |-> "D1", v |-> 1], [k |-> "define", n |-> "D0", v |-> 0],
            [k |-> "define", n |-> "D2", v |-> 2], [k |-> "define", n |-> "DH", v |-> 16],
            [k |-> "define", n |-> "DW", v |-> MinInt], [k |-> "define", n |-> "DM", v |-> -1],
            Mark(1), Mark(2), Mark(3), [k |-> "label", n |-> "s1"]>>
Wrap(c) == Prefix \o <<If(c), Mark(17), [k |-> "else"], Mark(34), [k |-> "endif"], Mark(51)>>

AllOps == {"==", "<", ">", "<=", ">=", "&&", "||"}
Atoms == {<<N(0)>>, <<N(1)>>, <<N(2)>>, <<N(3)>>, <<Nm("D0")>>, <<Nm("D1")>>, <<Nm("D2")>>, <<Nm("s1")>>,
          <<Df("D1")>>, <<Df("U")>>, <<Df("s1")>>, <<NOT, N(0)>>, <<NOT, N(2)>>, <<NOT, Df("U")>>}
SmallAtoms == {<<N(0)>>, <<N(1)>>, <<N(2)>>, <<Nm("D2")>>, <<NOT, N(0)>>, <<Df("U")>>}

RECURSIVE Flat(_, _, _)
Flat(as, os, i) == IF i > Len(as) THEN <<>>
                   ELSE as[i] \o (IF i <= Len(os) THEN <<O(os[i])>> ELSE <<>>) \o Flat(as, os, i + 1)
\* a o b o c with parentheses around (a o b) or (b o c), optionally negated
Par3(a, b, c, o1, o2) == {<<LP>> \o a \o <<O(o1)>> \o b \o <<RP, O(o2)>> \o c,
                          a \o <<O(o1), LP>> \o b \o <<O(o2)>> \o c \o <<RP>>,
                          <<NOT, LP>> \o a \o <<O(o1)>> \o b \o <<RP, O(o2)>> \o c,
                          a \o <<O(o1), NOT, LP>> \o b \o <<O(o2)>> \o c \o <<RP>>,
                          <<LP, LP>> \o a \o <<RP, O(o1)>> \o b \o <<RP, O(o2)>> \o c}

\* a number with all 32 bits set (rendered 4294967295, -1 as a C int) is not zero; hex-spelled defines; only used as a truth
\* value or with == (its order relative to other numbers depends on the evaluator's width, which the property leaves open)
\* DW is 0x80000000 and DM 0xffffffff (written in hex; as 32-bit patterns MinInt and -1): a define and a literal that are
\* the same number are equal whatever the width of the evaluator
STR == [t |-> "str"]
WideConds == {<<N(-1)>>, <<NOT, N(-1)>>, <<N(-1), O("&&"), N(1)>>, <<N(0), O("||"), N(-1)>>, <<LP, N(-1), RP>>,
              <<N(-1), O("=="), N(-1)>>, <<N(-1), O("=="), N(1)>>,
              <<Nm("DW"), O("=="), N(MinInt)>>, <<N(MinInt), O("=="), Nm("DW")>>, <<Nm("DW"), O("=="), Nm("DW")>>, <<Nm("DW")>>,
              <<Nm("DM"), O("=="), N(-1)>>, <<N(-1), O("=="), Nm("DM")>>, <<Nm("DM"), O("=="), Nm("DW")>>, <<NOT, Nm("DM")>>,
              <<Nm("DW"), O("=="), N(MinInt), O("&&"), Nm("DM"), O("=="), N(-1)>>,
              <<Nm("DH")>>, <<Nm("DH"), O("=="), N(16)>>, <<Nm("DH"), O(">"), N(15)>>, <<Nm("DH"), O("<"), N(16)>>, <<NOT, Nm("DH")>>}
BadConds == {<<STR>>, <<N(1), O("=="), STR>>, <<STR, O("=="), N(1)>>, <<N(1), O("&&"), STR>>,
             <<>>, <<Nm("U")>>, <<N(1), O("==")>>, <<O("=="), N(1)>>, <<N(1), N(2)>>, <<LP, N(1)>>,
             <<N(1), RP>>, <<LP, RP>>, <<N(1), O("&&"), O("||"), N(0)>>, <<NOT>>, <<N(1), O("=="), Nm("U")>>,
             <<LP, N(1), O("=="), N(1)>>, <<N(1), O("<"), N(2), RP>>, <<Df("U"), N(1)>>}

IsCond(c) ==
  \/ \E a \in Atoms : c = a
  \/ \E a \in Atoms, b \in Atoms, o \in AllOps : c = a \o <<O(o)>> \o b
  \/ MaxOps >= 2 /\ \E a \in SmallAtoms, b \in SmallAtoms, d \in SmallAtoms, o1 \in AllOps, o2 \in AllOps :
        \/ c = a \o <<O(o1)>> \o b \o <<O(o2)>> \o d
        \/ c \in Par3(a, b, d, o1, o2)
  \/ MaxOps >= 3 /\ \E a \in {<<N(0)>>, <<N(1)>>, <<N(2)>>}, b \in {<<N(1)>>, <<N(2)>>},
                     d \in {<<N(0)>>, <<N(2)>>}, e \in {<<N(1)>>, <<N(3)>>},
                     o1 \in AllOps, o2 \in AllOps, o3 \in AllOps :
        c = a \o <<O(o1)>> \o b \o <<O(o2)>> \o d \o <<O(o3)>> \o e
  \/ c \in BadConds
  \/ c \in WideConds

InitS == prog = <<>>
\* (programs that hold a note stop at 5 statements: the thorough bound of 6 is for the structure statements alone)
NextS == Len(prog) < (IF Count(prog, "note") > 0 THEN 5 ELSE MaxLen) /\ \E s \in Alphabet :
           /\ (s.k = "else" => ~SecondElse(prog))
           /\ (s.k \in {"define", "label", "note"} => Count(prog, s.k) = 0)
           /\ (s.k = "note" => Len(prog) < 5)
           /\ prog' = Append(prog, s)
EmitS == prog = <<>> \/ PrintT("CASE " \o ToJson(Number(prog)))
=============================================================================
