#!/bin/sh
# usage: tools/try_seed.sh <patch.diff> [--tier T] <PROP> [PROP...]
# Applies a seeded change to a scratch copy of /repo's working tree and runs the given checks on it.
P=$1; shift
TIER=quick
if [ "$1" = "--tier" ]; then TIER=$2; shift; shift; fi
D=$(mktemp -d /tmp/seedtest.XXXXXX)
rsync -a --exclude .git --exclude '*.o' --exclude 'build/*.a' /repo/ "$D"/
if ! (cd "$D" && patch -p1 --no-backup-if-mismatch < "$P" > "$D/.patch.log" 2>&1); then
  echo "PATCH FAILED"; cat "$D/.patch.log"; rm -rf "$D"; exit 3
fi
for prop in "$@"; do
  echo "=== $prop ($TIER) on seeded tree"
  (cd /verif && NAKEN_REPO="$D" timeout 3000 ./check "$prop" --tier $TIER > /tmp/try_seed.$prop.log 2>&1)
  grep -v "^KNOWN-FINDING" /tmp/try_seed.$prop.log | grep "^VIOLATION\|^\[$prop\]\|INFRA" | cut -c1-200 | head -5
done
rm -rf "$D"
