#!/bin/sh
# usage: tools/try_seed.sh <patch.diff> <PROP> [PROP...]
# Applies a seeded change to a scratch copy of /repo's working tree and runs the given checks on it.
P=$1; shift
D=$(mktemp -d /tmp/seedtest.XXXXXX)
rsync -a --exclude .git --exclude '*.o' --exclude 'build/*.a' /repo/ "$D"/
if ! (cd "$D" && patch -p1 --no-backup-if-mismatch < "$P" > "$D/.patch.log" 2>&1); then
  echo "PATCH FAILED"; cat "$D/.patch.log"; rm -rf "$D"; exit 3
fi
for prop in "$@"; do
  echo "=== $prop on seeded tree"
  (cd /verif && NAKEN_REPO="$D" timeout 1200 ./check "$prop" --tier quick 2>&1 | grep "^VIOLATION\|^\[$prop\]\|INFRA\|KNOWN" | cut -c1-220 | head -8)
done
rm -rf "$D"
