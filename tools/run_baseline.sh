#!/bin/sh
# Runs the repository's own suite (guard off) on a scratch copy of /repo's working tree.
# usage: tools/run_baseline.sh [logfile]
LOG=${1:-/tmp/nk_baseline.log}
D=$(mktemp -d /tmp/nk_base.XXXXXX)
rsync -a --exclude .git --exclude '*.o' --exclude '*.a' /repo/ "$D"/
cd "$D" && ./configure >/dev/null && make -j16 >/dev/null 2>&1 && make tests > "$LOG" 2>&1
RC=$?
echo "exit $RC pass=$(grep -c PASS "$LOG") fail=$(grep -ci fail "$LOG")" | tee -a "$LOG"
cd / && rm -rf "$D"
