#!/usr/bin/env python3
"""usage: tools/record_findings.py PROP "<note>" [triage.json]   (run by hand after triage, never by a check)
Appends one open entry to known_findings.jsonl for every replay of /verif/replays/PROP whose key is not listed yet."""
import sys, json, glob, os
prop, note = sys.argv[1], sys.argv[2]
root = os.path.dirname(os.path.dirname(os.path.abspath(__file__)))
kf = os.path.join(root, "known_findings.jsonl")
have = set()
for l in open(kf):
    if l.startswith("{"):
        have.add(json.loads(l)["key"])
n = 0
with open(kf, "a") as fh:
    items = []
    if len(sys.argv) > 3:          # a file written by a check run with NV_TRIAGE=<file>: every class, not only the first 20
        items = [{"key": k, "what": v["what"]} for k, v in sorted(json.load(open(sys.argv[3])).items())]
    else:
        items = [json.load(open(f)) for f in sorted(glob.glob(os.path.join(root, "replays", prop, "*.json")))]
    for d in items:
        if d["key"] in have:
            continue
        have.add(d["key"])
        fh.write(json.dumps({"status": "open", "property": prop, "key": d["key"], "witness": d["what"][:600],
                             "what": "observed on the real code with this witness (%s); class = %s" % (note, d["key"])}) + "\n")
        n += 1
print("recorded", n)
