#!/usr/bin/env python3
"""Offline triage helper (never run by a check): turns a NV_TRIAGE dump into known-finding
lines for classes that have been looked at.  usage: gen_findings.py PROP triage.json [--exclude cpu,cpu] [--max-per-cpu N]"""
import json, sys
prop, path = sys.argv[1], sys.argv[2]
excl = set()
maxper = 10**9
for i, a in enumerate(sys.argv):
    if a == "--exclude":
        excl = set(sys.argv[i + 1].split(","))
    if a == "--max-per-cpu":
        maxper = int(sys.argv[i + 1])
d = json.load(open(path))
per = {}
for k in d:
    cpu = k.split(":")[1] if ":" in k else ""
    per.setdefault(cpu, []).append(k)
out = []
skipped = {}
for cpu, ks in sorted(per.items()):
    if cpu in excl or len(ks) > maxper:
        skipped[cpu] = len(ks)
        continue
    for k in sorted(ks):
        out.append(json.dumps({"status": "open", "property": prop, "key": k,
                               "witness": d[k]["what"][:300].replace("\n", " / "),
                               "what": "observed on the real code with this witness; class = " + k}, ensure_ascii=True))
sys.stdout.write("\n".join(out) + "\n")
sys.stderr.write("listed %d classes; left out of scope: %s\n" % (len(out), json.dumps(skipped)))
