#!/bin/sh
# usage: tools/confirm_seed.sh <dir with patch.diff and demo.sh>
# Confirms a seeded change on scratch copies of /repo's working tree: it applies, compiles, the repository's
# suite passes (exit status and PASS count), the demonstration exits 1 with the change and 0 without it.
S=$(cd "$1" && pwd)
A=$(mktemp -d /tmp/seedconf_a.XXXXXX); B=$(mktemp -d /tmp/seedconf_b.XXXXXX)
rsync -a --exclude .git --exclude '*.o' --exclude '*.a' /repo/ "$A"/; rsync -a --exclude .git --exclude '*.o' --exclude '*.a' /repo/ "$B"/
if ! (cd "$A" && patch -p1 --no-backup-if-mismatch < "$S/patch.diff" > "$A/.patch.log" 2>&1); then echo "PATCH FAILED"; cat "$A/.patch.log"; rm -rf "$A" "$B"; exit 3; fi
(cd "$A" && ./configure >/dev/null && make -j16 >/dev/null 2>&1; echo "compile(with)=$?")
(cd "$B" && ./configure >/dev/null && make -j16 >/dev/null 2>&1; echo "compile(without)=$?")
(cd "$A" && make tests > "$A/.tests.log" 2>&1; echo "tests(with) exit=$? pass=$(grep -c PASS $A/.tests.log) fail=$(grep -ci fail $A/.tests.log)")
sh "$S/demo.sh" "$A" > "$A/.demo.log" 2>&1; echo "demo(with)=$?"
sh "$S/demo.sh" "$B" > "$B/.demo.log" 2>&1; echo "demo(without)=$?"
tail -3 "$A/.demo.log"
rm -rf "$A" "$B"
