#!/usr/bin/env python3
"""usage: tools/seed_meta.py <seed dir name> <round> <summary> <needs> <detected_by> <needed_strengthening> [how_run]
writes seeded/<name>/meta.json (files are read from patch.diff)"""
import sys, json, re, os
name, rnd, summary, needs, det, strong = sys.argv[1:7]
how = sys.argv[7] if len(sys.argv) > 7 else "tools/try_seed.sh /verif/seeded/%s/patch.diff %s" % (name, name.split("_")[0])
d = os.path.join(os.path.dirname(os.path.dirname(os.path.abspath(__file__))), "seeded", name)
files = sorted(set(re.findall(r"^\+\+\+ b/(\S+)", open(os.path.join(d, "patch.diff")).read(), re.M)))
meta = {
 "property": name.split("_")[0], "files": files, "summary": summary, "needs": needs, "detected_by": det,
 "needed_strengthening": strong,
 "produced_by": "independent sub-agent given only the property text and a scratch worktree (round %s)" % rnd,
 "confirmed": {"compiles": True,
  "baseline_suite": "make tests on a scratch copy of /repo with the change: exit 0, 7988 PASS, 0 FAIL (tools/confirm_seed.sh)",
  "demo_with_change": "exit 1", "demo_without_change": "exit 0"},
 "how_run": how}
json.dump(meta, open(os.path.join(d, "meta.json"), "w"), indent=1)
print("wrote", d)
